"""Demonstration of F-C17-1 against the real code (not part of any check).

History: key A reported SUCCESSFUL on commit c by a webhook (cached); the
host later re-runs A (pending); Bert-E polls key B on c; then key A is asked
again.  Expected by C17: SUCCESSFUL (still cached).  Before the fix the
answer is INPROGRESS.  Run: /venv/bin/python F-C17-1_demo.py
"""
import sys
from bert_e.git_host import github, cache

SHA = 'a' * 40
client = github.Client('robot', 'pw', 'robot@example.com')
state_of_A = {'v': 'pending'}


def fake_get(url, **kwargs):
    if url.endswith('/status'):
        return {'sha': SHA, 'state': 'pending', 'statuses': [
            {'state': state_of_A['v'], 'context': 'A', 'target_url': 'u',
             'description': 'd'},
            {'state': 'success', 'context': 'B', 'target_url': 'u',
             'description': 'd'}]}
    if url.endswith('/actions/runs'):
        return {'total_count': 0, 'workflow_runs': []}
    raise AssertionError(url)


client.get = fake_get
repo = github.Repository(client=client, _validate=False, name='r',
                         full_name='o/r', owner={'login': 'o'})
cache.BUILD_STATUS_CACHE.clear()
# webhook: A is SUCCESSFUL on SHA
cache.BUILD_STATUS_CACHE['A'].set(SHA, github.Status(
    client=client, state='success', target_url='u', description='d',
    context='A', _validate=False))
first = repo.get_build_status(SHA, 'A')
repo.get_build_status(SHA, 'B')          # poll of another key
second = repo.get_build_status(SHA, 'A')
print('A before poll of B:', first, '| A after poll of B:', second)
sys.exit(0 if (first, second) == ('SUCCESSFUL', 'SUCCESSFUL') else 1)
