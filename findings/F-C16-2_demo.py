"""Demonstration of F-C16-2 against the real code (not part of any check).

A git command that times out raises CommandError whose message is masked,
but `raise ... from err` keeps the subprocess.TimeoutExpired as __cause__;
its text contains the UNMASKED command line.  BertE.process / process_task
log the exception with LOG.exception, which prints the whole chain.
Exit 0 = no leak, 1 = the secret is in the log output.
"""
import io
import logging
import sys
from bert_e.lib.simplecmd import cmd, CommandError

SECRET = 's3cr3t-p4ss'
buf = io.StringIO()
logging.basicConfig(stream=buf, level=logging.INFO)
LOG = logging.getLogger('demo')
try:
    try:
        cmd('sleep 5 # https://robot:%s@example.org/o/r.git' % SECRET,
            timeout=0.2, mask_pwd=SECRET)
    except CommandError as err:
        assert SECRET not in str(err), 'message itself is masked'
        LOG.exception("Job finished with an error: %s", err)
except Exception:
    raise
leaked = SECRET in buf.getvalue()
print('secret in log output:', leaked)
sys.exit(1 if leaked else 0)
