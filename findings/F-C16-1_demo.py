"""Demonstration of F-C16-1 against the real code: refreshing the GitHub App
installation token prints the request headers, i.e. `Authorization: Bearer
<signed JWT>`, to standard output.  Exit 1 = the bearer token was printed."""
import contextlib
import io
import sys
from bert_e.git_host import github


class FakeResp:
    status_code = 201

    def raise_for_status(self):
        pass

    def json(self):
        return {'token': 'ghs_installation_token'}


class FakeSession:
    headers = {}

    def post(self, url, headers=None, **kw):
        return FakeResp()


c = github.Client.__new__(github.Client)
c.session = FakeSession()
c.base_url = 'https://api.github.com'
c.installation_id = 1
c.app_id = 1
c.accept_header = 'x'
c._get_jwt = lambda: 'JWT.SIGNED.TOKEN'
out = io.StringIO()
with contextlib.redirect_stdout(out):
    tok = github.Client._get_installation_token.__wrapped__(c)
leak = 'JWT.SIGNED.TOKEN' in out.getvalue()
print('bearer JWT on stdout:', leak)
sys.exit(1 if leak else 0)
