#!/usr/bin/env python3
"""Refresh `detected_now_by` / `rules_firing` in seeded/*/meta.json by
running every check against /repo + the patch (scratch copies outside /repo
and /verif, removed afterwards).  Development tool."""
import concurrent.futures as cf
import glob
import json
import os
import shutil
import subprocess
import tempfile

HERE = os.path.dirname(os.path.dirname(os.path.abspath(__file__)))


def run(d):
    tmp = tempfile.mkdtemp(prefix='verif_sr_')
    try:
        subprocess.run(['rsync', '-a', '--exclude', '.git', '/repo/',
                        tmp + '/'], check=True)
        subprocess.run(['patch', '-p1', '-s', '-d', tmp, '-i',
                        os.path.join(d, 'patch.diff')], check=True,
                       capture_output=True)
        r = subprocess.run([os.path.join(HERE, 'vcheck'), 'ALL', '--root',
                            tmp, '--no-write'], capture_output=True,
                           text=True, cwd=HERE)
        fired = sorted({ln.split('property=')[1].split()[0]
                        for ln in r.stdout.splitlines()
                        if ln.startswith('VIOLATION')})
        rules = sorted({ln.split('rule=')[1].split()[0]
                        for ln in r.stdout.splitlines()
                        if ln.startswith('FINDING')})
        mp = os.path.join(d, 'meta.json')
        meta = json.load(open(mp))
        meta['detected_now_by'] = fired
        meta['rules_firing'] = rules
        with open(mp, 'w') as fh:
            json.dump(meta, fh, indent=1)
            fh.write('\n')
        return meta['name'], fired
    finally:
        shutil.rmtree(tmp, ignore_errors=True)


if __name__ == '__main__':
    dirs = sorted(glob.glob(os.path.join(HERE, 'seeded', '*', '')))
    with cf.ThreadPoolExecutor(max_workers=10) as ex:
        for name, fired in ex.map(run, dirs):
            print(name, fired or 'MISSED')
