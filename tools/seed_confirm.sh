#!/bin/sh
# Usage: tools/seed_confirm.sh <name> <patch> <demo> [suite]
# Confirms a seeded change in a private scratch worktree of /repo:
#   demo on clean tree (expect 0), demo with patch (expect != 0),
#   optionally the pinned suite with the patch (expect the 76 baseline tests
#   to pass), then runs every static check against the patched tree.
name=$1; patch=$(readlink -f "$2"); demo=$(readlink -f "$3"); suite=$4
wt=/tmp/verif_confirm_$name
out=/tmp/seed/confirm/$name
mkdir -p "$out"
git -C /repo worktree remove --force "$wt" >/dev/null 2>&1
git -C /repo worktree add --detach -q "$wt" HEAD || exit 3
trap 'git -C /repo worktree remove --force "$wt" >/dev/null 2>&1' EXIT
# demos may hard-code their author's worktree: point them at ours
rd="$out/$(basename "$demo")"
sed "s#/tmp/seed/[CS][0-9][0-9]\\([/'\"]\\)#$wt\\1#g; s#/tmp/seed/[CS][0-9][0-9]\$#$wt#g" "$demo" > "$rd"
demo="$rd"
run_demo() {
  case "$demo" in
    *test_*.py) (cd "$wt" && PYTHONPATH="$wt" timeout 900 /venv/bin/python -m pytest -q -p no:cacheprovider "$demo" >"$out/$1.log" 2>&1); echo $? ;;
    *) (cd "$wt" && PYTHONPATH="$wt" SEED_WT="$wt" timeout 900 /venv/bin/python "$demo" >"$out/$1.log" 2>&1); echo $? ;;
  esac
}
clean_rc=$(run_demo demo_clean)
git -C "$wt" apply "$patch" || { echo "{\"name\":\"$name\",\"error\":\"patch does not apply\"}" > "$out/result.json"; exit 4; }
patched_rc=$(run_demo demo_patched)
suite_pass=skipped
if [ -n "$suite" ]; then
  (cd "$wt" && /venv/bin/python -m pytest -q -p no:cacheprovider --timeout=900 --continue-on-collection-errors --junitxml="$out/junit.xml" >"$out/suite.log" 2>&1)
  suite_pass=$(python3 - "$out/junit.xml" <<'PY'
import json, sys, xml.etree.ElementTree as ET
base=set(json.load(open('/root/.vp/BASELINE.json'))['stable_pass'])
ok=set()
for tc in ET.parse(sys.argv[1]).iter('testcase'):
    if not list(tc): ok.add(tc.get('classname')+'::'+tc.get('name'))
print('%d/%d baseline pass; %d extra' % (len(base&ok), len(base), len(ok-base)))
PY
)
  rm -f "$out/junit.xml"
fi
cd /verif
./vcheck ALL --root "$wt" --no-write 2>/dev/null | grep -E "^(VIOLATION|FINDING|ANALYSIS-ERROR)" | sed "s#$wt/##g" | cut -c1-400 > "$out/checks.txt"
fired=$(grep -o "^VIOLATION property=C[0-9]*" "$out/checks.txt" | sed 's/VIOLATION property=//' | tr '\n' ' ')
printf '{"name":"%s","demo_clean_rc":%s,"demo_patched_rc":%s,"suite":"%s","fired":"%s"}\n' "$name" "$clean_rc" "$patched_rc" "$suite_pass" "$fired" > "$out/result.json"
cat "$out/result.json"
