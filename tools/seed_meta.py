#!/usr/bin/env python3
"""Assemble /verif/seeded/<name>/ from the sub-agents' deliverables and my
own confirmation runs (tools/seed_confirm.sh, /tmp/seed/run_suites.sh)."""
import json
import os
import shutil
import subprocess
import sys

SEEDS = {
 # name: (property, patch, demo, what it breaks / needs, initially caught?)
 'C01a': ('C01', 'patch.diff', 'demo.py', 'octopus arm of merge_integration_branches merges first.dst_branch instead of prev.dst_branch; needs no-queue mode, octopus merges, >= 3 targets and a non-fast-forward merge on the first target', False),
 'C01b': ('C01', 'patch2.diff', 'demo2.py', 'create_branch validates the cascade before the new branch is created locally; needs an explicit too-early branch_from', True),
 'C02a': ('C02', 'patch.diff', 'demo.py', 'MasterQueueNotInSync test replaced by an inclusion test that can never fire; needs the remote to refuse exactly the q/w ref of the lowest version in the non-atomic queue push, then a re-delivery', False),
 'C02b': ('C02', 'patch2.diff', 'demo2.py', 'merge_integration_branches publishes destinations with a named non-atomic push and per-branch deletions; needs one refused development ref in the final push', True),
 'C03a': ('C03', 'patch.diff', 'demo.py', 'is_needed pairs wbranches[1:] with the unsliced dst_branches; needs skip_queue_when_not_needed, an empty queue, >= 2 targets and a later target that moved after the w/ branch was built green', False),
 'C03b': ('C03', 'patch2.diff', 'demo2.py', 'version_t overrides removed from StabilizationBranch / HotfixBranch: the stabilization queue drops out of every merge path; needs a PR on a stabilization branch whose queue build is red only there', False),
 'C04a': ('C04', 'patch.diff', 'demo.py', 'leader-author counted twice when he also approved; needs required_leader_approvals >= 2, a leader author in the approvals and exactly one other leader approval missing', True),
 'C04b': ('C04', 'patch2.diff', 'demo2.py', 'approve comment applied after the unanimity computation; needs approve + unanimity and an author who did not approve on the host', True),
 'C06a': ('C06', 'patch.diff', 'demo.py', 'update() skips the re-merge when the w/ branch already contains its predecessor; needs queues disabled, >= 2 targets, green builds reported, then a destination update without a new source commit', False),
 'C06b': ('C06', 'patch2.diff', 'demo2.py', 'per-author bypass computed from a list accumulated over all authors; needs two configured authors with the privileged one listed first', False),
 'C07a': ('C07', 'patch.diff', 'demo.py', 'privilege / author checks moved out of the keyword loop (only the last keyword is checked); needs a multi-keyword comment with the forbidden keyword not last', True),
 'C07b': ('C07', 'patch2.diff', 'demo2.py', 'bypass helpers de-duplicated, bypass_leader_approval given the peer key; needs required_leader_approvals > 0 and only bypass_peer_approval granted', True),
 'C08a': ('C08', 'patch.diff', 'demo.py', 'delete_branch no longer checks the branch out before tagging: the archive tag lands on an unrelated q/ tip; needs use_queue and a q/ branch of another version on the remote', True),
 'C09a': ('C09', 'patch.diff', 'demo.py', '_update_major_versions forgets the latest minor learnt from tags when a development/x.y exists; needs development/x with a release tag minor above every x.y branch', False),
 'C09b': ('C09', 'patch2.diff', 'demo2.py', 'hotfix revision takes the last tag seen instead of the maximum; needs hotfix tags discovered out of increasing order (lexical git tag order from the 10th hotfix on)', False),
 'C10a': ('C10', 'patch.diff', 'demo.py', 'init_settings bulk-updates with the shared default objects (no copy); needs a PR with after_pull_request evaluated earlier by the same process', False),
 'C10b': ('C10', 'patch2.diff', 'demo2.py', '_send_comment de-duplicates also for dont_repeat_if_in_history None semantics change (`!= 0`); needs always_create_integration_pull_requests false, >= 2 targets and the history reset, re-evaluation, second reset', True),
 'C11a': ('C11', 'patch.diff', 'demo.py', 'check_project tests the ticket key by prefix; needs a ticket of an unconfigured project whose key begins with a configured key', True),
 'C11b': ('C11', 'patch2.diff', 'demo2.py', 'hotfix filter widened to 3-number versions; needs a single-target non-hotfix cascade and a superset of fix versions', True),
 'C12a': ('C12', 'patch.diff', 'demo.py', 'handle_declined_pull_request returns instead of raising NothingToDo; needs a PR declined before its first evaluation (or re-evaluated after the cleanup)', False),
 'C12b': ('C12', 'patch2.diff', 'demo2.py', 'dependency gate only looks at open dependencies; needs every dependency merged or declined with at least one declined', True),
 'C13a': ('C13', 'patch.diff', 'demo.py', 'put_job also compares with the running job; needs an event for the same key accepted while the worker evaluates it', True),
 'C13b': ('C13', 'patch2.diff', 'demo2.py', 'handler uses err.args[0]; needs a job raising an argument-less exception: IndexError inside the handler kills the worker thread', False),
 'C14a': ('C14', 'patch.diff', 'demo.py', 'APIJob merges the JSON body over the validated URL parameters; needs a body key named branch or pr_id', False),
 'C14b': ('C14', 'patch2.diff', 'demo2.py', 'github webhook skips the repository check when full_name is absent / null / empty', True),
 'C15a': ('C15', 'patch.diff', 'demo.py', 'lossy-reset analysis only looks at the last integration branch; needs a manual commit on a non-last w/ branch and a reset before any evaluation propagates it', True),
 'C15b': ('C15', 'patch2.diff', 'demo2.py', 'early "no integration branch" exit removed: on the GitHub host get_pull_requests(src_branch=[]) lists every open PR, which are all declined', False),
 'C16a': ('C16', 'patch.diff', 'demo.py', 'timeout message appends the unmasked output of the command; needs a git command that hangs after printing the credentialed URL', True),
 'C16b': ('C16', 'patch2.diff', 'demo2.py', 'github clone URL quoted with quote, mask with quote_plus; needs a password containing / or a space', True),
 'C17a': ('C17', 'patch.diff', 'demo.py', 'workflow_dispatch runs dropped after the best run per workflow is elected; needs a dispatch run at least as good as the regular run of the same workflow', True),
 'C17b': ('C17', 'patch2.diff', 'demo2.py', 'LRUCache.get no longer refreshes recency (FIFO); needs eviction plus a use order different from insertion order (>= 3 commits vs cache size)', True),
 'C18a': ('C18', 'patch.diff', 'demo.py', 'hotfix pattern loses its trailing $ in a regex dedupe refactor; needs names such as hotfix/10.0.3.1 or hotfix/7.1.3/PROJ-12-fix', True),
 'C18b': ('C18', 'patch2.diff', 'demo2.py', 'GWFBranch.version_t uses truthiness: a micro / hfrev of 0 is dropped; needs queueing and a stabilization or hotfix version ending in .0', False),
 'C19a': ('C19', 'patch.diff', 'demo.py', 'DECLINED test moved below the early exits; needs the source branch deleted before the decline event is processed', False),
 'C19b': ('C19', 'patch2.diff', 'demo2.py', 'newly created w/ branches skipped when listing open PRs; needs a w/ branch deleted remotely while its PR stays open, then rebuilt', True),
 'C20a': ('C20', 'patch.diff', 'demo.py', 'archive-tag lookup drops the last real tag (splitlines()[:-1]); needs the archive tag to be the lexicographically greatest tag', True),
 'C20b': ('C20', 'patch2.diff', 'demo2.py', 'archive tag and branch deletion pushed in one non-atomic push; needs the remote to reject only the tag', True),
}

# second round (sub-agents told what the first round had produced and asked
# for another mechanism / place): name: (property, deliverable dir, patch,
# demo, what it breaks / needs, caught when first run?)
SEEDS2 = {
 'C01c': ('C01', 'S01', 'patch.diff', 'demo.py', 'handle_merge_queues publishes the destinations with an extra named (non-atomic) push right after merge_queues; needs queue mode, >= 2 destinations and the server refusing one ref other than the first', True),
 'C02c': ('C02', 'S02', 'patch.diff', 'demo.py', 'BertE.process resets the clone after the job (in a finally) and not at all after an unexpected exception; needs a job crashing between the local merges, then another job on the same process', True),
 'C03c': ('C03', 'S03', 'patch.diff', 'demo.py', 'check_in_sync evaluated after update_integration_branches (always true): w/ branches frozen; needs skip_queue_when_not_needed, >= 2 targets and a follow-up commit on the feature branch', False),
 'C03d': ('C03', 'S03', 'patch2.diff', 'demo2.py', '_extract_pr_ids reads self._queues instead of its argument in the hotfix arm; needs a pull request on a hotfix branch whose queue build is not SUCCESSFUL', False),
 'C04c': ('C04', 'S04', 'patch.diff', 'demo.py', 'per-author bypass dict built from found_elem (accumulated over all users); needs >= 2 users in pr_author_options, the privileged one first', True),
 'C04d': ('C04', 'S04', 'patch2.diff', 'demo2.py', 'bypass helpers refactored onto _bypassed(job, option), bypass_leader_approval passes the peer key; needs required_leader_approvals >= 1 and exactly one of the two bypasses', True),
 'C06c': ('C06', 'S06', 'patch.diff', 'demo.py', 'status loop stops at the first non-SUCCESSFUL tip: a waiting tip masks a failed later one; needs >= 2 integration branches with [INPROGRESS, FAILED]-like vectors', True),
 'C07c': ('C07', 'S07', 'patch.diff', 'demo.py', 'privileged / authored flags kept from the previous comment when the author is neither the PR author nor an admin; needs an admin (or author) comment followed by a third-party option comment', True),
 'C08b': ('C08', 'S08', 'patch.diff', 'demo.py', 'push_all uses --force-with-lease; needs a third-party push between the cache fetch and `git remote update origin`', True),
 'C09c': ('C09', 'S09', 'patch.diff', 'demo.py', 'add_branch re-sorts only when the new version is lower than the last key, ranking development/x as x.0; needs development/x discovered before a development/x.y', False),
 'C09d': ('C09', 'S09', 'patch2.diff', 'demo2.py', 'finalize computes the merge paths up front only for hotfix destinations; needs finalize before anybody asked for the merge paths (the PR job flow)', False),
 'C10c': ('C10', 'S10', 'patch.diff', 'demo.py', 'git_repo.reset() only when the previous job cloned: the ls-remote cache survives jobs that end before the clone; needs such a job, an outside push and a commit event on the new tip', True),
 'C10d': ('C10', 'S10', 'patch2.diff', 'demo2.py', 'QueueBuildFailedMessage gets dont_repeat_if_in_history = 0; needs a queued PR with a failed queue build and a repeated event', True),
 'C11c': ('C11', 'S11', 'patch.diff', 'demo.py', 'per-author bypass dict built from found_elem: later authors inherit bypass_jira_check; needs >= 2 authors in pr_author_options', True),
 'C12c': ('C12', 'S12', 'patch.diff', 'demo.py', 'after_pull_request handler assigns {pr_id} instead of adding to the set; needs >= 2 dependencies with the last declared one merged and an earlier one not', False),
 'C12d': ('C12', 'S12', 'patch2.diff', 'demo2.py', 'early_checks: `not producer or not consumer` becomes `not (producer or consumer)`; needs exactly one foreign side', True),
 'C13c': ('C13', 'S13', 'patch.diff', 'demo.py', 'job equality through same_ref (prefix match): PR 1 == PR 12; needs two PR ids in decimal-prefix relation pending at the same time', True),
 'C13d': ('C13', 'S13', 'patch2.diff', 'demo2.py', 'handle_bitbucket_repo_event returns no job when the cached state equals the reported one; needs the cache to hold that state already (re-run of a green build, or a poll)', False),
 'C14c': ('C14', 'S14', 'patch.diff', 'demo.py', 'branch_from validated only when it is a string; needs a non-string JSON value', True),
 'C14d': ('C14', 'S14', 'patch2.diff', 'demo2.py', 'check_basic_auth compares login+password concatenated; needs another split of the same characters', True),
 'C15c': ('C15', 'S15', 'patch.diff', 'demo.py', '_reset skips the analysis of a branch whose tip was written by the robot; needs the manual commit to be below a later robot merge', False),
 'C16c': ('C16', 'S16', 'patch.diff', 'demo.py', 'job.details = str(_root_cause(err)) follows __cause__ / __context__ to the unmasked TimeoutExpired; needs a credentialed git command that times out', False),
 'C16d': ('C16', 'S16', 'patch2.diff', 'demo2.py', 'BertESession.request logs the per-request headers on failure; needs GitHub-App mode and a failing token exchange (Authorization: Bearer <JWT>)', False),
 'C17c': ('C17', 'S17', 'patch.diff', 'demo.py', 'handle_github_status_event writes the cache unconditionally in its INPROGRESS branch; needs success, then pending for the same commit and context', True),
 'C17d': ('C17', 'S17', 'patch2.diff', 'demo2.py', 'bitbucket get_build_status trusts a cached FAILED; needs a re-run going green with no webhook delivered', True),
 'C18c': ('C18', 'S18', 'patch.diff', 'demo.py', 'q/w name derived with str.replace("w/", ...) without a count; needs a source branch with a path component ending in w', True),
 'C18d': ('C18', 'S18', 'patch2.diff', 'demo2.py', 'BranchCascade.build extracts names with re.search(prefix/.*$): a feature branch ending like a destination becomes that destination', False),
 'C19c': ('C19', 'S19', 'patch.diff', 'test_demo.py', 'handle_commit no longer maps w/ tips to their feature branch; needs integration pull requests off', True),
 'C19d': ('C19', 'S19', 'patch2.diff', 'test_demo2.py', 'description template names the w/ branch before the parent id: the first number is the version major; needs an event on the integration PR only', True),
 'C19e': ('C19', 'S19', 'patch3.diff', 'test_demo3.py', 'deepcopy(cascade) hoisted out of the loop over merged PRs; needs >= 2 PRs leaving the queue in one run', False),
 'C20c': ('C20', 'S20', 'patch.diff', 'demo.py', 'DevelopmentBranch.__lt__ ranks development/N as N.0: the queued-PR gate of create_branch is skipped; needs a major-only latest development branch and queued PRs', True),
 'C20d': ('C20', 'S20', 'patch2.diff', 'demo2.py', 'rebuild re-submits sorted(queued_prs); needs queue order different from id order', True),
}

# third round: changes disguised as behaviour-preserving clean-ups (a
# refactoring with one wrong detail): name: (property, deliverable dir,
# patch, demo, what it breaks / needs, caught when first run?)
SEEDS3 = {
 'C01d': ('C01', 'S01r3', 'patch.diff', 'demo.py', 'consecutive_merge refactored onto a helper; the fallback (opposite order) arm merges src2 twice and drops src1; needs the first merge order to conflict', True),
 'C01e': ('C01', 'S01r3', 'patch2.diff', 'demo2.py', 'cascade sorted with a key function, `minor or INF`: development/x.0 ranks like development/x (after every x.y); needs a minor version 0', True),
 'C02d': ('C02', 'S02r3', 'patch.diff', 'demo.py', '_remove_unmergeable rewritten with next(..., 0): a queue with no mergeable pull request keeps everything; needs a version whose queue holds only unmergeable pull requests (out of reach: value of the selection algorithm, see C05)', False),
 'C02e': ('C02', 'S02r3', 'patch2.diff', 'demo2.py', 'merge_queues with a guard clause, `*_, latest = mergeable`: the oldest mergeable queue branch is merged instead of the newest; needs >= 2 mergeable pull requests in a queue', True),
 'C03e': ('C03', 'S03r3', 'patch.diff', 'demo.py', '_first_failed_pr extracted from _recursive_lookup returns 0 at the first empty queue: later queues are never looked up; needs an empty queue before a red one', False),
 'C03f': ('C03', 'S03r3', 'patch2.diff', 'demo2.py', 'merge_queues fast-forwards the destination to the master queue q/x.y instead of the newest mergeable q/w branch; needs an unmergeable pull request on top of the queue', True),
 'C04e': ('C04', 'S04r3', 'patch.diff', 'demo.py', 'approval predicate extracted; the early exit passes the still-initial is_unanimous=True, losing the unanimity operand; needs unanimity required, every other requirement waived', True),
 'C04f': ('C04', 'S04r3', 'patch2.diff', 'demo2.py', 'locals author / robot introduced, peer_approvals = approvals - {robot}: the author counts as a peer; needs the author among the approvers', True),
 'C06d': ('C06', 'S06r3', 'patch.diff', 'demo.py', 'bypass helpers folded onto _is_bypassed, `.get(option, False)` became `option in job.author_bypass`; needs an author listed in pr_author_options without that bypass', True),
 'C06e': ('C06', 'S06r3', 'patch2.diff', 'demo2.py', 'check_in_sync as all(zip(children, children[1:])): the (source, first w/) pair is dropped; needs queue mode and a new source commit', False),
 'C07d': ('C07', 'S07r3', 'patch.diff', 'demo.py', 'option registration through _set_option(cls, ...), add_option forgets `authored`; needs an author-only option registered with add_option', False),
 'C07e': ('C07', 'S07r3', 'patch2.diff', 'demo2.py', 'PrAuthorsOptions.deserialize tests membership in the list accumulated over all users; needs >= 2 authors in pr_author_options', True),
 'C08c': ('C08', 'S08r3', 'patch.diff', 'demo.py', 'git_utils.push with a retry helper, `if not branches:` pushes everything for an empty selection; needs push(repo, []) (conflict on the first integration branch)', False),
 'C08d': ('C08', 'S08r3', 'patch2.diff', 'demo2.py', 'push_integration_branches keeps every IntegrationBranch, the ghost standing for the source branch included: the source branch is pushed by name; every pull request job', True),
 'C09e': ('C09', 'S09r3', 'patch.diff', 'demo.py', 'finalize split for hotfix destinations, the dangling-stabilization rejection is lost in the new walk; needs a hotfix destination and a stabilization branch without its development branch', False),
 'C09f': ('C09', 'S09r3', 'patch2.diff', 'demo2.py', 'get_merge_paths rewritten with dev_branches[index:], index counting version lines, not development branches; needs an earlier line without development branch (out of reach: value of the path algorithm)', False),
 'C10e': ('C10', 'S10r3', 'patch.diff', 'demo.py', 'Job.__init__ defaults to the shared module-level NO_SETTINGS dict: option values leak from job to job; needs two jobs built without explicit settings', False),
 'C10f': ('C10', 'S10r3', 'patch2.diff', 'demo2.py', 'find_comment with LAST_COMMENT_ONLY gives up at the first comment of anybody; needs a comment of somebody else after the robot\'s last message', True),
 'C11d': ('C11', 'S11r3', 'patch.diff', 'demo.py', '_fix_versions_match(expected, issue): arguments exchanged, the filters are applied to the wrong side; needs suffixed or hotfix versions', True),
 'C11e': ('C11', 'S11r3', 'patch2.diff', 'demo2.py', 'bypass helper tests `option in job.author_bypass`; needs an author listed without bypass_jira_check', True),
 'C12e': ('C12', 'S12r3', 'patch.diff', 'demo.py', 'class flags moved to a mixin taken from DevelopmentBranch: HotfixBranch becomes a cascade producer; needs a pull request whose source is hotfix/x.y.z', True),
 'C12f': ('C12', 'S12r3', 'patch2.diff', 'demo2.py', 'split_prefix helper tests the robot prefix on the unstripped text; needs a comment with leading blanks (wait, options, commands)', False),
 'C13e': ('C13', 'S13r3', 'patch.diff', 'demo.py', 'process_task split up, tasks_done.insert(0, job) raises on the full bounded deque inside finally: the worker dies; needs 1000 completed jobs', True),
 'C13f': ('C13', 'S13r3', 'patch2.diff', 'demo2.py', 'webhook handlers share _commit_job, which keeps only SUCCESSFUL / FAILED states: STOPPED and NOTSTARTED reports are dropped', True),
 'C14e': ('C14', 'S14r3', 'patch.diff', 'demo.py', 'bitbucket repository check folded into all(got != exp ...): a webhook is refused only if owner and slug both differ; needs a foreign repository with the same owner or the same name', False),
 'C14f': ('C14', 'S14r3', 'patch2.diff', 'demo2.py', 'BRANCH_REGEXP assembled with \'.\'.join: unescaped dots in the stabilization / hotfix alternatives; needs a name such as hotfix/1x2y3', False),
 'C15d': ('C15', 'S15r3', 'patch.diff', 'demo.py', '_reset refuses inside the analysis loop after deleting the branches analysed so far (per-branch pushes); needs the manual commit on a later integration branch', True),
 'C15e': ('C15', 'S15r3', 'patch2.diff', 'demo2.py', 'the manual-work flag is recomputed for every commit: only the last analysed commit counts; needs a manual commit followed by an old feature commit', False),
 'C16e': ('C16', 'S16r3', 'patch.diff', 'demo.py', 'mask_pwd hoisted to one module helper that passes bytes through unmasked; needs a command run without universal_newlines', True),
 'C16f': ('C16', 'S16r3', 'patch2.diff', 'demo2.py', 'cache refresh helper calls simplecmd.cmd instead of self.cmd: no mask_pwd; needs a failing `git fetch --prune` in the clone cache', True),
 'C17e': ('C17', 'S17r3', 'patch.diff', 'demo.py', 'AggregatedWorkflowRuns tidy-up groups the runs by workflow id instead of head branch: one green workflow makes the commit SUCCESSFUL', True),
 'C17f': ('C17', 'S17r3', 'patch2.diff', 'demo2.py', 'LRUCache.set makes room also when the key is already present: a full cache loses an entry on every update', True),
 'C18e': ('C18', 'S18r3', 'patch.diff', 'demo.py', 'QueueBranch destination from a format table, the hotfix entry keeps the hotfix revision (hotfix/x.y.z.n); needs a queue of a hotfix version', True),
 'C18f': ('C18', 'S18r3', 'patch2.diff', 'demo2.py', 'BRANCH_CLASSES re-flowed without UserBranch: user/* names are rejected', True),
 'C19f': ('C19', 'S19r3', 'patch.diff', 'test_demo.py', 'declined clean-up split into two helpers, `not (declined and removed)`: nothing is published unless both happened; needs only a pull request declined or only a branch removed', True),
 'C19g': ('C19', 'S19r3', 'patch2.diff', 'test_demo2.py', 'Repository.reset no longer forgets the ls-remote cache (moved to __init__): stale remote heads in the next job', True),
 'C20e': ('C20', 'S20r3', 'patch.diff', 'demo.py', 'create_branch split up, new_branch.create() without do_push=False: the branch is pushed before the cascade validation; needs a request refused only by that validation', True),
 'C20f': ('C20', 'S20r3', 'patch2.diff', 'demo2.py', 'delete_branch drops the checkout before tagging (exists() already did one, the queue collection moved HEAD since); needs queues and a q/ branch of another version', True),
}

# fourth round: larger clean-ups (40-60 changed lines, helpers extracted
# across functions and modules) with one wrong detail, each delivered with a
# repaired twin.  Optional 7th field: why the change is out of reach.
TWIN_LIMIT = ('the repaired twin of this change is a known limit of the '
              'normaliser (limits/): the check cannot tell the change from '
              'its twin, so its verdict on either is not counted')
SEEDS4 = {
 'C01f': ('C01', 'S01r4', 'patch.diff', 'demo.py', 'robust_merge with an octopus_ok flag and one dst.merge(merged): when the octopus attempt fails the untouched scratch branch is merged (a no-op); needs no-queue mode, >= 2 targets and an octopus merge that conflicts in both orders while consecutive merges succeed', True),
 'C01g': ('C01', 'S01r4', 'patch2.diff', 'demo2.py', '_remove_unmergeable with index arithmetic, min(..., default=0) instead of default=len(pr_ids): a version with no mergeable pull request keeps its whole queue; needs an older green PR on a later branch and a newer red one on an earlier branch', False, 'which entries are deleted is a value of index arithmetic over a runtime list (same as C02d)'),
 'C02f': ('C02', 'S02r4', 'patch.diff', 'demo.py', 'robust_merge keep-condition loses the "octopus attempt conflicted" operand: dst gets nothing; needs an octopus conflict in both orders (rename + edit), queues disabled: partial landing', True),
 'C02g': ('C02', 'S02r4', 'patch2.diff', 'demo2.py', 'rebuild_queues split into helpers, the guard clause tests queued_prs instead of queue_branches: the documented queue reset reports success without deleting; needs q/ branches with no queued PR (crash between the q/ pushes)', False),
 'C03g': ('C03', 'S03r4', 'patch.diff', 'demo.py', '_process with the per-path lookup extracted, "smallest table" test against len(queued_prs) instead of len(mergeable_prs): the last path that rejects anything wins; needs two merge paths with failures on both, the later one less restrictive', True),
 'C03h': ('C03', 'S03r4', 'patch2.diff', 'demo2.py', 'cache write discipline hoisted into cache.remember_build_status (used across three modules); the caching loop passes the method\'s key instead of the loop variable: every status lands in the slot of the configured key and a green one sticks; needs another SUCCESSFUL status context on the commit', False),
 'C04g': ('C04', 'S04r4', 'patch.diff', 'demo.py', 'GitHub get_summarized_reviews rewritten as a sorted loop: the COMMENTED filter runs after the latest review per author is chosen; needs a comment review posted after an approval or a change request', False),
 'C04h': ('C04', 'S04r4', 'patch2.diff', 'demo2.py', 'UserDict clean-up, the identity hashed is computed once in __init__; needs a user whose account id is set after construction (the robot after log-in): look-ups in approval sets fail', False),
 'C06f': ('C06', 'S06r4', 'patch.diff', 'demo.py', 'remove_unwanted_workflows single-pass: workflow_dispatch runs dropped after the best run per workflow is chosen; needs a hand-dispatched run that outranks the failed regular run of the same workflow', False),
 'C06g': ('C06', 'S06r4', 'patch2.diff', 'demo2.py', 'check_pull_request_skew with guard clauses, branch.includes_commit(local_sha1) instead of pr_sha1 (always true): an outdated clone is never detected; needs a push on a w/ branch while the job runs', False),
 'C07f': ('C07', 'S07r4', 'patch.diff', 'demo.py', 'Command / Option as frozen dataclasses, class Option(Command): isinstance(option, Command) holds and handle_commands runs option handlers without the authored check; needs `approve <token>` from a non-author', False),
 'C07g': ('C07', 'S07r4', 'patch2.diff', 'demo2.py', 'privilege computed once per author by _is_privileged; the own-PR guard compares admin.username with the PR author; needs admins configured as name@account_id on a host reporting account ids', False, TWIN_LIMIT),
 'C08e': ('C08', 'S08r4', 'patch.diff', 'demo.py', 'Repository.clone split up, cache refresh and clone refresh merged into one helper that lost --prune: the ~/.bert-e mirror never forgets deleted branches and push --all re-creates them; needs an existing mirror and a foreign branch deleted since', False),
 'C08f': ('C08', 'S08r4', 'patch2.diff', 'demo2.py', 'delete_branch tail extracted into archive_and_delete, deletion attached as finally: instead of else:; needs the archive tag creation or push to fail', True),
 'C09g': ('C09', 'S09r4', 'patch.diff', 'demo.py', 'target versions moved into next_version properties of the branch classes; DevelopmentBranch tests `not self.minor` instead of has_minor; needs development/x.0', False, TWIN_LIMIT),
 'C09h': ('C09', 'S09r4', 'patch2.diff', 'demo2.py', 'tag parsing moved into a TagVersion named tuple, hotfix guard compares version_t[:2] instead of [:3]; needs a tag of another micro version of the same x.y', False, TWIN_LIMIT),
 'C10g': ('C10', 'S10r4', 'patch.diff', 'demo.py', 'error conversion of handle_comments folded into _command_refused, robot hoisted into a local as its username (a str): the robot\'s own comments are no longer recognised on a host reporting account ids', False),
 'C10h': ('C10', 'S10r4', 'patch2.diff', 'demo2.py', 'clone cache handling extracted, the merged _update_remote helper dropped --prune for the mirror; needs a branch deleted on the host after the mirror saw it', False),
 'C11f': ('C11', 'S11r4', 'patch.diff', 'demo.py', 'jira_checks with bypass_reason() / jira_is_configured() helpers: check_issue_reference (which can refuse) now runs before the "Jira not configured" guard; needs an unconfigured instance and a ticketless branch', False),
 'C11g': ('C11', 'S11r4', 'patch2.diff', 'demo2.py', 'reference check folded into get_jira_issue (Optional result), the final bare raise replaced by LOG.exception: a 401/403/5xx lookup returns None and the gate fails open', False),
 'C12g': ('C12', 'S12r4', 'patch.diff', 'demo.py', 'init_settings as one update(copy(get_defaults())): the copy is applied to the dict, not to each default; after_pull_request ids stay for the life of the process', False),
 'C12h': ('C12', 'S12r4', 'patch2.diff', 'demo2.py', 'reactor regular expressions hoisted to module constants built from a shared SEPARATORS class that lost the /: a /wait or /after_pull_request=N declaration is silently ignored', False),
 'C13g': ('C13', 'S13r4', 'patch.diff', 'demo.py', 'APIJob builds its settings as {**self.kwargs, **(settings or {})}: the JSON body overrides the validated URL parameters', False),
 'C13h': ('C13', 'S13r4', 'patch2.diff', 'demo2.py', 'rmtree onerror callback hoisted to a method without @staticmethod but passed as self._on_rmtree_error: TypeError at the first removal error, Repository.reset() then fails before every job', False),
 'C14g': ('C14', 'S14r4', 'patch.diff', 'demo.py', 'auth responders merged, organisation check became `org and email and not email.endswith(...)`: a profile without e-mail gets a session; needs organization configured', True),
 'C14h': ('C14', 'S14r4', 'patch2.diff', 'demo2.py', 'APIEndpoint.view split up, the helper reads request.get_json(silent=True): a malformed body is answered 202 and the job built from the URL alone', False),
 'C15f': ('C15', 'S15r4', 'patch.diff', 'demo.py', '_reset registered for both commands with signature (job, force=False, *args): the first word after `reset` lands in force; needs `reset <word>` with manual commits on a w/ branch', False),
 'C15g': ('C15', 'S15r4', 'patch2.diff', 'demo2.py', 'Repository.clone split into helpers, the mirror refreshed with `git remote update origin` (no --prune); needs a warm mirror and a branch deleted since', False),
 'C16g': ('C16', 'S16r4', 'patch.diff', 'demo.py', 'mask_pwd made an explicit parameter of cmd / _do_cmd; the non-DEBUG call of _do_cmd no longer carries it: unmasked errors and output above DEBUG', False),
 'C16h': ('C16', 'S16r4', 'patch2.diff', 'demo2.py', 'clone clean-up logs the remote through public_url() whose credentials regex is \\w+:\\w+@; needs a login or quoted password with a character outside [A-Za-z0-9_]', False),
 'C17g': ('C17', 'S17r4', 'patch.diff', 'demo.py', 'cache helpers extracted, the caching loop became any(self._remember_build_status(...) for ...): it stops at the first key stored', False),
 'C17h': ('C17', 'S17r4', 'patch2.diff', 'demo2.py', 'branch_state over the set of conclusions, FAILED only if "failure" is among them: cancelled / timed_out runs read SUCCESSFUL', False, TWIN_LIMIT),
 'C18g': ('C18', 'S18r4', 'patch.diff', 'demo.py', 'early_checks classifies source then destination in two guard clauses, the destination stanza still tests cascade_producer; needs a hotfix or feature-like destination', False),
 'C18h': ('C18', 'S18r4', 'patch2.diff', 'demo2.py', 'per-class compiled pattern cached in cls._regex, the cache test reads through inheritance: GhostIntegrationBranch picks up IntegrationBranch\'s pattern; needs a w/ name classified first in the process', False),
 'C19h': ('C19', 'S19r4', 'patch.diff', 'demo.py', 'ls-remote parsing extracted, the tip -> branches index built with update((sha, {branch}) ...): one branch per commit survives; needs a commit that is the tip of two branches', False),
 'C19i': ('C19', 'S19r4', 'patch2.diff', 'demo2.py', 'remove_integration_branches() shared by the direct merge and the queue merge iterates wbranches[1:]: the queue caller\'s first integration branch stays on the remote; needs a queue merge with >= 2 targets', False),
 'C20g': ('C20', 'S20r4', 'patch.diff', 'demo.py', 'queued_prs rewritten with comprehensions, the top non-hotfix version taken without reversed(); needs >= 2 development queues', False, 'the order of a computed list (same as C09f / C05)'),
 'C20h': ('C20', 'S20r4', 'patch2.diff', 'demo2.py', 'cascade listing moved from a regex to string methods, the `* ` marker of the checked-out branch no longer stripped', False, TWIN_LIMIT),
}


def main():
    table = {k: (v[0], v[0], v[1], v[2], v[3], v[4]) for k, v in
             SEEDS.items()}
    if len(sys.argv) > 1 and sys.argv[1] == 'r2':
        table = {k: v for k, v in SEEDS2.items()}
    elif len(sys.argv) > 1 and sys.argv[1] == 'r3':
        table = {k: v for k, v in SEEDS3.items()}
    elif len(sys.argv) > 1 and sys.argv[1] == 'r4':
        table = {k: v for k, v in SEEDS4.items()}
    elif len(sys.argv) > 1 and sys.argv[1] == 'all':
        table.update(SEEDS2)
        table.update(SEEDS3)
        table.update(SEEDS4)
    for name, row in sorted(table.items()):
        prop, sdir, patch, demo, needs, caught0 = row[:6]
        reach = row[6] if len(row) > 6 else None
        src = '/tmp/seed/%s.out' % sdir
        dst = '/verif/seeded/%s' % name
        conf = '/tmp/seed/confirm/%s' % name
        if name in SEEDS3 or name in SEEDS4:
            conf = '/tmp/seed/confirm/%s_%s' % (
                sdir, '2' if '2' in patch else '1')
        if not os.path.exists(os.path.join(src, patch)):
            print('skip', name)
            continue
        os.makedirs(dst, exist_ok=True)
        shutil.copy(os.path.join(src, patch), os.path.join(dst, 'patch.diff'))
        shutil.copy(os.path.join(src, demo), os.path.join(dst, demo))
        res = {}
        try:
            res = json.load(open(os.path.join(conf, 'result.json')))
        except OSError:
            pass
        suite = res.get('suite', '')
        try:
            suite = open(os.path.join(conf, 'suite.txt')).read().strip()
        except OSError:
            pass
        out = subprocess.run(['/verif/tools/seed_eval.sh',
                              os.path.join(dst, 'patch.diff')],
                             capture_output=True, text=True).stdout
        fired = sorted({l.split('property=')[1].split()[0]
                        for l in out.splitlines()
                        if l.startswith('VIOLATION')})
        rules = sorted({l.split('rule=')[1].split()[0]
                        for l in out.splitlines()
                        if l.startswith('FINDING')})
        meta = {
            'name': name, 'property': prop,
            'origin': 'written by an independent sub-agent that saw only '
                      'the property record and its own worktree of /repo' +
                      (' (second round: also told what the first round '
                       'had produced, asked for another mechanism)'
                       if name in SEEDS2 else
                       ' (third round: asked for a change disguised as a '
                       'behaviour-preserving clean-up with one wrong detail)'
                       if name in SEEDS3 else
                       ' (fourth round: a larger clean-up -- helpers '
                       'extracted across functions and modules -- with one '
                       'wrong detail, delivered with a repaired twin)'
                       if name in SEEDS4 else ''),
            'breaks_and_needs': needs,
            'files': {'patch': 'patch.diff', 'demonstration': demo},
            'confirmed_by_me': {
                'how': 'tools/seed_confirm.sh in a fresh scratch worktree '
                       'of /repo HEAD (demo on clean tree, demo with the '
                       'patch) and the pinned pytest command with the '
                       'patch; worktrees removed afterwards',
                'demo_clean_rc': res.get('demo_clean_rc'),
                'demo_patched_rc': res.get('demo_patched_rc'),
                'pinned_suite_with_patch': suite,
            },
            'detected_when_first_run': caught0,
            'detected_now_by': fired,
            'rules_firing': rules,
        }
        if reach:
            meta['out_of_reach'] = reach
        else:
            try:
                old = json.load(open(os.path.join(dst, 'meta.json')))
                if old.get('out_of_reach'):
                    meta['out_of_reach'] = old['out_of_reach']
            except OSError:
                pass
        with open(os.path.join(dst, 'meta.json'), 'w') as fh:
            json.dump(meta, fh, indent=1)
            fh.write('\n')
        print(name, prop, 'clean', res.get('demo_clean_rc'), 'patched',
              res.get('demo_patched_rc'), '|', suite[:22], '|', fired)


if __name__ == '__main__':
    main()
