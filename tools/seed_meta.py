#!/usr/bin/env python3
"""Assemble /verif/seeded/<name>/ from the sub-agents' deliverables and my
own confirmation runs (tools/seed_confirm.sh, /tmp/seed/run_suites.sh)."""
import json
import os
import shutil
import subprocess
import sys

SEEDS = {
 # name: (property, patch, demo, what it breaks / needs, initially caught?)
 'C01a': ('C01', 'patch.diff', 'demo.py', 'octopus arm of merge_integration_branches merges first.dst_branch instead of prev.dst_branch; needs no-queue mode, octopus merges, >= 3 targets and a non-fast-forward merge on the first target', False),
 'C01b': ('C01', 'patch2.diff', 'demo2.py', 'create_branch validates the cascade before the new branch is created locally; needs an explicit too-early branch_from', True),
 'C02a': ('C02', 'patch.diff', 'demo.py', 'MasterQueueNotInSync test replaced by an inclusion test that can never fire; needs the remote to refuse exactly the q/w ref of the lowest version in the non-atomic queue push, then a re-delivery', False),
 'C02b': ('C02', 'patch2.diff', 'demo2.py', 'merge_integration_branches publishes destinations with a named non-atomic push and per-branch deletions; needs one refused development ref in the final push', True),
 'C03a': ('C03', 'patch.diff', 'demo.py', 'is_needed pairs wbranches[1:] with the unsliced dst_branches; needs skip_queue_when_not_needed, an empty queue, >= 2 targets and a later target that moved after the w/ branch was built green', False),
 'C03b': ('C03', 'patch2.diff', 'demo2.py', 'version_t overrides removed from StabilizationBranch / HotfixBranch: the stabilization queue drops out of every merge path; needs a PR on a stabilization branch whose queue build is red only there', False),
 'C04a': ('C04', 'patch.diff', 'demo.py', 'leader-author counted twice when he also approved; needs required_leader_approvals >= 2, a leader author in the approvals and exactly one other leader approval missing', True),
 'C04b': ('C04', 'patch2.diff', 'demo2.py', 'approve comment applied after the unanimity computation; needs approve + unanimity and an author who did not approve on the host', True),
 'C06a': ('C06', 'patch.diff', 'demo.py', 'update() skips the re-merge when the w/ branch already contains its predecessor; needs queues disabled, >= 2 targets, green builds reported, then a destination update without a new source commit', False),
 'C06b': ('C06', 'patch2.diff', 'demo2.py', 'per-author bypass computed from a list accumulated over all authors; needs two configured authors with the privileged one listed first', False),
 'C07a': ('C07', 'patch.diff', 'demo.py', 'privilege / author checks moved out of the keyword loop (only the last keyword is checked); needs a multi-keyword comment with the forbidden keyword not last', True),
 'C07b': ('C07', 'patch2.diff', 'demo2.py', 'bypass helpers de-duplicated, bypass_leader_approval given the peer key; needs required_leader_approvals > 0 and only bypass_peer_approval granted', True),
 'C08a': ('C08', 'patch.diff', 'demo.py', 'delete_branch no longer checks the branch out before tagging: the archive tag lands on an unrelated q/ tip; needs use_queue and a q/ branch of another version on the remote', True),
 'C09a': ('C09', 'patch.diff', 'demo.py', '_update_major_versions forgets the latest minor learnt from tags when a development/x.y exists; needs development/x with a release tag minor above every x.y branch', False),
 'C09b': ('C09', 'patch2.diff', 'demo2.py', 'hotfix revision takes the last tag seen instead of the maximum; needs hotfix tags discovered out of increasing order (lexical git tag order from the 10th hotfix on)', False),
 'C10a': ('C10', 'patch.diff', 'demo.py', 'init_settings bulk-updates with the shared default objects (no copy); needs a PR with after_pull_request evaluated earlier by the same process', False),
 'C10b': ('C10', 'patch2.diff', 'demo2.py', '_send_comment de-duplicates also for dont_repeat_if_in_history None semantics change (`!= 0`); needs always_create_integration_pull_requests false, >= 2 targets and the history reset, re-evaluation, second reset', True),
 'C11a': ('C11', 'patch.diff', 'demo.py', 'check_project tests the ticket key by prefix; needs a ticket of an unconfigured project whose key begins with a configured key', True),
 'C11b': ('C11', 'patch2.diff', 'demo2.py', 'hotfix filter widened to 3-number versions; needs a single-target non-hotfix cascade and a superset of fix versions', True),
 'C12a': ('C12', 'patch.diff', 'demo.py', 'handle_declined_pull_request returns instead of raising NothingToDo; needs a PR declined before its first evaluation (or re-evaluated after the cleanup)', False),
 'C12b': ('C12', 'patch2.diff', 'demo2.py', 'dependency gate only looks at open dependencies; needs every dependency merged or declined with at least one declined', True),
 'C13a': ('C13', 'patch.diff', 'demo.py', 'put_job also compares with the running job; needs an event for the same key accepted while the worker evaluates it', True),
 'C13b': ('C13', 'patch2.diff', 'demo2.py', 'handler uses err.args[0]; needs a job raising an argument-less exception: IndexError inside the handler kills the worker thread', False),
 'C14a': ('C14', 'patch.diff', 'demo.py', 'APIJob merges the JSON body over the validated URL parameters; needs a body key named branch or pr_id', False),
 'C14b': ('C14', 'patch2.diff', 'demo2.py', 'github webhook skips the repository check when full_name is absent / null / empty', True),
 'C15a': ('C15', 'patch.diff', 'demo.py', 'lossy-reset analysis only looks at the last integration branch; needs a manual commit on a non-last w/ branch and a reset before any evaluation propagates it', True),
 'C15b': ('C15', 'patch2.diff', 'demo2.py', 'early "no integration branch" exit removed: on the GitHub host get_pull_requests(src_branch=[]) lists every open PR, which are all declined', False),
 'C16a': ('C16', 'patch.diff', 'demo.py', 'timeout message appends the unmasked output of the command; needs a git command that hangs after printing the credentialed URL', True),
 'C16b': ('C16', 'patch2.diff', 'demo2.py', 'github clone URL quoted with quote, mask with quote_plus; needs a password containing / or a space', True),
 'C17a': ('C17', 'patch.diff', 'demo.py', 'workflow_dispatch runs dropped after the best run per workflow is elected; needs a dispatch run at least as good as the regular run of the same workflow', True),
 'C17b': ('C17', 'patch2.diff', 'demo2.py', 'LRUCache.get no longer refreshes recency (FIFO); needs eviction plus a use order different from insertion order (>= 3 commits vs cache size)', True),
 'C18a': ('C18', 'patch.diff', 'demo.py', 'hotfix pattern loses its trailing $ in a regex dedupe refactor; needs names such as hotfix/10.0.3.1 or hotfix/7.1.3/PROJ-12-fix', True),
 'C18b': ('C18', 'patch2.diff', 'demo2.py', 'GWFBranch.version_t uses truthiness: a micro / hfrev of 0 is dropped; needs queueing and a stabilization or hotfix version ending in .0', False),
 'C19a': ('C19', 'patch.diff', 'demo.py', 'DECLINED test moved below the early exits; needs the source branch deleted before the decline event is processed', False),
 'C19b': ('C19', 'patch2.diff', 'demo2.py', 'newly created w/ branches skipped when listing open PRs; needs a w/ branch deleted remotely while its PR stays open, then rebuilt', True),
 'C20a': ('C20', 'patch.diff', 'demo.py', 'archive-tag lookup drops the last real tag (splitlines()[:-1]); needs the archive tag to be the lexicographically greatest tag', True),
 'C20b': ('C20', 'patch2.diff', 'demo2.py', 'archive tag and branch deletion pushed in one non-atomic push; needs the remote to reject only the tag', True),
}


def main():
    for name, (prop, patch, demo, needs, caught0) in sorted(SEEDS.items()):
        src = '/tmp/seed/%s.out' % prop
        dst = '/verif/seeded/%s' % name
        conf = '/tmp/seed/confirm/%s' % name
        if not os.path.exists(os.path.join(src, patch)):
            print('skip', name)
            continue
        os.makedirs(dst, exist_ok=True)
        shutil.copy(os.path.join(src, patch), os.path.join(dst, 'patch.diff'))
        shutil.copy(os.path.join(src, demo), os.path.join(dst, demo))
        res = {}
        try:
            res = json.load(open(os.path.join(conf, 'result.json')))
        except OSError:
            pass
        suite = ''
        try:
            suite = open(os.path.join(conf, 'suite.txt')).read().strip()
        except OSError:
            pass
        out = subprocess.run(['/verif/tools/seed_eval.sh',
                              os.path.join(dst, 'patch.diff')],
                             capture_output=True, text=True).stdout
        fired = sorted({l.split('property=')[1].split()[0]
                        for l in out.splitlines()
                        if l.startswith('VIOLATION')})
        rules = sorted({l.split('rule=')[1].split()[0]
                        for l in out.splitlines()
                        if l.startswith('FINDING')})
        meta = {
            'name': name, 'property': prop,
            'origin': 'written by an independent sub-agent that saw only '
                      'the property record and its own worktree of /repo',
            'breaks_and_needs': needs,
            'files': {'patch': 'patch.diff', 'demonstration': demo},
            'confirmed_by_me': {
                'how': 'tools/seed_confirm.sh in a fresh scratch worktree '
                       'of /repo HEAD (demo on clean tree, demo with the '
                       'patch) and the pinned pytest command with the '
                       'patch; worktrees removed afterwards',
                'demo_clean_rc': res.get('demo_clean_rc'),
                'demo_patched_rc': res.get('demo_patched_rc'),
                'pinned_suite_with_patch': suite,
            },
            'detected_when_first_run': caught0,
            'detected_now_by': fired,
            'rules_firing': rules,
        }
        with open(os.path.join(dst, 'meta.json'), 'w') as fh:
            json.dump(meta, fh, indent=1)
            fh.write('\n')
        print(name, prop, 'clean', res.get('demo_clean_rc'), 'patched',
              res.get('demo_patched_rc'), '|', suite[:22], '|', fired)


if __name__ == '__main__':
    main()
