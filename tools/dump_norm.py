#!/usr/bin/env python3
"""Print a function as the checks see it (after normalisation).
Usage: dump_norm.py <qualified name> [patch.diff]   (development tool)"""
import ast, os, shutil, subprocess, sys, tempfile
sys.path.insert(0, os.path.dirname(os.path.dirname(os.path.abspath(__file__))))
from sa.program import Program
root = '/repo'
tmp = None
if len(sys.argv) > 2:
    tmp = tempfile.mkdtemp(prefix='verif_dn_')
    subprocess.run(['rsync', '-a', '--exclude', '.git', '/repo/', tmp + '/'], check=True)
    subprocess.run(['patch', '-p1', '-s', '-d', tmp, '-i', os.path.abspath(sys.argv[2])], check=True)
    root = tmp
try:
    prog = Program.load(root)
    print(prog.inlined)
    f = prog.funcs[sys.argv[1]]
    node = f.node
    body = node.body[1:] if node.body and isinstance(node.body[0], ast.Expr) and isinstance(node.body[0].value, ast.Constant) else node.body
    for st in body:
        print(ast.unparse(st))
finally:
    if tmp:
        shutil.rmtree(tmp, ignore_errors=True)
