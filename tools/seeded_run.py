#!/usr/bin/env python3
"""Re-run the checks against every confirmed seeded breaking change under
/verif/seeded: each must still be reported (VIOLATION of its own property).
Development tool; scratch copies live outside /repo and /verif and are
removed.  Exit 1 if a seeded change is missed."""
import concurrent.futures as cf
import glob
import json
import os
import shutil
import subprocess
import sys
import tempfile

HERE = os.path.dirname(os.path.dirname(os.path.abspath(__file__)))
REPO = os.environ.get('VERIF_REPO', '/repo')


def run(d):
    meta = json.load(open(os.path.join(d, 'meta.json')))
    pid = meta['property']
    tmp = tempfile.mkdtemp(prefix='verif_seeded_')
    try:
        subprocess.run(['rsync', '-a', '--exclude', '.git', '--exclude',
                        '__pycache__', REPO + '/', tmp + '/'], check=True)
        r = subprocess.run(['patch', '-p1', '-s', '-d', tmp, '-i',
                            os.path.join(d, 'patch.diff')],
                           capture_output=True, text=True)
        if r.returncode:
            return meta['name'], pid, False, ['PATCH-FAILED']
        # a change seeded for one property may be caught by the check of
        # a sibling property (meta.json: detected_now_by)
        rules, hit = set(), False
        for p in sorted({pid} | set(meta.get('detected_now_by', []))):
            r = subprocess.run([os.path.join(HERE, 'vcheck'), p, '--root',
                                tmp, '--no-write'], capture_output=True,
                               text=True, cwd=HERE)
            rules |= {ln.split('rule=')[1].split()[0]
                      for ln in r.stdout.splitlines()
                      if ln.startswith('FINDING')}
            hit = hit or (r.returncode == 1 and any(
                ln.startswith('VIOLATION property=' + p)
                for ln in r.stdout.splitlines()))
        if meta.get('out_of_reach'):
            # recorded as not decidable by this family (or not told from a
            # twin that is a known limit): reported, never counted -- even
            # when a check stops on it
            return meta['name'], pid, None, sorted(rules)
        return meta['name'], pid, hit, sorted(rules)
    finally:
        shutil.rmtree(tmp, ignore_errors=True)


def main():
    dirs = sorted(glob.glob(os.path.join(HERE, 'seeded', '*', '')))
    missed = skipped = 0
    with cf.ThreadPoolExecutor(max_workers=12) as ex:
        for name, pid, hit, rules in ex.map(run, dirs):
            print('%-5s %s %s %s' % (
                name, pid, 'detected' if hit else
                'not detected (recorded as out of reach)' if hit is None
                else 'MISSED', ','.join(rules)))
            missed += hit is False
            skipped += hit is None
    print('%d/%d seeded changes detected (%d more recorded as out of reach '
          'of static analysis)' % (len(dirs) - missed - skipped,
                                   len(dirs) - skipped, skipped))
    return 1 if missed else 0


if __name__ == '__main__':
    sys.exit(main())
