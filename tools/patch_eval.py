#!/usr/bin/env python3
"""Run every check against /repo + one patch (scratch copy outside /repo and
/verif, removed afterwards); print the alarms.  Usage: patch_eval.py <patch>..."""
import os
import shutil
import subprocess
import sys
import tempfile

for patch in sys.argv[1:]:
    tmp = tempfile.mkdtemp(prefix='verif_pe_')
    try:
        subprocess.run(['rsync', '-a', '--exclude', '.git', '/repo/',
                        tmp + '/'], check=True)
        r = subprocess.run(['patch', '-p1', '-s', '-d', tmp, '-i',
                            os.path.abspath(patch)], capture_output=True,
                           text=True)
        if r.returncode:
            print(patch, 'PATCH-FAILED', r.stdout[:200])
            continue
        r = subprocess.run(['/verif/vcheck', 'ALL', '--root', tmp,
                            '--no-write'], capture_output=True, text=True,
                           cwd='/verif')
        hits = [ln[:260].replace(tmp + '/', '')
                for ln in r.stdout.splitlines()
                if ln.startswith(('VIOLATION', 'FINDING', 'ANALYSIS-ERROR'))]
        print('==', patch, 'DETECTED' if any(
            h.startswith('VIOLATION') for h in hits) else 'MISSED')
        for h in hits[:6]:
            print('    ' + h)
    finally:
        shutil.rmtree(tmp, ignore_errors=True)
