#!/usr/bin/env python3
"""Generate /verif/MANIFEST.json from the table below (kept in one place so
that the manifest always matches what sa/main.py actually serves)."""
import json
import os
import sys

HERE = os.path.dirname(os.path.dirname(os.path.abspath(__file__)))
sys.path.insert(0, HERE)

BASELINE_CMD = ("cd /repo && /venv/bin/python -m pytest -ra -q "
                "-p no:cacheprovider --timeout=900 "
                "--continue-on-collection-errors")

# pid -> (technique, level text, level note, design ref)
CHECKS = {
 'C01': ('who-may-call + argument-provenance + must-pass-through (CFG '
         'dominance) + 2-bit forward dataflow on the merge helpers',
         'Static necessary conditions of forward-port inclusion: every merge '
         'into target n+1 has target n (or its queue) among its sources, the '
         'merge helpers merge both sources on every normal path, destination '
         'branches are merged into only by the publishing routines, and '
         'validation dominates publication. All paths / all call sites, not '
         'sampled histories.',
         'Assumes git merge semantics (a merge commit contains both '
         'parents). Does not decide conflicts, version ordering (C09) or '
         'concrete histories.', 'C01'),
 'C02': ('git command census (tokenised constants) + keyword-constant + '
         'argument-provenance + must-pass-through',
         'Static: destination refs are published by exactly one '
         '`git push --all --atomic`; no named (non-atomic) push can carry a '
         'destination or source ref; do_push is never enabled on a '
         'destination merge; the clone is reset before dispatch.',
         'Does not decide convergence after recovery or that the remote '
         'honours --atomic.', 'C02'),
 'C03': ('must-pass-through (dominance) + exhaustive literal dispatch + '
         'argument-provenance',
         'Static: no path moves a destination without the build gate / the '
         'queue lookup; SUCCESSFUL is the only literal any gate accepts; '
         'force_merge only from the admin job; direct merge preconditions '
         'present in is_needed.',
         'Does not decide that the merge is a fast-forward (git) nor that '
         '_recursive_lookup computes the right set (C05).', 'C03'),
 'C04': ('dependence (backward slice as a set) + sibling agreement + '
         'must-pass-through + operator table',
         'Static: every input and bypass named by the property reaches the '
         'approval decision and nothing else can waive it; bypass helpers '
         'wired to their own keys; the gate dominates queue entry and merge.',
         'Does not evaluate the arithmetic truth table.', 'C04'),
 'C06': ('argument-provenance + exhaustive dispatch by partial evaluation of '
         'the CFG + must-pass-through + registry',
         'Static and complete for the finite part: which commits are looked '
         'up under which key, ranking/reducer, outcome for each of the 5 '
         'statuses, the only early exits, gate placement, exception '
         'families.',
         'Assumes the git host reports the right build for a sha.', 'C06'),
 'C07': ('registry table + loop-iteration dominance + normalised argument '
         'expressions + who-may-write + regex first-character set',
         'Static: registry flags, refuse-before-apply in the reactor, the '
         'privileged/authored flags computed from comment author, admins and '
         'PR author, error conversion to blocking messages, single writer of '
         'option state.',
         'Does not decide the comment tokeniser on concrete texts.', 'C07'),
 'C08': ('git command census + must-pass-through + keyword-constant',
         'Static: no forced update exists; every named deletion is '
         'owner-guarded or is the tagged admin deletion; wildcard deletion '
         '(--prune) is reported (known finding F-C08-1).',
         'Does not model remote branch protection.', 'C08'),
 'C09': ('exhaustive case tables of the version comparators by partial '
         'evaluation + must-pass-through on the rejection guards + regex '
         'language of release tags',
         'PARTIAL: only the clauses visible in the shape of the code are '
         'decided -- development/x sorts after every development/x.* and a '
         'stabilization queue before its development queue (comparator '
         'case tables), ill-formed cascades are rejected (duplicate kind, '
         'stabilization without development branch, released '
         'stabilization, micro mismatch), only the destination hotfix '
         'branch enters a cascade, and which branch kind contributes the '
         'expected fix version in each case; the cascade is re-sorted '
         'after every insertion, version accumulators are max(new, old), '
         'merge paths are computed before finalize prunes the cascade.',
         'The computed target list, ignored branches and version numbers on '
         'concrete branch/tag sets are NOT decided (value of an algorithm; '
         'needs exhaustive execution).', 'C09 / section 11.7'),
 'C10': ('who-may-call + registry + must-pass-through + noreturn '
         'propagation + mutable-global census',
         'Static: one de-duplicating comment channel; repetition allowed '
         'only for the frozen set of user-requested replies; every command '
         'ends in a robot message and commands are read only after the '
         'robot\'s last message; option defaults are copied; no cross-job '
         'state besides the listed caches.',
         'Does not decide the <=2-step convergence bound.', 'C10'),
 'C11': ('must-pass-through + early-exit enumeration + registry + regex '
         'language',
         'Static: jira_checks dominates integration-branch creation; the set '
         'of bypass exits is exactly the documented one; each failure raises '
         'its own template exception; filter regexes accept exactly the '
         'documented version shapes.',
         'Does not decide version-set equality on concrete inputs.', 'C11'),
 'C12': ('must-pass-through + effect summary + registry',
         'Static: status/producer/consumer/wait/dependency gates dominate the '
         'clone and every creating effect; unhandled PRs raise silent '
         'exceptions before any comment; branch-class flags.',
         'Does not enumerate concrete histories (the gates are history '
         'independent).', 'C12'),
 'C13': ('argument-provenance + try/finally shape + who-may-call + '
         'must-pass-through',
         'Static: duplicate suppression consults only the pending queue; the '
         'worker catches Exception without re-raising and completes the job '
         'in finally; no process exit reachable from handlers; accepted '
         'requests reach put_job; a webhook handler builds no job only for '
         'the frozen list of ignored events; job equality compares class, '
         'repository and exact key.',
         'Does NOT decide thread interleavings of put_job with the worker '
         '(needs a model checker).', 'C13'),
 'C14': ('registry + decorator-order + must-pass-through + regex language '
         'inclusion',
         'Static and complete for the matrix\'s structure: auth decorator on '
         'every registered view, admin table, session writers, identity '
         'checks dominate put_job, validation dominates job construction, '
         'anchored branch grammar.',
         'Trusts Flask semantics for decorator order and View.as_view.',
         'C14'),
 'C15': ('no-effect-before + must-pass-through + keyword-constant + '
         'argument-provenance',
         'Static: the lossy-reset refusal dominates every destructive call; '
         'only force_reset passes force=True; only the PR\'s own w/ branches '
         'and their PRs are touched.',
         'Does not decide the commit classification on concrete graphs.',
         'C15'),
 'C16': ('inter-procedural taint (sources, sanitiser, sinks) + sibling '
         'agreement',
         'Static: no flow from a credential to a log / print / exception / '
         'comment / job-report sink that avoids mask_pwd, over all paths '
         'including exception chaining (`from err`, implicit context, and '
         '__context__ / __cause__ read back later) and requests.Session '
         'verbs routed to the overridden request(); mask and clone URL use '
         'the same quoting; the sanitiser masks on every path.',
         'Does not model third-party library logging.', 'C16'),
 'C17': ('who-may-write with guard dominance + sibling agreement + '
         'exhaustive dispatch + registry',
         'Static: every BUILD_STATUS_CACHE store is dominated by a check '
         'that no SUCCESSFUL entry exists for the same key/revision; cache '
         'trusted only for SUCCESSFUL; aggregation guards (emptiness, '
         'workflow_dispatch filter, ranking, precedence).',
         'Does not evaluate aggregates on concrete run lists or eviction '
         'timing.', 'C17'),
 'C18': ('regular-language decision procedure (regex AST -> NFA -> DFA; '
         'emptiness, inclusion, equivalence with witnesses)',
         'Decided over the full regular languages of the branch patterns: '
         'pairwise unambiguity in factory order, kinds, destinations, '
         'delimiter-freeness and embedding for the round trip; the '
         'cascade is listed by whole ref names (decoration language '
         'inclusion); version tuples have the arity of their kind.',
         'Alphabet restricted to ref-legal characters; trusts re._parser.',
         'C18'),
 'C19': ('must-pass-through + argument-provenance + sibling agreement',
         'Static: create-only-if-absent for integration branches and PRs; '
         'the three w/ name builders agree; robot-authored PRs and '
         'integration commits are redirected to the parent; decline/removal '
         'touch only own names.',
         'Does not decide behaviour over event orders.', 'C19'),
 'C20': ('no-effect-before + must-pass-through + argument-provenance',
         'Static: every refusal exit of the admin handlers precedes any '
         'remote effect; create/delete preconditions dominate the push / '
         'deletion; rebuild reads queued_prs before deleting and re-submits '
         'exactly that list.',
         'Does not decide queue order correctness (C05) nor cascade rules '
         '(C09).', 'C20'),
}

NOT_APPLICABLE = {
 'C05': 'value of an algorithm (longest all-green prefix on arbitrary '
        'status matrices): maximality/order of a computed list is not '
        'visible in the shape of the code; needs exhaustive execution or a '
        'solver, which is another technique family. The structural '
        'necessary conditions (SUCCESSFUL-only, validated-before-processed, '
        'force-merge wiring) are claimed under C03.',
}


def main():
    from sa.main import CLAIMED
    built = [p for p in CLAIMED
             if os.path.exists(os.path.join(HERE, 'sa', 'props',
                                            p.lower() + '.py'))]
    checks = []
    for pid in built:
        tech, text, note, ref = CHECKS[pid]
        checks.append({
            'property_id': pid,
            'quick_cmd': './vcheck %s --tier quick' % pid,
            'thorough_cmd': './vcheck %s --tier thorough' % pid,
            'evidence_file': '/verif/evidence/%s.json' % pid,
            'replay_cmd_template': './vcheck %s --replay {path}' % pid,
            'engine': 'sa',
            'level_claimed': {'category': 'other', 'text': text,
                              'design_ref': 'DESIGN.md section 5, ' + ref},
            'level_note': note,
            'technique': 'static analysis: ' + tech,
        })
    na = [{'property_id': p, 'reason': r}
          for p, r in sorted(NOT_APPLICABLE.items())]
    for pid in CLAIMED:
        if pid not in built:
            na.append({'property_id': pid,
                       'reason': 'static check designed (DESIGN.md) but not '
                                 'built yet in this commit'})
    fixes = []
    kf = os.path.join(HERE, 'known_findings.json')
    if os.path.exists(kf):
        fixes = [e['commit'] for e in json.load(open(kf)).get('fixed', [])
                 if e.get('commit')]
    man = {
        'version': 1,
        'setup_cmd': 'true',
        'hooks': {
            'guard': 'BERT_E_VERIF',
            'enable': 'none: the static checks read /repo\'s working tree; '
                      'no instrumentation is compiled in',
            'baseline_off_cmd': BASELINE_CMD,
            'source_commits': fixes,
            'add_only': True,
        },
        'engines': [{
            'name': 'sa', 'path': '/verif/sa',
            'serves_properties': built,
            'kind_free_text': 'repository-specific static analyser: ast '
            'program model, resolved callees, statement CFG with condition '
            'splitting and exception edges, set-dominance, partial '
            'evaluation, taint, regex-to-DFA language engine (stdlib only)',
        }],
        'checks': checks,
        'not_applicable': sorted(na, key=lambda d: d['property_id']),
        'notes': 'All checks are static (no import of bert_e, no git, no '
                 'pytest). exit 0 = held, 1 = VIOLATION, 2 = ANALYSIS-ERROR '
                 '(anchor missing / unfoldable constant).  Thorough tier '
                 'additionally runs the mutant/equivalent self-validation '
                 'on in-memory edits of the current tree.  Before the rules '
                 'run, the parsed tree is normalised (sa/inline.py): helpers '
                 'and literal constants that are not in the reference census '
                 'sa/baseline_funcs.txt are written back into their uses.  '
                 'Corpora kept for re-validation: seeded/ (107 confirmed '
                 'breaking changes, tools/seeded_run.py), benign/ '
                 '(behaviour-preserving refactors, tools/benign_run.py).',
    }
    with open(os.path.join(HERE, 'MANIFEST.json'), 'w') as fh:
        json.dump(man, fh, indent=1)
        fh.write('\n')
    print('MANIFEST.json: %d checks, %d not_applicable' % (len(checks),
                                                           len(na)))


if __name__ == '__main__':
    main()
