#!/usr/bin/env python3
"""Run the checks against behaviour-preserving refactors of /repo.

Usage: tools/benign_run.py [-p Cxx,Cyy] [patch.diff ...]   (default: benign/*.diff)

For each patch: copy /repo's working tree (tracked sources only) to a scratch
directory outside /repo and /verif, apply the patch, run
`./vcheck ALL --root <scratch> --no-write`, print every alarm, remove the
scratch directory.  Exit 1 if any patch raised an alarm.  A development tool:
not registered in MANIFEST.json.
"""
import concurrent.futures as cf
import glob
import os
import shutil
import subprocess
import sys
import tempfile

HERE = os.path.dirname(os.path.dirname(os.path.abspath(__file__)))
REPO = os.environ.get('VERIF_REPO', '/repo')


def run(patch, props):
    tmp = tempfile.mkdtemp(prefix='verif_benign_')
    try:
        subprocess.run(['rsync', '-a', '--exclude', '.git', '--exclude',
                        '__pycache__', REPO + '/', tmp + '/'], check=True)
        r = subprocess.run(['patch', '-p1', '-s', '-d', tmp, '-i',
                            os.path.abspath(patch)], capture_output=True,
                           text=True)
        if r.returncode:
            return patch, ['PATCH-FAILED ' + r.stdout[:200]]
        out = []
        for p in props:
            r = subprocess.run([os.path.join(HERE, 'vcheck'), p, '--root',
                                tmp, '--no-write'], capture_output=True,
                               text=True, cwd=HERE)
            for line in r.stdout.splitlines():
                if line.startswith(('VIOLATION', 'FINDING', 'ANALYSIS-ERROR')):
                    out.append(line.replace(tmp + '/', '')[:300])
            if r.returncode and not out:
                out.append('EXIT %d %s: %s' % (r.returncode, p,
                                                r.stderr[-300:]))
        return patch, out
    finally:
        shutil.rmtree(tmp, ignore_errors=True)


def main(argv):
    props = ['ALL']
    if argv and argv[0] == '-p':
        props = argv[1].split(',')
        argv = argv[2:]
    patches = argv or sorted(glob.glob(os.path.join(HERE, 'benign', '*.diff')))
    bad = 0
    with cf.ThreadPoolExecutor(max_workers=8) as ex:
        for patch, out in ex.map(lambda p: run(p, props), patches):
            print('== %s alarms=%d' % (os.path.relpath(patch, HERE),
                                       len(out)))
            for line in out:
                print('   ' + line)
            bad += bool(out)
    print('%d/%d patches raised an alarm' % (bad, len(patches)))
    return 1 if bad else 0


if __name__ == '__main__':
    sys.exit(main(sys.argv[1:]))
