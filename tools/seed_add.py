#!/usr/bin/env python3
"""Register one confirmed seeded change (later rounds): usage
  tools/seed_add.py <name> <property> <patch> <demo> <confirm-dir> <needs...>
<confirm-dir> is the output directory of tools/seed_confirm.sh (result.json:
demo on the clean tree, demo with the patch, pinned suite with the patch,
checks firing).  Writes /verif/seeded/<name>/{patch.diff,<demo>,meta.json}
in the same shape as tools/seed_meta.py."""
import json
import os
import shutil
import sys


def main():
    name, prop, patch, demo, conf = sys.argv[1:6]
    needs = ' '.join(sys.argv[6:])
    res = json.load(open(os.path.join(conf, 'result.json')))
    if res.get('demo_clean_rc') != 0 or res.get('demo_patched_rc') == 0:
        sys.exit('not confirmed: %r' % res)
    if not res.get('suite', '').startswith('76/76'):
        sys.exit('suite not confirmed: %r' % res)
    checks = open(os.path.join(conf, 'checks.txt')).read().splitlines()
    fired = sorted({ln.split('property=')[1].split()[0]
                    for ln in checks if ln.startswith('VIOLATION')})
    rules = sorted({ln.split('rule=')[1].split()[0]
                    for ln in checks if ln.startswith('FINDING')})
    dst = '/verif/seeded/%s' % name
    os.makedirs(dst, exist_ok=True)
    shutil.copy(patch, os.path.join(dst, 'patch.diff'))
    shutil.copy(demo, os.path.join(dst, os.path.basename(demo)))
    meta = {
        'name': name, 'property': prop,
        'origin': 'written by an independent sub-agent that saw only the '
                  'property record and its own worktree of /repo (ninth '
                  'round: asked for a plausible commit that needs something '
                  'specific to manifest)',
        'breaks_and_needs': needs,
        'files': {'patch': 'patch.diff',
                  'demonstration': os.path.basename(demo)},
        'confirmed_by_me': {
            'how': 'tools/seed_confirm.sh in a fresh scratch worktree of '
                   '/repo HEAD (demo on clean tree, demo with the patch) '
                   'and the pinned pytest command with the patch; '
                   'worktrees removed afterwards',
            'demo_clean_rc': res['demo_clean_rc'],
            'demo_patched_rc': res['demo_patched_rc'],
            'pinned_suite_with_patch': res['suite'],
        },
        'detected_when_first_run': bool(fired) and (
            prop in fired or bool(fired)),
        'first_run_fired': fired,
        'detected_now_by': fired,
        'rules_firing': rules,
    }
    with open(os.path.join(dst, 'meta.json'), 'w') as fh:
        json.dump(meta, fh, indent=1)
        fh.write('\n')
    print(name, prop, 'fired:', fired, rules)


if __name__ == '__main__':
    main()
