#!/bin/sh
# Usage: tools/seed_eval.sh <patch.diff> -- run every check against a scratch
# worktree of /repo with the patch applied; prints which properties fire.
set -e
patch=$(readlink -f "$1")
wt=/tmp/verif_eval_wt.$$
git -C /repo worktree add --detach -q "$wt" HEAD
trap 'git -C /repo worktree remove --force "$wt" >/dev/null 2>&1 || true' EXIT
git -C "$wt" apply "$patch"
cd /verif
./vcheck ALL --root "$wt" --no-write 2>/dev/null | grep -E "^(VIOLATION|FINDING|ANALYSIS-ERROR)" | sed "s#$wt/##g" | cut -c1-330
