#!/usr/bin/env python3
"""Apply one of the whole-tree equivalence transforms of sa/selftest.py
(alpha-rename-locals, swap-if-else, ast-roundtrip) to /repo in memory and
print what the checks of the given properties report.  Development tool.
Usage: transform_eval.py <transform> Cxx [Cyy ...]"""
import importlib
import os
import sys
sys.path.insert(0, os.path.dirname(os.path.dirname(os.path.abspath(__file__))))
from sa import selftest  # noqa: E402
from sa.program import Program, load_sources, list_templates  # noqa: E402
from sa.analysis import Analyzer  # noqa: E402
from sa.report import Report  # noqa: E402

tname, pids = sys.argv[1], sys.argv[2:]
sources = load_sources('/repo')
templates = list_templates("/repo")
msrc = selftest.apply_edit(sources, {'transform': tname})
prog = Program(msrc, templates)
an = Analyzer(prog)
for pid in pids:
    rep = Report(pid, 'quick', quiet=True)
    try:
        importlib.import_module('sa.props.%s' % pid.lower()).run(prog, an, rep)
    except Exception as err:
        print(pid, 'ERROR', repr(err)[:300])
        continue
    new, _ = rep.split_known()
    for v in new:
        print(pid, v.rule, '|', str(v.construct)[:110], '|', str(v.msg)[:260])
    for e in rep.errors:
        print(pid, 'ANALYSIS-ERROR', e[:300])
    print(pid, 'done:', len(new), 'findings')
