#!/bin/sh
# run all checks against each benign refactor patch; print any alarm
for patch in "$@"; do
  out=$(./tools/seed_eval.sh "$patch" 2>&1 | grep -v conda)
  n=$(echo "$out" | grep -c "^VIOLATION\|^ANALYSIS-ERROR")
  echo "== $patch alarms=$n"
  echo "$out" | grep "^FINDING\|^ANALYSIS-ERROR" | cut -c1-260
done
