#!/usr/bin/env python3
"""Write sa/baseline_funcs.txt: the census of module-level functions and
methods on the reference tree (run once on the pinned + repaired tree; the
file is committed and never written by a check)."""
import ast
import os
import sys

HERE = os.path.dirname(os.path.dirname(os.path.abspath(__file__)))
sys.path.insert(0, HERE)
from sa import inline  # noqa: E402
from sa.program import load_sources  # noqa: E402

root = sys.argv[1] if len(sys.argv) > 1 else '/repo'
trees = {p: ast.parse(t) for p, t in load_sources(root).items()}
names = sorted(inline.census(trees)) + sorted(inline.census_constants(trees))
with open(inline.BASELINE_FILE, 'w') as fh:
    fh.write('# census of functions on the reference tree; functions not '
             'listed here are\n# inlined into their callers before the '
             'rules run (sa/inline.py)\n')
    for n in names:
        fh.write(n + '\n')
print(len(names), 'functions and module-level literal constants')
