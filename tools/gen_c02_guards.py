#!/usr/bin/env python3
"""Print the canonical guard tables of QueueCollection._horizontal_validation
/ _vertical_validation as the rules see them on /repo (to be pasted into
sa/props/c02.py after reading).  Development tool."""
import os, pprint, sys
sys.path.insert(0, os.path.dirname(os.path.dirname(os.path.abspath(__file__))))
from sa.program import Program
from sa.analysis import Analyzer
from sa.props import c02
prog = Program.load('/repo'); an = Analyzer(prog)
for m in ('_horizontal_validation', '_vertical_validation'):
    f = prog.funcs['bert_e.workflow.gitwaterflow.branches.QueueCollection.' + m]
    print(m.upper())
    pprint.pprint([(c_, g) for c_, g, _ in c02._yield_guards(f)], width=100)
