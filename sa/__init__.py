"""Repository-specific static analysis engine for scality/bert-e.

Pure stdlib (ast, symtable-free, re._parser); decides properties from the
source text of /repo's working tree without importing or running bert_e.
"""
