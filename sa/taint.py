"""Summary-based inter-procedural taint analysis (C16).

Values carry a set of labels: '!' = derived from a credential source, or a
parameter name of the enclosing function (symbolic).  Per function a
flow-sensitive forward dataflow over the CFG computes the labels of every
local; summaries record which parameters (or '!') reach the return value,
a sink, or the payload of a raised exception.  Call sites instantiate the
callee summaries with the labels of the actual arguments; the whole thing is
iterated to a fixpoint.  The sanitiser is the repo's local `mask_pwd`.
"""
import ast

from .program import walk_local, dotted, AnalysisError
from .analysis import src
from .cfg import local_nodes

SRC = '!'
# label prefix: the secret is not in str(exception) but in the exception it
# replaced (exc.__context__ / exc.__cause__, kept even with `from None`)
CTX = 'ctx:'
# requests.Session verbs end up in Session.request(method, url, **kwargs),
# which BertESession overrides
HTTP_VERBS = ('get', 'post', 'put', 'delete', 'patch', 'head', 'options')
SESSION_REQUEST = 'bert_e.git_host.base.BertESession.request'

# ---------------------------------------------------------------- the tables
# attribute / key names whose value is a credential (each confirmed by
# reading where it is assigned)
SOURCE_ATTRS = {
    'robot_password': 'settings key: the robot password (CLI / env)',
    'jira_token': 'settings key: Jira API token',
    'github_private_key': 'settings key: GitHub App private key',
    'client_secret': 'settings key: OAuth client secret',
    'password': 'Client.password / HTTPBasicAuth.password / '
                'request.authorization.password',
    'private_key': 'github Client.private_key (JWK)',
    '_credentials': 'JiraIssue._credentials (email, token)',
    '_mask_pwd': 'lib.git.Repository._mask_pwd (the quoted password)',
    '_url': 'lib.git.Repository._url (clone URL with user:password@)',
    'git_url': 'host Repository.git_url (clone URL with credentials)',
}
SOURCE_KEYS = {'WEBHOOK_PWD', 'CLIENT_SECRET', 'GITHUB_CLIENT_SECRET',
               'BITBUCKET_CLIENT_SECRET', 'BERT_E_CLIENT_SECRET',
               'robot_password', 'jira_token', 'github_private_key',
               'client_secret', 'mask_pwd'}
SOURCE_FUNCS = {
    'bert_e.git_host.github.Client._get_jwt': 'signed JWT',
    'bert_e.git_host.github.Client._get_installation_token':
        'installation token',
    'bert_e.git_host.bitbucket.Repository.get_git_url': 'clone URL',
}
# self.headers / client.headers of the github client carries Authorization
HEADERS_OWNERS = ('bert_e.git_host.github',)
# attributes that are numbers / class objects whatever their owner holds
CLEAN_ATTRS = {'returncode': 'process exit status (int)',
               'pid': 'process id (int)',
               'status_code': 'HTTP status (int)',
               '__class__': 'class object', '__name__': 'class name',
               'code': 'numeric exception code'}
CLEAN_CALLS = {'len', 'isinstance', 'int', 'bool', 'type', 'id', 'hasattr',
               'callable', 'round', 'range', 'float', 'issubclass', 'super'}
LOG_RECEIVERS = ('LOG', 'logging', 'rlog', 'requests_log')
PARAM_SOURCES = {
    # parameters that receive a credential by contract
    ('bert_e.git_host.github.Client.__init__', 'password'),
    ('bert_e.git_host.github.Client.__init__', 'private_key'),
    ('bert_e.git_host.bitbucket.Client.__init__', 'bitbucket_password'),
    ('bert_e.lib.jira.JiraIssue.__init__', 'token'),
    ('bert_e.lib.git.Repository.__init__', 'url'),
    ('bert_e.lib.git.Repository.__init__', 'mask_pwd'),
    ('bert_e.server.auth.check_basic_auth', 'password'),
}
# library calls whose exceptions echo the command line they were given
# (CalledProcessError.cmd, TimeoutExpired.cmd).  Popen() itself raises
# OSError about the executable / cwd, not about the shell command text.
SUBPROCESS_ECHO = ('subprocess.check_output', 'subprocess.run',
                   'subprocess.call', 'subprocess.check_call')


class Finding:
    """A credential reaches a sink.  Keyed by the sink site (function, line,
    kind); `via` lists where the credential entered the flow."""

    def __init__(self, kind, origin_q, origin_line, origin_path, detail):
        self.kind = kind
        self.origin_q = origin_q
        self.line = origin_line
        self.path = origin_path
        self.detail = detail
        self.via = set()

    def key(self):
        return (self.origin_q, self.line, self.detail)

    @property
    def where(self):
        return '%s:%d' % (self.path, self.line)


class Summary:
    def __init__(self):
        self.ret = frozenset()       # labels reaching the return value
        self.raises = frozenset()    # labels in raised exception payloads
        self.sinks = {}              # param -> [(kind, where text)]

    def as_tuple(self):
        return (self.ret, self.raises,
                tuple(sorted((k, tuple(sorted(v)))
                             for k, v in self.sinks.items())))


def strips_userinfo(pattern):
    """Does re.sub(pattern, <const>, url) remove the whole `user:password@`
    of any URL?  The pattern is [anchor on ://] X+ (: X+)* @ where each X is
    a character class wide enough for anything a user name or a quoted
    password can hold (every printable character but / and @, and : when a
    literal : separates two parts)."""
    import re._parser as sp
    try:
        items = list(sp.parse(pattern))
    except Exception:
        return False
    # prefix: look-behind on ://, or the literal scheme separator
    k = 0
    while k < len(items) and (items[k][0] in (sp.AT, sp.ASSERT) or (
            items[k][0] is sp.LITERAL and chr(items[k][1]) in ':/')):
        k += 1
    body = items[k:]
    if len(body) < 2 or body[-1] != (sp.LITERAL, ord('@')):
        return False
    parts = body[:-1]
    has_colon = any(it == (sp.LITERAL, ord(':')) for it in parts)
    need = {chr(c) for c in range(33, 127)} - {'/', '@'}
    if has_colon:
        need -= {':'}
    reps = 0
    for it in parts:
        if it == (sp.LITERAL, ord(':')):
            continue
        if it[0] not in (sp.MAX_REPEAT, sp.MIN_REPEAT):
            return False
        lo, hi, sub = it[1]
        if hi != sp.MAXREPEAT or len(sub) != 1:
            return False
        op, av = sub[0]
        if op is sp.ANY:
            chars = {chr(c) for c in range(128)}
        elif op is sp.IN:
            inside, neg = set(), False
            for o2, a2 in av:
                if o2 is sp.NEGATE:
                    neg = True
                elif o2 is sp.LITERAL:
                    inside.add(chr(a2)) if a2 < 128 else None
                elif o2 is sp.RANGE:
                    inside |= {chr(c) for c in range(a2[0],
                                                     min(a2[1], 127) + 1)}
                elif o2 is sp.CATEGORY:
                    import re as _re
                    nm = str(a2).rpartition('_')[2].lower()
                    rx = {'digit': r'\d', 'space': r'\s',
                          'word': r'\w'}.get(nm)
                    if rx is None:
                        return False
                    hit = {chr(c) for c in range(128)
                           if _re.fullmatch(rx, chr(c), _re.ASCII)}
                    inside |= ({chr(c) for c in range(128)} - hit) \
                        if 'NOT' in str(a2) else hit
            chars = ({chr(c) for c in range(128)} - inside) if neg \
                else inside
        else:
            return False
        if not need <= chars:
            return False
        reps += 1
    return reps >= 1


class TaintEngine:
    def __init__(self, an):
        self.an = an
        self.prog = an.prog
        self.summ = {}
        self.findings = {}
        self.derived_attrs = {}
        self.stats = {'functions': 0, 'sinks_examined': 0, 'iterations': 0,
                      'calls_instantiated': 0}
        self.handlers = self._job_handlers()

    def _job_handlers(self):
        out = []
        for f in self.prog.all_funcs():
            for d in f.decorators:
                if isinstance(d, ast.Call):
                    q = self.prog.resolve_expr(f.module, d.func)
                    if q and q.endswith('JobDispatcher.register'):
                        out.append(f.qname)
        return out

    # ---------------------------------------------------------------- run
    def run(self, max_iter=60):
        funcs = [f for f in self.prog.all_funcs()
                 if f.module.name != 'bert_e.git_host.mock' and
                 not f.module.name.startswith('bert_e.bin') and
                 not isinstance(f.node, ast.Lambda)]
        for f in funcs:
            self.summ[f.qname] = Summary()
        self.stats['functions'] = len(funcs)
        for it in range(max_iter):
            self.stats['iterations'] = it + 1
            changed = False
            self._dirty = False
            self.findings = {}
            for f in funcs:
                old = self.summ[f.qname].as_tuple()
                self.analyse(f)
                if self.summ[f.qname].as_tuple() != old:
                    changed = True
            if not changed and not self._dirty:
                break
        else:
            raise AnalysisError('taint: no fixpoint after %d iterations' %
                                max_iter)
        return list(self.findings.values())

    def report(self, origin, detail, via):
        q, line, path = origin
        fd = Finding('leak', q, line, path, detail)
        fd = self.findings.setdefault(fd.key(), fd)
        if via:
            fd.via.add(via)

    # ----------------------------------------------------------- labels
    def callee_summaries(self, f, call):
        tg = set(self.an.call_targets(f, call))
        cal = self.prog.callee(f, call)
        if cal[0] == 'func' and cal[1].endswith('JobDispatcher.dispatch') or \
                (isinstance(call.func, ast.Attribute) and
                 call.func.attr == 'dispatch' and
                 src(call.func.value) == 'self' and f.cls is not None and
                 f.cls.name == 'BertE'):
            tg |= set(self.handlers)
        if self._is_session_verb(call) and SESSION_REQUEST in self.summ:
            tg.add(SESSION_REQUEST)
        if cal[0] == 'class':
            init = self.prog.lookup_method(self.prog.classes[cal[1]],
                                           '__init__')
            if init is not None:
                tg.add(init.qname)
        return [self.prog.funcs[t] for t in sorted(tg)
                if t in self.summ]

    @staticmethod
    def _is_session_verb(call):
        return isinstance(call.func, ast.Attribute) and \
            call.func.attr in HTTP_VERBS and \
            src(call.func.value).rpartition('.')[2] == 'session'

    def bind(self, g, call, f, state):
        """Labels of actual arguments keyed by callee parameter name."""
        if g.qname == SESSION_REQUEST and self._is_session_verb(call):
            # session.post(url, headers=h) is request('POST', url, headers=h)
            kwarg = g.node.args.kwarg.arg if g.node.args.kwarg else 'kwargs'
            out = {'method': frozenset()}
            if call.args:
                out['url'] = self.labels(f, call.args[0], state)
            rest = frozenset()
            for a_ in call.args[1:]:
                rest |= self.labels(f, a_, state)
            for k in call.keywords:
                lab = self.labels(f, k.value, state)
                if k.arg is None:
                    rest |= lab
                elif k.arg == 'url':
                    out['url'] = lab
                else:
                    out[kwarg + '::' + k.arg] = lab
            out[kwarg + '::*'] = rest
            return out
        ps = list(g.params)
        recv = None
        if g.cls is not None and ps and ps[0] in ('self', 'cls'):
            recv = ps[0]
            ps = ps[1:]
        a = g.node.args
        vararg = a.vararg.arg if a.vararg else None
        kwarg = a.kwarg.arg if a.kwarg else None
        named = [p for p in ps if p not in (vararg, kwarg)]
        out = {}
        pos = list(call.args)
        for i, arg in enumerate(pos):
            lab = self.labels(f, arg.value if isinstance(arg, ast.Starred)
                              else arg, state)
            if isinstance(arg, ast.Starred):
                for p in named[i:]:
                    out[p] = out.get(p, frozenset()) | lab
                if vararg:
                    out[vararg] = out.get(vararg, frozenset()) | lab
                continue
            if i < len(named) and not (g.node.args.kwonlyargs and
                                       named[i] in [k.arg for k in
                                                    a.kwonlyargs]):
                out[named[i]] = out.get(named[i], frozenset()) | lab
            elif vararg:
                out[vararg] = out.get(vararg, frozenset()) | lab
        explicit = {k.arg for k in call.keywords if k.arg} | \
            set(named[:len(pos)])
        for k in call.keywords:
            if k.arg is None:
                # **d forwarding: known keys go to their parameter / key,
                # the rest to every parameter not bound explicitly
                base, keys = self.dict_labels(f, k.value, state)
                for key, lab in keys.items():
                    if key in named:
                        out[key] = out.get(key, frozenset()) | lab
                    elif kwarg:
                        kk = kwarg + '::' + key
                        out[kk] = out.get(kk, frozenset()) | lab
                for p in named:
                    if p not in explicit and p not in keys:
                        out[p] = out.get(p, frozenset()) | base
                if kwarg:
                    kk = kwarg + '::*'
                    out[kk] = out.get(kk, frozenset()) | base
                continue
            lab = self.labels(f, k.value, state)
            if k.arg in named:
                out[k.arg] = out.get(k.arg, frozenset()) | lab
            elif kwarg:
                kk = kwarg + '::' + k.arg
                out[kk] = out.get(kk, frozenset()) | lab
        if recv is not None and isinstance(call.func, ast.Attribute):
            out[recv] = self.labels(f, call.func.value, state)
        return out

    def dict_labels(self, f, e, state):
        """(labels under unknown keys, {constant key: labels}) of a dict
        valued expression (a **kwargs parameter or a local dict)."""
        if isinstance(e, ast.Name):
            keys = {}
            pref = e.id + '::'
            for k, v in state.items():
                if k.startswith(pref) and not k.endswith('::*'):
                    keys[k[len(pref):]] = v
            base = state.get(e.id, frozenset()) | \
                state.get(pref + '*', frozenset())
            return base, keys
        if isinstance(e, ast.Dict):
            keys = {}
            base = frozenset()
            for k, v in zip(e.keys, e.values):
                if isinstance(k, ast.Constant) and isinstance(k.value, str):
                    keys[k.value] = self.labels(f, v, state)
                else:
                    base |= self.labels(f, v, state)
            return base, keys
        return self.labels(f, e, state), {}

    def inst(self, labels, binding):
        out = set()
        for l in labels:
            if l.startswith(CTX):
                for x in self.inst([l[len(CTX):]], binding):
                    out.add(x if x.startswith(CTX) else CTX + x)
            elif l == SRC:
                out.add(SRC)
            elif l in binding:
                out |= binding[l]
            elif '::' in l:
                # a key of **kwargs not passed explicitly: whatever the
                # caller's forwarded dictionary holds under unknown keys
                out |= binding.get(l.split('::')[0] + '::*', frozenset())
            else:
                out |= binding.get(l, frozenset())
        return frozenset(out)

    def labels(self, f, e, state):
        """Label set of expression e in function f under local state."""
        if e is None or isinstance(e, ast.Constant):
            return frozenset()
        if isinstance(e, ast.Name):
            out = state.get(e.id, frozenset())
            pref = e.id + '::'
            for k, v in state.items():
                if k.startswith(pref):
                    out |= v
            return out
        if isinstance(e, ast.Attribute):
            if e.attr in ('__context__', '__cause__'):
                inner = self.labels(f, e.value, state)
                return frozenset(
                    {l[len(CTX):] for l in inner if l.startswith(CTX)} |
                    {l for l in inner if l.startswith(CTX)})
            if e.attr in CLEAN_ATTRS:
                return frozenset()
            if e.attr in SOURCE_ATTRS or e.attr in self.derived_attrs:
                return frozenset([SRC])
            if e.attr == 'headers' and \
                    f.module.name in HEADERS_OWNERS and \
                    src(e.value) in ('self', 'self.client', 'client'):
                return frozenset([SRC])
            return self.labels(f, e.value, state)
        if isinstance(e, ast.Subscript):
            if isinstance(e.slice, ast.Constant) and \
                    e.slice.value in SOURCE_KEYS:
                return frozenset([SRC])
            # <url>.split('/')[-1]: the last path segment of a URL lies
            # after the authority part, it cannot contain the userinfo
            # (a '/' inside the password is percent-encoded by quote_plus)
            if isinstance(e.value, ast.Call) and \
                    isinstance(e.value.func, ast.Attribute) and \
                    e.value.func.attr == 'split' and e.value.args and \
                    isinstance(e.value.args[0], ast.Constant) and \
                    e.value.args[0].value == '/' and \
                    isinstance(e.slice, ast.UnaryOp) and \
                    isinstance(e.slice.op, ast.USub) and \
                    isinstance(e.slice.operand, ast.Constant) and \
                    e.slice.operand.value == 1:
                return frozenset()
            if isinstance(e.value, ast.Name) and \
                    isinstance(e.slice, ast.Constant) and \
                    isinstance(e.slice.value, str) and \
                    self.is_keyed(e.value.id, state):
                return self.key_labels(e.value.id, e.slice.value, state)
            return self.labels(f, e.value, state) | (
                self.labels(f, e.slice, state)
                if not isinstance(e.slice, ast.Slice) else frozenset())
        if isinstance(e, ast.Call):
            return self.call_labels(f, e, state)
        if isinstance(e, ast.IfExp):
            from .inline import is_replace_if_present
            if is_replace_if_present(e) and \
                    not self.call_labels(f, e.body, state):
                # `x.replace(pwd, '***') if pwd else x`: mask_pwd written
                # out (without a password there is nothing to mask)
                return frozenset()
            pol = self._secret_test(f, e.test)
            if pol is not None:
                # a decision on the secret the function masks: the arm
                # taken without a secret has nothing to hide
                live = e.body if pol else e.orelse
                return self.labels(f, live, state)
        if isinstance(e, ast.Lambda):
            return frozenset()
        if isinstance(e, (ast.ListComp, ast.SetComp, ast.GeneratorExp,
                          ast.DictComp)):
            st = dict(state)
            for g in e.generators:
                lab = self.labels(f, g.iter, st)
                for n in ast.walk(g.target):
                    if isinstance(n, ast.Name):
                        st[n.id] = lab
            parts = [e.elt] if not isinstance(e, ast.DictComp) \
                else [e.key, e.value]
            out = frozenset()
            for p_ in parts:
                out |= self.labels(f, p_, st)
            return out
        if isinstance(e, ast.Compare):
            return frozenset()       # booleans carry no secret text
        if isinstance(e, ast.BoolOp):
            out = frozenset()
            for v in e.values:
                out |= self.labels(f, v, state)
            return out
        if isinstance(e, ast.UnaryOp) and isinstance(e.op, ast.Not):
            return frozenset()
        out = frozenset()
        for ch in ast.iter_child_nodes(e):
            if isinstance(ch, ast.expr):
                out |= self.labels(f, ch, state)
            elif isinstance(ch, ast.keyword):
                out |= self.labels(f, ch.value, state)
            elif isinstance(ch, ast.FormattedValue):
                out |= self.labels(f, ch.value, state)
        return out

    def mask_secrets(self, f):
        """Source texts p of the values f masks: `<x>.replace(p, <const>)`
        or `<x>.replace(p.encode(), <const>)`."""
        cache = self.__dict__.setdefault('_mask_secrets', {})
        if f.qname in cache:
            return cache[f.qname]
        out = set()

        def enc(x):
            if isinstance(x, ast.Call) and \
                    isinstance(x.func, ast.Attribute) and \
                    x.func.attr == 'encode' and not x.args:
                return x.func.value
            return x
        for x in ast.walk(f.node):
            if isinstance(x, ast.Call) and \
                    isinstance(x.func, ast.Attribute) and \
                    x.func.attr == 'replace' and len(x.args) == 2 and \
                    isinstance(enc(x.args[1]), ast.Constant) and \
                    isinstance(enc(x.args[0]), (ast.Name, ast.Attribute)):
                out.add(src(enc(x.args[0])))
        cache[f.qname] = out
        return out

    def _secret_test(self, f, test):
        """True / False when `test` is `p` / `not p` for a value p that f
        masks (the polarity under which there is a secret); else None."""
        pol = True
        while isinstance(test, ast.UnaryOp) and isinstance(test.op, ast.Not):
            test, pol = test.operand, not pol
        if isinstance(test, (ast.Name, ast.Attribute)) and \
                src(test) in self.mask_secrets(f):
            return pol
        return None

    def masked_param(self, f):
        """The masking idiom written as a helper, mask(text, secret):
            if not secret: return text          (nothing to hide)
            return text.replace(secret, '***')  (str / bytes variants)
        Every return is the text itself under a falsy secret, or the text
        with the secret (or a value computed from it alone) replaced by a
        constant.  Returns the name of the text parameter, else None: the
        pass-through return then carries nothing the caller has to hide."""
        cache = self.__dict__.setdefault('_masked', {})
        if f.qname in cache:
            return cache[f.qname]
        cache[f.qname] = None
        rets = [r for r in walk_local(f.node, include_root=False)
                if isinstance(r, ast.Return)]
        if len(f.params) < 2 or len(rets) < 2:
            return None
        pm = {}
        for x in ast.walk(f.node):
            for ch in ast.iter_child_nodes(x):
                pm[ch] = x
        for text in f.params:
            for secret in f.params:
                if secret == text:
                    continue
                replaced = 0
                ok = True
                for r in rets:
                    v = r.value
                    if isinstance(v, ast.Name) and v.id == text:
                        n, guarded = r, False
                        while n in pm:
                            p_ = pm[n]
                            if isinstance(p_, ast.If):
                                t = p_.test
                                neg = isinstance(t, ast.UnaryOp) and \
                                    isinstance(t.op, ast.Not) and \
                                    isinstance(t.operand, ast.Name) and \
                                    t.operand.id == secret
                                pos = isinstance(t, ast.Name) and \
                                    t.id == secret
                                if (neg and n in p_.body) or \
                                        (pos and n in p_.orelse):
                                    guarded = True
                            n = p_
                        ok = ok and guarded
                    elif isinstance(v, ast.Call) and \
                            isinstance(v.func, ast.Attribute) and \
                            v.func.attr == 'replace' and \
                            isinstance(v.func.value, ast.Name) and \
                            v.func.value.id == text and len(v.args) == 2 \
                            and isinstance(v.args[1], ast.Constant) and \
                            {x.id for x in ast.walk(v.args[0])
                             if isinstance(x, ast.Name)} == {secret}:
                        replaced += 1
                    else:
                        ok = False
                stores = [x for x in ast.walk(f.node)
                          if isinstance(x, ast.Name) and
                          isinstance(x.ctx, (ast.Store, ast.Del)) and
                          x.id in (text, secret)]
                if ok and replaced and not stores:
                    cache[f.qname] = text
                    return text
        return None

    def is_keyed(self, name, state):
        return state.get(name + '::?') is not None

    def key_labels(self, name, key, state):
        k = name + '::' + key
        if k in state:
            return state[k]
        return state.get(name + '::*', frozenset())

    def call_labels(self, f, call, state):
        fn = call.func
        d = dotted(fn)
        if isinstance(fn, ast.Name):
            if fn.id == 'mask_pwd':
                return frozenset()          # the sanitiser
            if fn.id in CLEAN_CALLS:
                return frozenset()
        # <text>.replace(<secret>, <constant>): the secret substring itself
        # is replaced -- the masking idiom, whatever the helper is called
        def constant(x):
            # '***'  or  '***'.encode()
            if isinstance(x, ast.Call) and \
                    isinstance(x.func, ast.Attribute) and \
                    x.func.attr == 'encode' and not x.args:
                x = x.func.value
            return isinstance(x, ast.Constant)
        if isinstance(fn, ast.Attribute) and fn.attr == 'replace' and \
                len(call.args) == 2 and constant(call.args[1]) and \
                self.labels(f, call.args[0], state):
            return frozenset()
        if d == 're.sub' and len(call.args) >= 3 and \
                isinstance(call.args[0], ast.Constant) and \
                isinstance(call.args[0].value, str) and \
                isinstance(call.args[1], ast.Constant) and \
                strips_userinfo(call.args[0].value):
            # the user:password@ part of a URL is cut out, whatever it holds
            return frozenset()
        cal = self.prog.callee(f, call)
        if cal[0] == 'func' and cal[1] in SOURCE_FUNCS:
            return frozenset([SRC])
        if isinstance(fn, ast.Attribute) and fn.attr in (
                '_get_jwt', '_get_installation_token', 'get_git_url'):
            return frozenset([SRC])
        if isinstance(fn, ast.Attribute) and fn.attr in ('get', 'pop') and \
                call.args and isinstance(call.args[0], ast.Constant) and \
                isinstance(fn.value, ast.Name) and \
                isinstance(call.args[0].value, str) and \
                self.is_keyed(fn.value.id, state):
            out = self.key_labels(fn.value.id, call.args[0].value, state)
            for a in call.args[1:]:
                out |= self.labels(f, a, state)
            return out
        if isinstance(fn, ast.Attribute) and fn.attr == 'get' and \
                call.args and isinstance(call.args[0], ast.Constant) and \
                call.args[0].value in SOURCE_KEYS:
            return frozenset([SRC])
        if d in ('os.getenv', 'os.environ.get') and call.args and \
                isinstance(call.args[0], ast.Constant) and \
                any(x in str(call.args[0].value)
                    for x in ('SECRET', 'PWD', 'PASSWORD', 'TOKEN')):
            return frozenset([SRC])
        gs = self.callee_summaries(f, call)
        out = frozenset()
        if gs and cal[0] in ('func', 'class', 'method'):
            self.stats['calls_instantiated'] += 1
            for g in gs:
                b = self.bind(g, call, f, state)
                out |= self.inst(self.summ[g.qname].ret, b)
                if cal[0] == 'class':
                    # an object built from tainted arguments
                    pass
            if cal[0] in ('func', 'class'):
                return out
        # external / unresolved: result depends on receiver and arguments
        if isinstance(fn, ast.Attribute):
            out |= self.labels(f, fn.value, state)
        for a in call.args:
            out |= self.labels(f, a.value if isinstance(a, ast.Starred)
                               else a, state)
        for k in call.keywords:
            out |= self.labels(f, k.value, state)
        return out

    # ----------------------------------------------------------- analysis
    def analyse(self, f):
        c = self.an.cfg(f)
        summ = self.summ[f.qname]
        init = {}
        kwp = f.node.args.kwarg.arg if f.node.args.kwarg else None
        for p_ in f.params:
            init[p_] = frozenset([p_])
            if (f.qname, p_) in PARAM_SOURCES:
                init[p_] = frozenset([p_, SRC])
        if kwp:
            # key-sensitive **kwargs: kw::<key> symbolic labels, created on
            # demand for the constant keys the function reads
            init[kwp] = frozenset()
            init[kwp + '::?'] = frozenset()
            init[kwp + '::*'] = frozenset([kwp + '::*'])
            for x in walk_local(f.node, include_root=False):
                key = None
                if isinstance(x, ast.Call) and \
                        isinstance(x.func, ast.Attribute) and \
                        isinstance(x.func.value, ast.Name) and \
                        x.func.value.id == kwp and \
                        x.func.attr in ('get', 'pop', 'setdefault') and \
                        x.args and isinstance(x.args[0], ast.Constant):
                    key = x.args[0].value
                if isinstance(x, ast.Subscript) and \
                        isinstance(x.value, ast.Name) and \
                        x.value.id == kwp and \
                        isinstance(x.slice, ast.Constant):
                    key = x.slice.value
                if isinstance(key, str):
                    init[kwp + '::' + key] = frozenset([kwp + '::' + key])
        # enclosing function's locals are visible in nested functions
        if f.parent is not None:
            outer = getattr(f.parent, '_taint_union', {})
            for k, v in outer.items():
                init.setdefault(k, v)
        self._handler_labels = getattr(f, '_handler_labels', {})
        self._hl_acc = {}
        states = {c.entry: init}
        work = [c.entry]
        union = dict(init)
        order = 0
        while work:
            i = work.pop()
            st = states[i]
            n = c.nodes[i]
            out = st
            if n.kind in ('stmt', 'return', 'test', 'iter', 'with') and \
                    n.ast is not None:
                roots = [n.ast]
                if n.kind == 'iter':
                    roots = [n.ast.iter]
                elif n.kind == 'with':
                    roots = [i_.context_expr for i_ in n.ast.items]
                for r_ in roots:
                    for x in (local_nodes(r_) if isinstance(r_, ast.stmt)
                              else ast.walk(r_)):
                        if isinstance(x, ast.Call):
                            self.route_exception(
                                f, n.ast if n.kind != 'test' else x,
                                self.raise_labels_of_call(f, x, st))
            if n.kind == 'done':
                out = self.transfer(f, n.ast, st, c, n)
            elif n.kind == 'loop' and isinstance(n.ast, (ast.For,
                                                          ast.AsyncFor)):
                lab = self.labels(f, n.ast.iter, st)
                out = dict(st)
                for x in ast.walk(n.ast.target):
                    if isinstance(x, ast.Name):
                        out[x.id] = lab
            elif n.kind == 'with':
                out = dict(st)
                for item in n.ast.items:
                    lab = self.labels(f, item.context_expr, st)
                    self.visit_calls(f, item.context_expr, st, n)
                    if item.optional_vars is not None:
                        for x in ast.walk(item.optional_vars):
                            if isinstance(x, ast.Name):
                                out[x.id] = lab
            elif n.kind == 'handler':
                out = dict(st)
                hl = frozenset(l for _, l in
                               self._handler_labels.get(id(n.ast), ()))
                if n.ast.name:
                    out[n.ast.name] = hl
            elif n.kind == 'test':
                self.visit_calls(f, n.ast, st, n)
            elif n.kind == 'return' and n.ast.value is not None:
                self.visit_calls(f, n.ast.value, st, n)
                if not (isinstance(n.ast.value, ast.Name) and
                        n.ast.value.id == self.masked_param(f)):
                    summ.ret = summ.ret | self.labels(f, n.ast.value, st)
            elif n.kind == 'raise_stmt':
                self.on_raise(f, n.ast, st, summ)
            elif n.kind == 'iter':
                self.visit_calls(f, n.ast.iter, st, n)
            for k, v in out.items():
                if v:
                    union[k] = union.get(k, frozenset()) | v
            dead = set()
            if n.kind == 'test':
                pol = self._secret_test(f, n.ast)
                if pol is not None:
                    # without a secret nothing flows that has to be hidden
                    dead = set(c.branch(n, not pol))
            for s in c.succ[i]:
                if s in dead and s not in c.branch(n, pol):
                    continue
                old = states.get(s)
                if old is None:
                    states[s] = dict(out)
                    work.append(s)
                else:
                    merged = dict(old)
                    ch = False
                    for k, v in out.items():
                        nv = merged.get(k, frozenset()) | v
                        if nv != merged.get(k, frozenset()):
                            merged[k] = nv
                            ch = True
                    if ch:
                        states[s] = merged
                        work.append(s)
        f._taint_union = union
        hl = {k: frozenset(v) for k, v in self._hl_acc.items()}
        if hl != getattr(f, '_handler_labels', {}):
            f._handler_labels = hl
            self._dirty = True

    def route_exception(self, f, node, pairs):
        """Exceptions (class or None, label) raised at `node`: each goes to
        the first handler of the enclosing try statements that catches its
        class (every handler when the class is unknown), else it leaves
        the function."""
        pairs = frozenset(pairs)
        if not pairs:
            return
        pm = self._parents(f)
        n = node
        while n in pm and pairs:
            p_ = pm[n]
            if isinstance(p_, ast.Try) and any(n is b for b in p_.body):
                rest = set()
                for (cls_, lab) in pairs:
                    caught = False
                    for h in p_.handlers:
                        m = self.catches(f, h, cls_)
                        if m:
                            self._hl_acc.setdefault(id(h), set()).add(
                                (cls_, lab))
                            if m == 'yes':
                                caught = True
                                break
                    if not caught:
                        rest.add((cls_, lab))
                pairs = frozenset(rest)
            if isinstance(p_, (ast.FunctionDef, ast.AsyncFunctionDef)):
                break
            n = p_
        if pairs:
            summ = self.summ[f.qname]
            summ.raises = summ.raises | pairs

    EXT_PARENTS = {'TimeoutExpired': {'SubprocessError'},
                   'CalledProcessError': {'SubprocessError'},
                   'HTTPError': {'RequestException', 'IOError', 'OSError'},
                   'FileNotFoundError': {'OSError', 'IOError'},
                   'KeyError': {'LookupError'}, 'OSError': set(),
                   'ValueError': set(), 'TypeError': set(),
                   'AttributeError': set()}

    def catches(self, f, handler, cls_):
        """'yes' (certainly), 'maybe', or '' (certainly not)."""
        if handler.type is None:
            return 'yes'
        ts = handler.type.elts if isinstance(handler.type, ast.Tuple) \
            else [handler.type]
        res = ''
        for t in ts:
            d = dotted(t) or ''
            tail = d.rpartition('.')[2]
            if tail in ('Exception', 'BaseException'):
                return 'yes'
            if cls_ is None:
                res = 'maybe'
                continue
            q = self.prog.resolve_expr(f.module, t, f)
            if cls_ in self.prog.classes:
                if q and self.prog.is_subclass(cls_, q):
                    return 'yes'
                if q is None and self.prog.is_subclass(cls_, tail):
                    return 'yes'
                continue
            ctail = cls_.rpartition('.')[2]
            if ctail == tail or tail in self.EXT_PARENTS.get(ctail, ()):
                return 'yes'
            if ctail not in self.EXT_PARENTS and q not in self.prog.classes:
                res = 'maybe'
        return res

    def _parents(self, f):
        pm = getattr(f, '_pm', None)
        if pm is None:
            pm = {}
            for n in ast.walk(f.node):
                for ch in ast.iter_child_nodes(n):
                    pm[ch] = n
            f._pm = pm
        return pm

    def handler_labels_at(self, f, node):
        """Labels of the exception being handled where `node` stands (the
        innermost enclosing except block), else empty."""
        pm = self._parents(f)
        n = node
        while n in pm:
            n = pm[n]
            if isinstance(n, ast.ExceptHandler):
                return getattr(f, '_handler_labels', {}).get(id(n),
                                                             frozenset())
            if isinstance(n, (ast.FunctionDef, ast.AsyncFunctionDef)):
                break
        return frozenset()

    def _caught(self, f, call):
        """Is the call lexically inside a try body with a catch-all
        handler?"""
        pm = self._parents(f)
        n = call
        while n in pm:
            p_ = pm[n]
            if isinstance(p_, ast.Try) and n in p_.body:
                for h in p_.handlers:
                    names = []
                    if h.type is None:
                        return True
                    ts = h.type.elts if isinstance(h.type, ast.Tuple) \
                        else [h.type]
                    for t in ts:
                        names.append((dotted(t) or '').rpartition('.')[2])
                    if 'Exception' in names or 'BaseException' in names:
                        return True
            if isinstance(p_, (ast.FunctionDef, ast.AsyncFunctionDef)):
                break
            n = p_
        return False

    def raise_labels_of_call(self, f, call, state):
        """(class, label) pairs of the exceptions this call may raise."""
        cal = self.prog.callee(f, call)
        out = set()
        if cal[0] == 'ext' and cal[1] in SUBPROCESS_ECHO:
            # CalledProcessError / TimeoutExpired carry the command line
            for a in call.args[:1]:
                for l in self.labels(f, a, state):
                    out.add(('subprocess.CalledProcessError', l))
                    out.add(('subprocess.TimeoutExpired', l))
        if isinstance(call.func, ast.Attribute) and \
                call.func.attr in ('communicate', 'wait') and (
                    call.args or any(k.arg == 'timeout'
                                     for k in call.keywords)):
            # TimeoutExpired (only possible with a timeout) carries the
            # args the process was started with
            for l in self.labels(f, call.func.value, state):
                out.add(('subprocess.TimeoutExpired', l))
                # decoding / OS errors while reading the process output
                out.add(('OSError', l))
        for g in self.callee_summaries(f, call):
            r = self.summ[g.qname].raises
            if r:
                b = self.bind(g, call, f, state)
                for (cls_, l) in r:
                    for l2 in self.inst(frozenset([l]), b):
                        out.add((cls_, l2))
        return out

    def transfer(self, f, st, state, c, node):
        self.visit_calls(f, st, state, node)
        out = state
        if isinstance(st, ast.Assign):
            lab = self.labels(f, st.value, state)
            out = dict(state)
            for t in st.targets:
                self.assign(f, t, st.value, lab, out, state, node)
        elif isinstance(st, ast.AugAssign):
            lab = self.labels(f, st.value, state)
            out = dict(state)
            if isinstance(st.target, ast.Name):
                out[st.target.id] = out.get(st.target.id, frozenset()) | lab
            else:
                self.assign(f, st.target, st.value, lab, out, state, node)
        elif isinstance(st, ast.AnnAssign) and st.value is not None:
            lab = self.labels(f, st.value, state)
            out = dict(state)
            self.assign(f, st.target, st.value, lab, out, state, node)
        elif isinstance(st, ast.Expr) and isinstance(st.value, ast.Call):
            call = st.value
            if isinstance(call.func, ast.Attribute) and \
                    isinstance(call.func.value, ast.Name) and \
                    self.is_keyed(call.func.value.id, state) and \
                    call.func.attr in ('setdefault', 'update'):
                v = call.func.value.id
                out = dict(state)
                if call.func.attr == 'setdefault' and len(call.args) == 2 \
                        and isinstance(call.args[0], ast.Constant):
                    k = v + '::' + str(call.args[0].value)
                    out[k] = self.key_labels(v, str(call.args[0].value),
                                             state) | \
                        self.labels(f, call.args[1], state)
                    return out
                if call.func.attr == 'update' and call.args:
                    base, keys = self.dict_labels(f, call.args[0], state)
                    for kk, lab in keys.items():
                        out[v + '::' + kk] = lab
                    if base:
                        out[v + '::*'] = out.get(v + '::*',
                                                 frozenset()) | base
                    for kw_ in call.keywords:
                        if kw_.arg:
                            out[v + '::' + kw_.arg] = self.labels(
                                f, kw_.value, state)
                    return out
            if isinstance(call.func, ast.Attribute) and \
                    isinstance(call.func.value, ast.Name) and \
                    call.func.attr in ('append', 'add', 'update', 'extend',
                                       'insert', 'setdefault', 'appendleft'):
                lab = frozenset()
                for a in call.args:
                    lab |= self.labels(f, a, state)
                for k in call.keywords:
                    lab |= self.labels(f, k.value, state)
                if lab:
                    out = dict(state)
                    v = call.func.value.id
                    out[v] = out.get(v, frozenset()) | lab
        return out

    def assign(self, f, target, value, lab, out, state, node):
        if isinstance(target, ast.Name):
            out[target.id] = lab
        elif isinstance(target, (ast.Tuple, ast.List)):
            if isinstance(value, (ast.Tuple, ast.List)) and \
                    len(value.elts) == len(target.elts):
                for t, v in zip(target.elts, value.elts):
                    self.assign(f, t, v, self.labels(f, v, state), out,
                                state, node)
            else:
                for t in target.elts:
                    self.assign(f, t.value if isinstance(t, ast.Starred)
                                else t, value, lab, out, state, node)
        elif isinstance(target, ast.Subscript):
            if isinstance(target.value, ast.Name) and \
                    isinstance(target.slice, ast.Constant) and \
                    isinstance(target.slice.value, str) and \
                    self.is_keyed(target.value.id, state):
                out[target.value.id + '::' + target.slice.value] = lab
            elif isinstance(target.value, ast.Name) and lab:
                v = target.value.id
                out[v] = out.get(v, frozenset()) | lab
            self.store_sink(f, target, lab, node)
        elif isinstance(target, ast.Attribute):
            if SRC in lab and target.attr not in SOURCE_ATTRS and \
                    isinstance(target.value, ast.Name) and \
                    target.value.id == 'self':
                if target.attr not in self.derived_attrs and \
                        target.attr not in ('session', 'headers', 'auth',
                                            'client', '_jira'):
                    self.derived_attrs[target.attr] = f.where(target)
                    self._dirty = True
            self.store_sink(f, target, lab, node)

    def store_sink(self, f, target, lab, node):
        """job.status / job.details are published on the status page."""
        if isinstance(target, ast.Attribute) and \
                target.attr in ('status', 'details') and \
                src(target.value).endswith('job'):
            self.sink(f, target, lab, 'job.%s (status page / API)' %
                      target.attr)

    def sink(self, f, node, lab, what, origin=None):
        self.stats['sinks_examined'] += 1
        lab = frozenset(l for l in lab if not l.startswith(CTX))
        here = (f.qname, getattr(node, 'lineno', f.lineno), f.path)
        if SRC in lab:
            self.report(origin or here, what,
                        None if origin is None else '%s (%s)' % (
                            f.qname, f.where(node)))
        summ = self.summ[f.qname]
        for l in lab:
            if l != SRC:
                summ.sinks.setdefault(l, set()).add((what, origin or here))

    def visit_calls(self, f, root, state, node):
        for x in local_nodes(root) if isinstance(root, ast.stmt) \
                else ast.walk(root):
            if isinstance(x, (ast.FunctionDef, ast.Lambda)):
                continue
            if isinstance(x, ast.Call):
                self.on_call(f, x, state)

    def on_call(self, f, call, state):
        fn = call.func
        d = dotted(fn) or ''
        head = d.split('.')[0]
        args = [a.value if isinstance(a, ast.Starred) else a
                for a in call.args] + [k.value for k in call.keywords]
        # K1 print
        if d == 'print':
            for a in args:
                self.sink(f, call, self.labels(f, a, state),
                          'print() to standard output')
            return
        # K2 loggers
        if isinstance(fn, ast.Attribute) and fn.attr in (
                'debug', 'info', 'warning', 'error', 'critical',
                'exception', 'log', 'warn') and (
                head in LOG_RECEIVERS or d.startswith('self._log') or
                d.endswith('_log.' + fn.attr) or 'log' in head.lower()):
            for a in args:
                self.sink(f, call, self.labels(f, a, state),
                          'log record (%s)' % d)
            if fn.attr == 'exception':
                self.sink(f, call, frozenset(
                    l for _, l in self.handler_labels_at(f, call)),
                    'log record with traceback chain (%s)' % d)
            return
        # K5 comments / templates
        if isinstance(fn, ast.Attribute) and fn.attr in (
                'add_comment', 'set_bot_status'):
            for a in args:
                self.sink(f, call, self.labels(f, a, state),
                          'pull request comment / status')
        cal = self.prog.callee(f, call)
        if cal[0] in ('func', 'ext') and cal[1].rpartition('.')[2] in (
                'render', 'render_template', 'render_template_string',
                'jsonify', 'Response', 'make_response'):
            for a in args:
                self.sink(f, call, self.labels(f, a, state),
                          'rendered output (%s)' % cal[1])
        # K3 exception construction anywhere (not only in raise)
        if cal[0] in ('class', 'ext') and self._is_exception(cal[1]):
            for a in args:
                self.sink(f, call, self.labels(f, a, state),
                          'exception message (%s)' %
                          cal[1].rpartition('.')[2])
        # instantiate callee sink summaries
        for g in self.callee_summaries(f, call):
            sk = self.summ[g.qname].sinks
            if not sk:
                continue
            b = self.bind(g, call, f, state)
            for p_, whats in list(sk.items()):     # (g may be f itself)
                lab = self.inst(frozenset([p_]), b)
                if not lab:
                    continue
                for w, origin in sorted(whats):
                    self.sink(f, call, lab, w, origin=origin)

    def _is_exception(self, q):
        if q in self.prog.classes:
            k = self.prog.classes[q]
            for b in self.prog.mro(k):
                if any(x.rpartition('.')[2] in ('Exception', 'BaseException')
                       or x.endswith('Error') for x in b.base_qnames):
                    return True
            return False
        tail = q.rpartition('.')[2]
        return tail.endswith('Error') or tail.endswith('Exception')

    def on_raise(self, f, st, state, summ):
        self.visit_calls(f, st, state, None)
        hpairs = self.handler_labels_at(f, st)
        hl = frozenset(l for _, l in hpairs)
        pairs = set()
        cause_none = isinstance(st.cause, ast.Constant) and \
            st.cause.value is None
        if st.exc is None:
            pairs |= set(hpairs)   # bare raise: the handled exception
        else:
            cls_ = None
            e = st.exc
            if isinstance(e, ast.Call):
                cal = self.prog.callee(f, e)
                if cal[0] in ('class', 'ext'):
                    cls_ = cal[1]
            elif isinstance(e, ast.Name):
                q = self.prog.resolve_dotted(f.module, e.id, f)
                if q in self.prog.classes:
                    cls_ = q
            payload = self.labels(f, e, state)
            if isinstance(e, ast.Call):
                for a in e.args:
                    payload |= self.labels(f, a, state)
            if isinstance(e, ast.Name) and cls_ is None:
                # re-raising a stored exception object (`raise err`)
                pairs |= {(c_, l) for (c_, l) in hpairs if l in payload}
                payload = frozenset(l for l in payload
                                    if l not in {x for _, x in pairs})
            if st.cause is not None and not cause_none:
                cl = self.labels(f, st.cause, state)
                self.sink(f, st, cl, 'exception chain (raise ... from %s: '
                          'the cause is printed with every traceback)' %
                          src(st.cause))
                payload |= cl
            elif not cause_none and hl:
                # implicit __context__ of a raise inside an except block
                self.sink(f, st, hl, 'implicit exception context (raise '
                          'inside except without "from None")')
                payload |= hl
            pairs |= {(cls_, l) for l in payload}
            # the exception being handled stays reachable from the new one
            # (__context__), whatever the `from` clause says
            pairs |= {(cls_, l if l.startswith(CTX) else CTX + l)
                      for l in hl}
        self.route_exception(f, st, pairs)
