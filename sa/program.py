"""Program model: modules, imports, classes (with MRO), functions, callee
resolution.  Built from a source map {relative path: text}; never imports
the analysed code."""
import ast
import os
import sys

MODULE_FLOOR = 67  # non-test modules under bert_e/ measured on the pinned tree


class AnalysisError(Exception):
    """The analysis itself cannot proceed (missing anchor, parse failure,
    unfoldable constant...).  Mapped to exit status 2, never to a verdict."""


def load_sources(root='/repo'):
    """Return {relpath: text} for every non-test module of the package."""
    out = {}
    base = os.path.join(root, 'bert_e')
    for dirpath, dirnames, filenames in os.walk(base):
        rel = os.path.relpath(dirpath, root)
        parts = rel.split(os.sep)
        if 'tests' in parts:
            dirnames[:] = []
            continue
        dirnames[:] = sorted(d for d in dirnames
                             if d not in ('__pycache__', 'tests'))
        for fn in sorted(filenames):
            if fn.endswith('.py'):
                p = os.path.join(dirpath, fn)
                with open(p, encoding='utf-8') as fh:
                    out[os.path.relpath(p, root)] = fh.read()
    return out


def list_templates(root='/repo'):
    """{file name: text} of bert_e/templates (comment templates are part of
    the analysed program: writer/reader agreement rules read them)."""
    d = os.path.join(root, 'bert_e', 'templates')
    out = {}
    try:
        names = sorted(os.listdir(d))
    except OSError:
        return out
    for n in names:
        p = os.path.join(d, n)
        if os.path.isfile(p):
            try:
                with open(p, encoding='utf-8') as fh:
                    out[n] = fh.read()
            except (OSError, UnicodeDecodeError):
                out[n] = ''
    return out


def modname_of(path):
    p = path[:-3] if path.endswith('.py') else path
    parts = p.split('/')
    if parts[-1] == '__init__':
        parts = parts[:-1]
    return '.'.join(parts)


class FuncInfo:
    def __init__(self, qname, node, module, cls=None, parent=None):
        self.qname = qname
        self.name = getattr(node, 'name', '<lambda>')
        self.node = node
        self.module = module
        self.cls = cls
        self.parent = parent
        self.nested = {}
        self.prog = None

    @property
    def path(self):
        return self.module.path

    @property
    def lineno(self):
        return self.node.lineno

    @property
    def decorators(self):
        return getattr(self.node, 'decorator_list', [])

    @property
    def params(self):
        a = self.node.args
        return [x.arg for x in a.posonlyargs + a.args] + \
            ([a.vararg.arg] if a.vararg else []) + \
            [x.arg for x in a.kwonlyargs] + \
            ([a.kwarg.arg] if a.kwarg else [])

    def where(self, node=None):
        ln = getattr(node, 'lineno', None) or self.lineno
        return '%s:%d' % (self.path, ln)

    def __repr__(self):
        return '<func %s>' % self.qname


class ClassInfo:
    def __init__(self, qname, node, module):
        self.qname = qname
        self.name = node.name
        self.node = node
        self.module = module
        self.methods = {}
        self.attrs = {}      # name -> value expr (class body assignments)
        self.base_qnames = []

    @property
    def path(self):
        return self.module.path

    def where(self, node=None):
        ln = getattr(node, 'lineno', None) or self.node.lineno
        return '%s:%d' % (self.path, ln)

    def __repr__(self):
        return '<class %s>' % self.qname


class Module:
    def __init__(self, path, text):
        self.path = path
        self.name = modname_of(path)
        self.text = text
        try:
            self.tree = ast.parse(text, filename=path)
        except (SyntaxError, ValueError) as err:
            raise AnalysisError('parse-failure %s: %s' % (path, err))
        self.is_pkg = path.endswith('__init__.py')
        self.imports = {}
        self.consts = {}
        self.funcs = {}
        self.classes = {}

    def pkg(self):
        return self.name if self.is_pkg else self.name.rpartition('.')[0]


def dotted(node):
    """'a.b.c' for Name/Attribute chains, else None."""
    parts = []
    while isinstance(node, ast.Attribute):
        parts.append(node.attr)
        node = node.value
    if isinstance(node, ast.Name):
        parts.append(node.id)
        return '.'.join(reversed(parts))
    return None


def walk_local(node, include_root=True):
    """Walk an AST without descending into nested function / class / lambda
    definitions (their bodies are separate analysis units)."""
    stack = [node]
    first = True
    while stack:
        n = stack.pop()
        if not first and isinstance(n, (ast.FunctionDef, ast.AsyncFunctionDef,
                                        ast.ClassDef, ast.Lambda)):
            yield n  # the definition itself, not its body
            continue
        if first:
            first = False
            if include_root:
                yield n
        else:
            yield n
        stack.extend(reversed(list(ast.iter_child_nodes(n))))


class Program:
    def __init__(self, sources, templates=None, normalise=True):
        self.sources = sources
        self.templates = templates if templates is not None else {}
        self.modules = {}
        self.by_name = {}
        self.funcs = {}
        self.classes = {}
        self._mro = {}
        for path in sorted(sources):
            m = Module(path, sources[path])
            self.modules[path] = m
            self.by_name[m.name] = m
        # helpers that are not part of the reference census are inlined
        # into their callers, so that the rules see through an extracted
        # (or newly added) private function: sa/inline.py
        self.inlined = []
        if normalise:
            from . import inline
            self.inlined = inline.normalise(
                {p: m.tree for p, m in self.modules.items()})
        for m in self.modules.values():
            self._index_module(m)
        for c in self.classes.values():
            c.base_qnames = [self.resolve_expr(c.module, b) or
                             dotted(b) or '?' for b in c.node.bases]

    @classmethod
    def load(cls, root='/repo'):
        src = load_sources(root)
        if len(src) < MODULE_FLOOR:
            raise AnalysisError(
                'module-count %d below floor %d (root %s)' %
                (len(src), MODULE_FLOOR, root))
        return cls(src, list_templates(root))

    # ---------------------------------------------------------------- index
    def _index_module(self, m):
        for st in m.tree.body:
            self._index_stmt(m, st)
        # imports anywhere at module level incl. inside try/if
        for node in walk_local(m.tree):
            if isinstance(node, ast.Import):
                for a in node.names:
                    if a.asname:
                        m.imports[a.asname] = a.name
                    else:
                        m.imports[a.name.split('.')[0]] = a.name.split('.')[0]
            elif isinstance(node, ast.ImportFrom):
                base = self._import_base(m, node)
                for a in node.names:
                    m.imports[a.asname or a.name] = \
                        (base + '.' + a.name) if base else a.name

    def _import_base(self, m, node):
        if node.level == 0:
            return node.module or ''
        pkg = m.pkg().split('.')
        up = node.level - 1
        if up:
            pkg = pkg[:-up]
        base = '.'.join(pkg)
        if node.module:
            base = base + '.' + node.module if base else node.module
        return base

    def _index_stmt(self, m, st):
        if isinstance(st, (ast.FunctionDef, ast.AsyncFunctionDef)):
            self._index_func(m, st, m.name + '.' + st.name, None, None,
                             m.funcs)
        elif isinstance(st, ast.ClassDef):
            self._index_class(m, st)
        elif isinstance(st, ast.Assign):
            for t in st.targets:
                if isinstance(t, ast.Name):
                    m.consts[t.id] = st.value
        elif isinstance(st, ast.AnnAssign) and st.value is not None and \
                isinstance(st.target, ast.Name):
            m.consts[st.target.id] = st.value
        elif isinstance(st, (ast.If, ast.Try)):
            for sub in ast.iter_child_nodes(st):
                if isinstance(sub, ast.stmt):
                    self._index_stmt(m, sub)

    def _index_func(self, m, node, qname, cls, parent, table):
        f = FuncInfo(qname, node, m, cls, parent)
        f.prog = self
        table[node.name] = f
        self.funcs[qname] = f
        for sub in walk_local(node, include_root=False):
            if isinstance(sub, (ast.FunctionDef, ast.AsyncFunctionDef)):
                self._index_func(m, sub, qname + '.<locals>.' + sub.name,
                                 cls, f, f.nested)
        return f

    def _index_class(self, m, node):
        c = ClassInfo(m.name + '.' + node.name, node, m)
        # later definitions shadow earlier ones (CreateBranchForm is
        # defined twice in server/api/gwf/branches.py); keep both reachable
        if node.name in m.classes:
            m.classes.setdefault('__shadowed__', [])
            m.classes['__shadowed__'].append(m.classes[node.name])
        m.classes[node.name] = c
        self.classes[c.qname] = c
        for st in node.body:
            if isinstance(st, (ast.FunctionDef, ast.AsyncFunctionDef)):
                self._index_func(m, st, c.qname + '.' + st.name, c, None,
                                 c.methods)
            elif isinstance(st, ast.Assign):
                for t in st.targets:
                    if isinstance(t, ast.Name):
                        c.attrs[t.id] = st.value
            elif isinstance(st, ast.AnnAssign) and st.value is not None and \
                    isinstance(st.target, ast.Name):
                c.attrs[st.target.id] = st.value

    # ------------------------------------------------------------- resolve
    def canonical(self, q, depth=0):
        """Follow re-exports: 'pkg.name' where pkg imports name."""
        if q is None or depth > 6:
            return q
        if q in self.funcs or q in self.classes or q in self.by_name:
            return q
        head, _, tail = q.rpartition('.')
        if not head:
            return q
        # maybe head itself needs canonicalising (module alias chains)
        chead = self.canonical(head, depth + 1)
        if chead in self.by_name:
            mod = self.by_name[chead]
            if tail in mod.imports:
                return self.canonical(mod.imports[tail], depth + 1)
            return chead + '.' + tail
        if chead in self.classes:
            return chead + '.' + tail
        if chead != head:
            return chead + '.' + tail
        return q

    def resolve_dotted(self, m, name, func=None):
        """Qualified name for a dotted source name seen in module m (inside
        function func), or None if its head is a local/unknown binding."""
        if name is None:
            return None
        head, _, rest = name.partition('.')
        q = None
        f = func
        while f is not None:
            if head in f.nested:
                q = f.nested[head].qname
                break
            li = self.local_imports(f)
            if head in li:
                q = li[head]
                break
            if head in f.params or head in assigned_names(f):
                return None
            f = f.parent
        if q is None:
            if head in m.funcs:
                q = m.funcs[head].qname
            elif head in m.classes and head != '__shadowed__':
                q = m.classes[head].qname
            elif head in m.imports:
                q = m.imports[head]
            elif head in m.consts:
                q = m.name + '.' + head
            else:
                return None
        if rest:
            q = q + '.' + rest
        return self.canonical(q)

    def local_imports(self, f):
        """Imports executed inside function f: local name -> target."""
        li = getattr(f, '_local_imports', None)
        if li is not None:
            return li
        li = {}
        for node in walk_local(f.node, include_root=False):
            if isinstance(node, ast.Import):
                for a in node.names:
                    if a.asname:
                        li[a.asname] = a.name
                    else:
                        li[a.name.split('.')[0]] = a.name.split('.')[0]
            elif isinstance(node, ast.ImportFrom):
                base = self._import_base(f.module, node)
                for a in node.names:
                    li[a.asname or a.name] = \
                        (base + '.' + a.name) if base else a.name
        f._local_imports = li
        return li

    def resolve_expr(self, m, expr, func=None):
        return self.resolve_dotted(m, dotted(expr), func)

    # --------------------------------------------------------------- classes
    def mro(self, c):
        if c.qname in self._mro:
            return self._mro[c.qname]
        self._mro[c.qname] = [c]  # cycle guard
        seqs = []
        for bq in c.base_qnames:
            b = self.classes.get(bq)
            if b is not None:
                seqs.append(list(self.mro(b)))
        seqs.append([self.classes[bq] for bq in c.base_qnames
                     if bq in self.classes])
        res = [c]
        seqs = [s for s in seqs if s]
        while seqs:
            for s in seqs:
                cand = s[0]
                if not any(cand in t[1:] for t in seqs):
                    break
            else:
                cand = seqs[0][0]
            res.append(cand)
            seqs = [[x for x in s if x is not cand] for s in seqs]
            seqs = [s for s in seqs if s]
        self._mro[c.qname] = res
        return res

    def is_subclass(self, c, ancestor_qname):
        """True if class c (ClassInfo or qname) derives from ancestor (also
        matches external base names such as 'Exception')."""
        if isinstance(c, str):
            ci = self.classes.get(c)
            if ci is None:
                return c == ancestor_qname
            c = ci
        for k in self.mro(c):
            if k.qname == ancestor_qname:
                return True
            if ancestor_qname in k.base_qnames:
                return True
        return False

    def subclasses(self, ancestor_qname, strict=False):
        out = []
        for c in self.classes.values():
            if self.is_subclass(c, ancestor_qname):
                if strict and c.qname == ancestor_qname:
                    continue
                out.append(c)
        return sorted(out, key=lambda c: (c.path, c.node.lineno))

    def class_attr(self, c, name):
        """(value expr, owner ClassInfo) through the MRO, or (None, None)."""
        for k in self.mro(c):
            if name in k.attrs:
                return k.attrs[name], k
        return None, None

    def lookup_method(self, c, name):
        for k in self.mro(c):
            if name in k.methods:
                return k.methods[name]
        return None

    def methods_named(self, name):
        return [c.methods[name] for c in self.classes.values()
                if name in c.methods]

    # --------------------------------------------------------------- anchors
    def func(self, qname, required=True):
        f = self.funcs.get(qname)
        if f is not None:
            return f
        simple = qname.rpartition('.')[2]
        owner = qname.rpartition('.')[0].rpartition('.')[2]
        cands = [g for g in self.funcs.values() if g.name == simple and
                 g.parent is None]
        if len(cands) > 1:
            cands2 = [g for g in cands
                      if (g.cls.name if g.cls else
                          g.module.name.rpartition('.')[2]) == owner]
            if cands2:
                cands = cands2
        if len(cands) == 1:
            return cands[0]
        if required:
            raise AnalysisError('anchor-missing function %s' % qname)
        return None

    def cls(self, qname, required=True):
        c = self.classes.get(qname)
        if c is not None:
            return c
        simple = qname.rpartition('.')[2]
        cands = [k for k in self.classes.values() if k.name == simple]
        if len(cands) == 1:
            return cands[0]
        if required:
            raise AnalysisError('anchor-missing class %s' % qname)
        return None

    def module(self, path):
        m = self.modules.get(path)
        if m is None:
            raise AnalysisError('anchor-missing module %s' % path)
        return m

    def all_funcs(self):
        return sorted(self.funcs.values(), key=lambda f: (f.path, f.lineno))

    # ------------------------------------------------------------ call sites
    def callee(self, func, call):
        """Describe the callee of an ast.Call inside func.

        Returns a tuple:
          ('func', qname)      internal function / method resolved exactly
          ('class', qname)     constructor of an internal class
          ('ext', dotted)      external (library / builtin) name
          ('method', attr, receiver_expr)   attribute call on a value
          ('dyn', None)        anything else
        """
        fn = call.func
        m = func.module if isinstance(func, FuncInfo) else func
        fi = func if isinstance(func, FuncInfo) else None
        if isinstance(fn, ast.Name):
            q = self.resolve_dotted(m, fn.id, fi)
            if q is None:
                f2 = fi
                while f2 is not None:
                    if fn.id in f2.params or fn.id in assigned_names(f2):
                        return ('dyn', fn.id)
                    f2 = f2.parent
                return ('ext', fn.id)
            if q in self.funcs:
                return ('func', q)
            if q in self.classes:
                return ('class', q)
            return ('ext', q)
        if isinstance(fn, ast.Attribute):
            d = dotted(fn)
            if d is not None:
                head = d.split('.')[0]
                if fi is not None and fi.cls is not None and \
                        head in ('self', 'cls') and d.count('.') == 1:
                    meth = self.lookup_method(fi.cls, fn.attr)
                    if meth is not None:
                        return ('func', meth.qname)
                    return ('method', fn.attr, fn.value)
                q = self.resolve_dotted(m, d, fi)
                if q is not None:
                    if q in self.funcs:
                        return ('func', q)
                    if q in self.classes:
                        return ('class', q)
                    # Class.method through MRO
                    h, _, t = q.rpartition('.')
                    if h in self.classes:
                        meth = self.lookup_method(self.classes[h], t)
                        if meth is not None:
                            return ('func', meth.qname)
                        return ('method', t, fn.value)
                    # module-level constant object (LOG.debug, cache.X.get)
                    hh = h
                    while hh:
                        if hh in self.by_name or hh in self.classes:
                            break
                        hh2 = hh.rpartition('.')[0]
                        if hh2 in self.by_name and \
                                hh.rpartition('.')[2] in \
                                self.by_name[hh2].consts:
                            return ('method', fn.attr, fn.value)
                        hh = hh2
                    return ('ext', q)
            # super().m(...)
            if isinstance(fn.value, ast.Call) and \
                    isinstance(fn.value.func, ast.Name) and \
                    fn.value.func.id == 'super' and fi is not None and \
                    fi.cls is not None:
                for k in self.mro(fi.cls)[1:]:
                    if fn.attr in k.methods:
                        return ('func', k.methods[fn.attr].qname)
                return ('ext', 'super.' + fn.attr)
            return ('method', fn.attr, fn.value)
        return ('dyn', None)

    def calls_in(self, func):
        """All ast.Call nodes in func's own body (not nested defs)."""
        return [n for n in walk_local(func.node, include_root=False)
                if isinstance(n, ast.Call)]


def assigned_names(f):
    """Names bound inside function f (assignment, for, with, except, import;
    comprehension targets included, which is conservative)."""
    cached = getattr(f, '_assigned', None)
    if cached is not None:
        return cached
    names = set()
    for n in walk_local(f.node, include_root=False):
        if isinstance(n, ast.Name) and isinstance(n.ctx, (ast.Store,
                                                          ast.Del)):
            names.add(n.id)
        elif isinstance(n, ast.ExceptHandler) and n.name:
            names.add(n.name)
        elif isinstance(n, (ast.Import, ast.ImportFrom)):
            for a in n.names:
                names.add((a.asname or a.name).split('.')[0])
    f._assigned = names
    return names
