"""Decision procedures on the regular languages defined by the repository's
own regular expressions: re._parser AST -> Thompson NFA -> complete DFA over
a finite representative alphabet; product, complement, emptiness with a
shortest witness, inclusion, equivalence.

Alphabet: every printable ASCII character that git accepts inside a ref name
(no space, control characters, ~ ^ : ? * [ backslash), plus three
representatives of the non-ASCII classes Python's `re` distinguishes for str
patterns: a non-ASCII letter (matches \\w, not [a-z]), a non-ASCII digit
(matches \\d and \\w, not [0-9]) and a non-word symbol.  Newline is not in the
alphabet, hence `$` means end of string.  Unsupported constructs
(look-around, back-references, anchors in the middle, conditionals other
than the guarded `(?P<k>K)?(?(k)Y|N)` shape) raise AnalysisError.
"""
import re
from collections import deque

from .program import AnalysisError

try:  # Python >= 3.11
    import re._parser as sre_parse
    import re._constants as sre_c
except ImportError:  # pragma: no cover
    import sre_parse
    import sre_constants as sre_c

REF_ILLEGAL = set(' ~^:?*[\\') | {chr(i) for i in range(32)} | {chr(127)}
ASCII = [chr(i) for i in range(33, 127) if chr(i) not in REF_ILLEGAL]
NON_ASCII = ['é', '٣', '€']   # letter, digit, symbol
ALPHABET = ASCII + NON_ASCII
IDX = {ch: i for i, ch in enumerate(ALPHABET)}
NSYM = len(ALPHABET)


def _cat(cat, ch):
    if cat == sre_c.CATEGORY_DIGIT:
        return ch.isdigit()
    if cat == sre_c.CATEGORY_NOT_DIGIT:
        return not ch.isdigit()
    if cat == sre_c.CATEGORY_WORD:
        return ch.isalnum() or ch == '_'
    if cat == sre_c.CATEGORY_NOT_WORD:
        return not (ch.isalnum() or ch == '_')
    if cat == sre_c.CATEGORY_SPACE:
        return ch.isspace()
    if cat == sre_c.CATEGORY_NOT_SPACE:
        return not ch.isspace()
    raise AnalysisError('regex: unsupported category %s' % cat)


def _in_set(items, ch, ignorecase=False):
    neg = False
    hit = False
    for op, av in items:
        if op == sre_c.NEGATE:
            neg = True
        elif op == sre_c.LITERAL:
            hit = hit or ord(ch) == av
        elif op == sre_c.RANGE:
            hit = hit or av[0] <= ord(ch) <= av[1]
        elif op == sre_c.CATEGORY:
            hit = hit or _cat(av, ch)
        else:
            raise AnalysisError('regex: unsupported set item %s' % op)
    return hit != neg


class NFA:
    def __init__(self):
        self.eps = []
        self.end_eps = []  # `$`: epsilon after which nothing may be consumed
        self.trans = []   # state -> list of (frozenset(symbol idx), target)

    def new(self):
        self.eps.append([])
        self.end_eps.append([])
        self.trans.append([])
        return len(self.eps) - 1


def _symbols(pred):
    return frozenset(i for i, ch in enumerate(ALPHABET) if pred(ch))


ANYSYM = frozenset(range(NSYM))


class Builder:
    def __init__(self, pattern):
        self.pattern = pattern
        self.nfa = NFA()
        try:
            self.tree = sre_parse.parse(pattern)
        except re.error as err:
            raise AnalysisError('regex: cannot parse %r: %s' % (pattern, err))
        self.groupnames = {v: k for k, v in
                           self.tree.state.groupdict.items()}

    def fail(self, what):
        raise AnalysisError('regex: unsupported construct %s in %r' %
                            (what, self.pattern))

    # returns (start, end) fragment
    def seq(self, items):
        items = list(items)
        # rewrite (?P<k>K)?(?(k)Y|N)  ->  (K Y | N)
        out = []
        i = 0
        while i < len(items):
            op, av = items[i]
            if op == sre_c.GROUPREF_EXISTS:
                grp, yes, no = av
                prev = out[-1] if out else None
                ok = False
                if prev is not None and prev[0] in (sre_c.MAX_REPEAT,) and \
                        prev[1][0] == 0 and prev[1][1] == 1:
                    inner = list(prev[1][2])
                    if len(inner) == 1 and inner[0][0] == sre_c.SUBPATTERN \
                            and inner[0][1][0] == grp:
                        ok = True
                if not ok:
                    self.fail('conditional group outside the guarded shape')
                out.pop()
                out.append(('ALT', [inner + list(yes),
                                    list(no) if no is not None else []]))
            else:
                out.append((op, av))
            i += 1
        s = self.nfa.new()
        cur = s
        for op, av in out:
            a, b = self.item(op, av)
            self.nfa.eps[cur].append(a)
            cur = b
        return s, cur

    def item(self, op, av):
        n = self.nfa
        if op == sre_c.LITERAL:
            return self.sym(_symbols(lambda ch: ord(ch) == av))
        if op == sre_c.NOT_LITERAL:
            return self.sym(_symbols(lambda ch: ord(ch) != av))
        if op == sre_c.ANY:
            return self.sym(ANYSYM)
        if op == sre_c.IN:
            return self.sym(_symbols(lambda ch: _in_set(av, ch)))
        if op == sre_c.BRANCH:
            s, e = n.new(), n.new()
            for alt in av[1]:
                a, b = self.seq(alt)
                n.eps[s].append(a)
                n.eps[b].append(e)
            return s, e
        if op == 'ALT':
            s, e = n.new(), n.new()
            for alt in av:
                a, b = self.seq(alt)
                n.eps[s].append(a)
                n.eps[b].append(e)
            return s, e
        if op == sre_c.SUBPATTERN:
            return self.seq(av[3])
        if op in (sre_c.MAX_REPEAT, sre_c.MIN_REPEAT):
            lo, hi, sub = av
            s = n.new()
            cur = s
            for _ in range(lo):
                a, b = self.seq(sub)
                n.eps[cur].append(a)
                cur = b
            if hi == sre_c.MAXREPEAT:
                a, b = self.seq(sub)
                loop = n.new()
                n.eps[cur].append(loop)
                n.eps[loop].append(a)
                n.eps[b].append(loop)
                return s, loop
            if hi - lo > 64:
                self.fail('repeat bound > 64')
            e = n.new()
            n.eps[cur].append(e)
            for _ in range(hi - lo):
                a, b = self.seq(sub)
                n.eps[cur].append(a)
                cur = b
                n.eps[cur].append(e)
            return s, e
        if op == sre_c.AT:
            if av in (sre_c.AT_END, sre_c.AT_END_STRING):
                a, b = n.new(), n.new()
                n.end_eps[a].append(b)
                return a, b
            self.fail('anchor %s in the middle of the pattern' % av)
        self.fail(str(op))

    def sym(self, symbols):
        a, b = self.nfa.new(), self.nfa.new()
        self.nfa.trans[a].append((symbols, b))
        return a, b


def _strip_anchors(items, pattern):
    """Top-level sequence: drop a leading ^ (a no-op under re.match)."""
    items = list(items)
    if items and items[0][0] == sre_c.AT and \
            items[0][1] in (sre_c.AT_BEGINNING, sre_c.AT_BEGINNING_STRING):
        items = items[1:]
    return items, False


class DFA:
    """Complete deterministic automaton over ALPHABET."""

    def __init__(self, trans, accept, start=0):
        self.trans = trans      # list of lists: state -> symbol idx -> state
        self.accept = accept    # set of states
        self.start = start

    def size(self):
        return len(self.trans)


def _determinise(nfa, start, finals):
    """Subset construction.  NFA configurations are (state, mode) encoded as
    2*state+mode; mode 1 = a `$` was crossed, no symbol may follow."""
    def closure(confs):
        st = set(confs)
        stack = list(confs)
        while stack:
            c = stack.pop()
            s, m = c >> 1, c & 1
            for t in nfa.eps[s]:
                k = (t << 1) | m
                if k not in st:
                    st.add(k)
                    stack.append(k)
            for t in nfa.end_eps[s]:
                k = (t << 1) | 1
                if k not in st:
                    st.add(k)
                    stack.append(k)
        return frozenset(st)
    fin = {(f << 1) for f in finals} | {(f << 1) | 1 for f in finals}
    s0 = closure([start << 1])
    index = {s0: 0}
    order = [s0]
    trans = []
    dq = deque([s0])
    while dq:
        cur = dq.popleft()
        row = [None] * NSYM
        moves = {}
        for c in cur:
            if c & 1:
                continue
            for syms, t in nfa.trans[c >> 1]:
                for a in syms:
                    moves.setdefault(a, set()).add(t << 1)
        cache = {}
        for a in range(NSYM):
            tg = moves.get(a)
            key = frozenset(tg) if tg else frozenset()
            if key not in cache:
                cache[key] = closure(key) if key else frozenset()
            nxt = cache[key]
            if nxt not in index:
                index[nxt] = len(order)
                order.append(nxt)
                dq.append(nxt)
            row[a] = index[nxt]
        trans.append((index[cur], row))
    trans.sort()
    rows = [r for _, r in trans]
    accept = {i for s, i in index.items() if s & fin}
    return DFA(rows, accept, 0)


class Lang:
    def __init__(self, dfa, label=''):
        self.dfa = dfa
        self.label = label

    # --------------------------------------------------------- construction
    @classmethod
    def from_regex(cls, pattern, match_semantics=True, label=None):
        """Language of full strings s with re.match(pattern, s) truthy
        (match_semantics) -- i.e. an un-anchored end accepts any suffix."""
        b = Builder(pattern)
        items = list(b.tree)
        alts = [items]
        if len(items) == 1 and items[0][0] == sre_c.BRANCH:
            alts = [list(a) for a in items[0][1][1]]
        n = b.nfa
        start, final = n.new(), n.new()
        for alt in alts:
            body, anchored = _strip_anchors(alt, pattern)
            a, e = b.seq(body)
            n.eps[start].append(a)
            if anchored or not match_semantics:
                n.eps[e].append(final)
            else:
                tail = n.new()
                n.eps[e].append(tail)
                n.trans[tail].append((ANYSYM, tail))
                n.eps[tail].append(final)
        return cls(_determinise(n, start, frozenset([final])),
                   label or pattern)

    @classmethod
    def group_language(cls, pattern, group, label=None):
        """Language of the sub-pattern of a named group (as written)."""
        b = Builder(pattern)
        gid = b.tree.state.groupdict.get(group)
        if gid is None:
            raise AnalysisError('regex: no group %r in %r' % (group, pattern))
        found = []

        def visit(items):
            for op, av in items:
                if op == sre_c.SUBPATTERN:
                    if av[0] == gid:
                        found.append(av[3])
                    visit(av[3])
                elif op == sre_c.BRANCH:
                    for alt in av[1]:
                        visit(alt)
                elif op in (sre_c.MAX_REPEAT, sre_c.MIN_REPEAT):
                    visit(av[2])
                elif op == sre_c.GROUPREF_EXISTS:
                    visit(av[1])
                    if av[2] is not None:
                        visit(av[2])
        visit(b.tree)
        if len(found) != 1:
            raise AnalysisError('regex: group %r occurs %d times' %
                                (group, len(found)))
        n = b.nfa
        a, e = b.seq(found[0])
        return cls(_determinise(n, a, frozenset([e])),
                   label or '%s:<%s>' % (pattern, group))

    @classmethod
    def literal_set(cls, strings, label='literals'):
        pat = '^(' + '|'.join(re.escape(s) for s in strings) + ')$'
        return cls.from_regex(pat, label=label)

    @classmethod
    def everything(cls):
        return cls(DFA([[0] * NSYM], {0}), '.*')

    # ------------------------------------------------------------ operations
    def complement(self):
        d = self.dfa
        return Lang(DFA(d.trans, set(range(d.size())) - d.accept, d.start),
                    'not(%s)' % self.label)

    def _product(self, other, mode):
        a, b = self.dfa, other.dfa
        index = {(a.start, b.start): 0}
        order = [(a.start, b.start)]
        rows = []
        dq = deque(order)
        while dq:
            x, y = dq.popleft()
            row = []
            for s in range(NSYM):
                nx = (a.trans[x][s], b.trans[y][s])
                if nx not in index:
                    index[nx] = len(order)
                    order.append(nx)
                    dq.append(nx)
                row.append(index[nx])
            rows.append(row)
        if mode == 'and':
            acc = {i for (x, y), i in index.items()
                   if x in a.accept and y in b.accept}
        else:
            acc = {i for (x, y), i in index.items()
                   if x in a.accept or y in b.accept}
        return Lang(DFA(rows, acc, 0), '(%s %s %s)' % (self.label, mode,
                                                       other.label))

    def intersect(self, other):
        return self._product(other, 'and')

    def union(self, other):
        return self._product(other, 'or')

    def concat_regex_not_supported(self):  # pragma: no cover
        raise NotImplementedError

    def witness(self):
        """Shortest accepted string, or None if the language is empty."""
        d = self.dfa
        prev = {d.start: None}
        dq = deque([d.start])
        while dq:
            s = dq.popleft()
            if s in d.accept:
                out = []
                while prev[s] is not None:
                    s, ch = prev[s]
                    out.append(ch)
                return ''.join(reversed(out))
            for i in range(NSYM):
                t = d.trans[s][i]
                if t not in prev:
                    prev[t] = (s, ALPHABET[i])
                    dq.append(t)
        return None

    def is_empty(self):
        return self.witness() is None

    def subset_of(self, other):
        """(bool, witness in self \\ other)"""
        w = self.intersect(other.complement()).witness()
        return w is None, w

    def equivalent(self, other):
        ok, w = self.subset_of(other)
        if not ok:
            return False, w
        ok, w = other.subset_of(self)
        return ok, w

    def accepts(self, s):
        d = self.dfa
        st = d.start
        for ch in s:
            if ch not in IDX:
                return False
            st = d.trans[st][IDX[ch]]
        return st in d.accept

    def first_chars(self):
        """Set of characters that can start an accepted string."""
        d = self.dfa
        live = self._live()
        return {ALPHABET[i] for i in range(NSYM)
                if d.trans[d.start][i] in live}

    def _live(self):
        d = self.dfa
        rev = {}
        for s, row in enumerate(d.trans):
            for t in row:
                rev.setdefault(t, set()).add(s)
        live = set(d.accept)
        stack = list(d.accept)
        while stack:
            t = stack.pop()
            for s in rev.get(t, ()):
                if s not in live:
                    live.add(s)
                    stack.append(s)
        return live

    def contains_char(self, ch):
        """Can an accepted string contain ch?"""
        d = self.dfa
        live = self._live()
        reach = {d.start}
        stack = [d.start]
        while stack:
            s = stack.pop()
            for t in d.trans[s]:
                if t not in reach:
                    reach.add(t)
                    stack.append(t)
        i = IDX[ch]
        return any(d.trans[s][i] in live for s in reach if s in live)
