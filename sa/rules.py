"""Rule helpers shared by the property modules (see DESIGN.md section 4)."""
import ast

from .program import AnalysisError, walk_local, dotted
from .analysis import Spec, src, const_value
from .cfg import node_contains_call, local_nodes

GWF = 'bert_e.workflow.gitwaterflow'
EXC = 'bert_e.exceptions'


# ----------------------------------------------------------------- ast utils
def parent_map(root):
    pm = {}
    for n in ast.walk(root):
        for ch in ast.iter_child_nodes(n):
            pm[ch] = n
    return pm


def chained_loop(an, f, loop):
    """If `loop` walks the rest of a list with, for each element, the
    element before it (the first element of the list for the first one), in
    either spelling
        prev = first                      for prev, cur in zip([first] + rest,
        for cur in rest:                                       rest):
            ...; prev = cur                   ...
    return (name of the current element, name of the previous one), else
    None.  first / rest: `first, *rest = LIST` (first_rest)."""
    pairs = [(a, r) for a, r, _ in first_rest(f) if r is not None]
    wholes = {r: src(lst) for a, r, lst in first_rest(f) if r is not None}
    target, iterable = loop.target, loop.iter
    if isinstance(iterable, ast.Call) and \
            src(iterable.func) == 'enumerate' and iterable.args and \
            isinstance(target, ast.Tuple) and len(target.elts) == 2:
        # for i, cur in enumerate(rest): the index changes nothing
        target, iterable = target.elts[1], iterable.args[0]
    if isinstance(target, ast.Name):
        cur = target.id
        it = src(strip_wrappers(iterable, names=('list', 'tuple')))
        for first, rest in pairs:
            if it != rest:
                continue
            c = an.cfg(f)
            head = c.stmt_node[id(loop)]
            for name in _local_names(f):
                st = stores_to(f, name)
                within = [s_ for s_, v in st if inside(loop, s_)]
                if len(within) != 1 or within[0] not in loop.body or \
                        src(within[0].value) != cur:
                    continue
                # the bindings made outside the loop that reach its head
                dn = {id(s_): c.done_node.get(id(s_)) for s_, _ in st}
                reach = []
                for s_, v in st:
                    if inside(loop, s_) or dn[id(s_)] is None:
                        continue
                    others = {d for k, d in dn.items()
                              if k != id(s_) and d is not None}
                    if c.path(dn[id(s_)], head, removed=others,
                              use_exc=False):
                        reach.append(v)
                if not reach or any(v is None or src(v) != first
                                    for v in reach):
                    continue
                done = dn[id(within[0])]
                if not any(c.path(s0, head, removed={done}, use_exc=False)
                           for s0 in c.succ[head]
                           if c.nodes[s0].kind == 'true'):
                    return cur, name
        return None
    t = loop.target
    it = loop.iter
    if isinstance(t, ast.Tuple) and len(t.elts) == 2 and \
            isinstance(t.elts[0], ast.Tuple) and \
            isinstance(it, ast.Call) and src(it.func) == 'enumerate':
        return None
    if isinstance(t, ast.Tuple) and len(t.elts) == 2 and \
            all(isinstance(e, ast.Name) for e in t.elts) and \
            isinstance(it, ast.Call) and src(it.func) == 'zip' and \
            len(it.args) == 2:
        a, b = (' '.join(src(x).split()) for x in it.args)
        for first, rest in pairs:
            if b == rest and a in ('[%s] + %s' % (first, rest),
                                   '[%s, *%s]' % (first, rest),
                                   '[%s] + %s[:-1]' % (first, rest),
                                   wholes.get(rest),
                                   '%s[:-1]' % wholes.get(rest)):
                return t.elts[1].id, t.elts[0].id
    return None


def locals_bound_to(f, text=None, pred=None):
    """Names of the locals of f whose every binding has the canonical value
    `text` (or a canonical value accepted by pred): the way a rule names a
    role ("the branch being created") instead of a variable."""
    out = []
    seen = set()
    for n in walk_local(f.node, include_root=False):
        if isinstance(n, ast.Assign) and len(n.targets) == 1 and \
                isinstance(n.targets[0], ast.Name) and \
                n.targets[0].id not in seen:
            name = n.targets[0].id
            seen.add(name)
            vals = [v for _, v in stores_to(f, name)]
            # (`x = None` next to the real binding is "not there yet")
            real = [v for v in vals
                    if not (isinstance(v, ast.Constant) and v.value is None)]
            if real and all(v is not None and (
                    canon(f, v) == text if pred is None
                    else pred(canon(f, v))) for v in real):
                out.append(name)
    return out


def first_rest(f):
    """[(first name, rest name or None, LIST expr)] for every
    `first, *rest = LIST` of f, as the rules see it after normalisation:
    `first = LIST[0]` and `rest = list(LIST[1:])` (also when written so)."""
    firsts, rests = [], {}
    for st in walk_local(f.node, include_root=False):
        if not (isinstance(st, ast.Assign) and len(st.targets) == 1 and
                isinstance(st.targets[0], ast.Name)):
            continue
        v = st.value
        if isinstance(v, ast.Subscript) and \
                isinstance(v.slice, ast.Constant) and v.slice.value == 0:
            firsts.append((st.targets[0].id, v.value))
        if isinstance(v, ast.Call) and isinstance(v.func, ast.Name) and \
                v.func.id in ('list', 'tuple') and len(v.args) == 1:
            v = v.args[0]
        if isinstance(v, ast.Subscript) and isinstance(v.slice, ast.Slice) \
                and v.slice.upper is None and v.slice.step is None and \
                isinstance(v.slice.lower, ast.Constant) and \
                v.slice.lower.value == 1:
            rests[src(v.value)] = st.targets[0].id
    return [(name, rests.get(src(lst)), lst) for name, lst in firsts]


def stores_to(f, name):
    """Assignment statements in f (own body) that bind `name`: returns list
    of (stmt, value_expr or None)."""
    out = []
    for n in walk_local(f.node, include_root=False):
        if isinstance(n, ast.Assign):
            for t in n.targets:
                for el, val in _pair_targets(t, n.value):
                    if isinstance(el, ast.Name) and el.id == name:
                        out.append((n, val))
                    elif isinstance(el, ast.Starred) and \
                            isinstance(el.value, ast.Name) and \
                            el.value.id == name:
                        out.append((n, None))
        elif isinstance(n, (ast.AugAssign, ast.AnnAssign)):
            if isinstance(n.target, ast.Name) and n.target.id == name:
                out.append((n, getattr(n, 'value', None)))
        elif isinstance(n, (ast.For, ast.AsyncFor)):
            for el in _flatten_targets(n.target):
                if isinstance(el, ast.Name) and el.id == name:
                    out.append((n, None))
        elif isinstance(n, (ast.With, ast.AsyncWith)):
            for it in n.items:
                if it.optional_vars is not None:
                    for el in _flatten_targets(it.optional_vars):
                        if isinstance(el, ast.Name) and el.id == name:
                            out.append((n, None))
        elif isinstance(n, ast.NamedExpr):
            if n.target.id == name:
                out.append((n, n.value))
        elif isinstance(n, ast.ExceptHandler) and n.name == name:
            out.append((n, None))
    return out


def _pair_targets(t, value):
    """(target element, value expr or None): parallel tuple assignments are
    paired element-wise."""
    if isinstance(t, (ast.Tuple, ast.List)):
        if isinstance(value, (ast.Tuple, ast.List)) and \
                len(value.elts) == len(t.elts) and \
                not any(isinstance(e, ast.Starred) for e in t.elts):
            for te, ve in zip(t.elts, value.elts):
                yield from _pair_targets(te, ve)
        else:
            for e in _flatten_targets(t):
                yield e, None
    else:
        yield t, value


def _flatten_targets(t):
    if isinstance(t, (ast.Tuple, ast.List)):
        for e in t.elts:
            yield from _flatten_targets(e)
    else:
        yield t


def chained_assign_value(f, name):
    """Value of `a = b = expr` style single binding of name, else None."""
    st = stores_to(f, name)
    if len(st) != 1:
        return None
    stmt, val = st[0]
    return val


def strip_wrappers(expr, names=('list', 'tuple', 'sorted', 'set')):
    while isinstance(expr, ast.Call) and isinstance(expr.func, ast.Name) \
            and expr.func.id in names and len(expr.args) == 1:
        expr = expr.args[0]
    return expr


def calls_in_expr(expr):
    return [n for n in local_nodes(expr) if isinstance(n, ast.Call)]


def kw(call, name, default=None):
    for k in call.keywords:
        if k.arg == name:
            return k.value
    return default


def is_const(node, value):
    return isinstance(node, ast.Constant) and node.value == value and \
        type(node.value) is type(value)


def const_or_none(node):
    try:
        return const_value(node)
    except AnalysisError:
        return None


# ------------------------------------------------------------------ anchors
def need_func(an, qname):
    return an.prog.func(qname, required=True)


def need_call(an, f, spec, what=None):
    calls = an.direct_calls(f, spec)
    if not calls:
        raise AnalysisError('anchor-missing call %s in %s' %
                            (what or spec.label, f.qname))
    return calls


# ---------------------------------------------------------------------- MPT
def mpt(an, rep, rule, f, target_spec, gate_specs, *, depth=2, label=None,
        extra_gates=(), use_exc=True, targets=None, required_targets=1,
        why=''):
    """must-pass-through: every path entry -> each target call site crosses
    the normal completion of one of the gates (a call spec, or explicit CFG
    node ids in extra_gates).  Records one obligation per target site."""
    c = an.cfg(f)
    if not isinstance(gate_specs, (list, tuple)):
        gate_specs = [gate_specs]
    gates = list(extra_gates)
    missing_gate = []
    for g in gate_specs:
        if g.kind == 'func' and an.resolve_spec(g) is None:
            missing_gate.append(g)
            continue
        gates.extend(an.gate_nodes(f, g, depth))
    tnodes = targets if targets is not None else \
        an.target_nodes(f, target_spec, depth)
    tlabel = label or ('%s before %s' % (
        '|'.join(g.label.rpartition('.')[2] for g in gate_specs),
        target_spec.label.rpartition('.')[2] if target_spec else 'target'))
    if len(tnodes) < required_targets:
        raise AnalysisError('anchor-missing target %s in %s' %
                            (target_spec.label if target_spec else label,
                             f.qname))
    allok = True
    for t in tnodes:
        rep.evaluated()
        tid = t.id if hasattr(t, 'id') else t
        ok, path = c.must_pass(gates, tid, use_exc=use_exc)
        if not c.is_reachable(tid):
            ok, path = True, None
        inst = '%s: %s @L%d' % (f.qname, tlabel, c.nodes[tid].lineno)
        if missing_gate:
            ok = False
        if ok:
            rep.ok(rule, '%s: %s' % (f.qname, tlabel), f.where(c.nodes[tid]),
                   why or None)
        else:
            allok = False
            msg = 'a path reaches %s without passing %s' % (
                target_spec.label if target_spec else 'the target',
                ' / '.join(g.label for g in gate_specs) or 'the gate')
            if missing_gate:
                msg = 'gate %s does not exist any more' % \
                    missing_gate[0].label
            rep.violation(rule, '%s: %s' % (f.qname, tlabel),
                          f.where(c.nodes[tid]), msg,
                          path=c.describe_path(path))
    return allok


# -------------------------------------------------------------------- exits
def raise_class(an, f, node):
    """Qualified class name raised by a Raise statement (or None if
    unknown; 'reraise' for a bare raise)."""
    prog = an.prog
    if node.exc is None:
        return 'reraise'
    e = node.exc
    if isinstance(e, ast.Call):
        c = prog.callee(f, e)
        if c[0] in ('class', 'ext', 'func'):
            return c[1]
        return None
    if isinstance(e, ast.Name):
        q = prog.resolve_dotted(f.module, e.id, f)
        if q in prog.classes:
            return q
        vals = [v for _, v in stores_to(f, e.id) if v is not None and
                not is_const(v, None)]
        classes = set()
        for v in vals:
            if isinstance(v, ast.Call):
                c = prog.callee(f, v)
                if c[0] in ('class', 'ext'):
                    classes.add(c[1])
                else:
                    classes.add(None)
            else:
                classes.add(None)
        if len(classes) == 1:
            return classes.pop()
        for st, _ in stores_to(f, e.id):
            if isinstance(st, ast.ExceptHandler):
                return 'reraise'
        return None
    d = dotted(e)
    if d:
        q = prog.resolve_dotted(f.module, d, f)
        if q in prog.classes:
            return q
    return None


def explicit_exits(an, f, reachable_only=True):
    """[(kind, cfgnode, info)] with kind in 'return' / 'raise' / 'fall' /
    'noreturn-call'."""
    c = an.cfg(f)
    reach = c.reachable()
    out = []
    for n in c.nodes.values():
        if reachable_only and n.id not in reach:
            continue
        if n.kind == 'return':
            out.append(('return', n, None))
        elif n.kind == 'raise_stmt':
            out.append(('raise', n, raise_class(an, f, n.ast)))
        elif n.kind == 'stmt' and not c.done_of(n):
            out.append(('noreturn-call', n, None))
    for p in c.pred[c.exit]:
        if p in reach and c.nodes[p].kind not in ('return', 'finally'):
            out.append(('fall', c.nodes[p], None))
    return out


# ------------------------------------------------- structural position
def inside(container, node):
    """node (an AST node or a CFG node) lies in the subtree of the AST node
    `container`.  Position is decided on the tree, never on line numbers: an
    inlined helper keeps the line numbers of its definition."""
    a = getattr(node, 'ast', node)
    ids = getattr(container, '_sub_ids', None)
    if ids is None:
        ids = {id(x) for x in ast.walk(container)}
        container._sub_ids = ids
    return id(a) in ids


def order_of(f):
    """Pre-order index of every node of f's own body (source order)."""
    o = getattr(f, '_order', None)
    if o is None:
        o = {id(n): i for i, n in enumerate(walk_local(f.node))}
        f._order = o
    return o


def before(f, a, b):
    """a precedes b in the source order of f (AST or CFG nodes)."""
    o = order_of(f)
    ia = o.get(id(getattr(a, 'ast', a)))
    ib = o.get(id(getattr(b, 'ast', b)))
    return ia is not None and ib is not None and ia < ib


# -------------------------------------------------- partial evaluation (EXH)
class Unknown:
    pass


UNKNOWN = Unknown()


def eval_atom(expr, env):
    """Evaluate a condition atom under env {name: python value}; UNKNOWN if
    it mentions anything else."""
    try:
        return _ev(expr, env)
    except _NotConst:
        return UNKNOWN


class _NotConst(Exception):
    pass


def _ev(e, env):
    if isinstance(e, ast.Constant):
        return e.value
    if not isinstance(e, ast.Name):
        k = src(e)
        if k in env:
            return env[k]
    if isinstance(e, ast.Name):
        if e.id in env:
            return env[e.id]
        raise _NotConst()
    if isinstance(e, (ast.Tuple, ast.List, ast.Set)):
        return tuple(_ev(x, env) for x in e.elts)
    if isinstance(e, ast.UnaryOp) and isinstance(e.op, ast.Not):
        return not _ev(e.operand, env)
    if isinstance(e, ast.UnaryOp) and isinstance(e.op, ast.USub):
        return -_ev(e.operand, env)
    if isinstance(e, ast.BoolOp):
        vals = [_ev(v, env) for v in e.values]
        if isinstance(e.op, ast.And):
            r = True
            for v in vals:
                r = r and v
            return r
        r = False
        for v in vals:
            r = r or v
        return r
    if isinstance(e, ast.Compare):
        left = _ev(e.left, env)
        res = True
        for op, right in zip(e.ops, e.comparators):
            r = _ev(right, env)
            if isinstance(op, ast.Eq):
                ok = left == r
            elif isinstance(op, ast.NotEq):
                ok = left != r
            elif isinstance(op, ast.In):
                ok = left in r
            elif isinstance(op, ast.NotIn):
                ok = left not in r
            elif isinstance(op, ast.Is):
                ok = left is r
            elif isinstance(op, ast.IsNot):
                ok = left is not r
            elif isinstance(op, ast.Lt):
                ok = left < r
            elif isinstance(op, ast.LtE):
                ok = left <= r
            elif isinstance(op, ast.Gt):
                ok = left > r
            elif isinstance(op, ast.GtE):
                ok = left >= r
            else:
                raise _NotConst()
            res = res and ok
            left = r
        return res
    raise _NotConst()


def outcomes(an, f, start, env, stop_at_loop=True):
    """Explore f's CFG from node id `start`, deciding test atoms under env;
    returns the set of outcomes reached: ('raise', class) / ('return',) /
    ('assert-fail',)."""
    c = an.cfg(f)
    out = set()
    seen = set()
    stack = [start]
    while stack:
        i = stack.pop()
        if i in seen:
            continue
        seen.add(i)
        n = c.nodes[i]
        if n.kind == 'test':
            v = eval_test(an, f, n.ast, env)
            if v is UNKNOWN:
                stack.extend(s for s in c.succ[i]
                             if (i, s) not in c.exc_edges)
            else:
                stack.extend(c.branch(n, bool(v)))
            continue
        if n.kind == 'raise_stmt':
            out.add(('raise', raise_class(an, f, n.ast)))
            continue
        if n.kind == 'stmt' and isinstance(n.ast, ast.Assert):
            v = eval_atom(n.ast.test, env)
            if v is not UNKNOWN and not v:
                out.add(('assert-fail',))
                continue
        if n.kind == 'stmt' and not c.done_of(n):
            out.add(('noreturn-call', src(n.ast)[:60]))
            continue
        if i == c.exit:
            out.add(('return',))
            continue
        if i == c.raise_exit:
            continue
        for s in c.succ[i]:
            if (i, s) in c.exc_edges:
                continue
            stack.append(s)
    return out


# -------------------------------------------------------------- expressions
def norm_bool(expr):
    """Normal form of a boolean expression as a frozenset-of-atoms tree:
    ('and'|'or', frozenset(children)) / ('atom', text).  `not (a == b)` ->
    `a != b`; operand order of and/or/==/!= is irrelevant."""
    if isinstance(expr, ast.BoolOp):
        op = 'and' if isinstance(expr.op, ast.And) else 'or'
        kids = set()
        for v in expr.values:
            k = norm_bool(v)
            if k[0] == op:
                kids |= set(k[1])
            else:
                kids.add(k)
        return (op, frozenset(kids))
    if isinstance(expr, ast.UnaryOp) and isinstance(expr.op, ast.Not):
        inner = expr.operand
        if isinstance(inner, ast.Compare) and len(inner.ops) == 1:
            flip = {ast.Eq: ast.NotEq, ast.NotEq: ast.Eq, ast.In: ast.NotIn,
                    ast.NotIn: ast.In, ast.Is: ast.IsNot, ast.IsNot: ast.Is}
            t = type(inner.ops[0])
            if t in flip:
                return norm_bool(ast.Compare(left=inner.left,
                                             ops=[flip[t]()],
                                             comparators=inner.comparators))
        if isinstance(inner, ast.UnaryOp) and isinstance(inner.op, ast.Not):
            return norm_bool(inner.operand)
        return ('not', norm_bool(inner))
    if isinstance(expr, ast.Compare) and len(expr.ops) == 1:
        op = expr.ops[0]
        a, b = src(expr.left), src(expr.comparators[0])
        if isinstance(op, (ast.Eq, ast.NotEq)):
            a, b = sorted((a, b))
            return ('atom', '%s %s %s' % (
                a, '==' if isinstance(op, ast.Eq) else '!=', b))
        sym = {ast.In: 'in', ast.NotIn: 'not in', ast.Is: 'is',
               ast.IsNot: 'is not', ast.Lt: '<', ast.LtE: '<=',
               ast.Gt: '>', ast.GtE: '>='}.get(type(op), '?')
        return ('atom', '%s %s %s' % (a, sym, b))
    return ('atom', src(expr))


def is_access_path(e):
    """A name, attribute chain or constant subscript of one: a value that
    merely names something."""
    if isinstance(e, ast.Name):
        return True
    if isinstance(e, ast.Attribute):
        return is_access_path(e.value)
    if isinstance(e, ast.Subscript):
        return is_access_path(e.value) and (
            isinstance(e.slice, ast.Constant) or is_access_path(e.slice))
    return False


def substitute_locals(f, expr, depth=3, stop=(), paths_only=False):
    """Replace local names that have exactly one binding in f by their
    defining expression (bounded depth).  Returns a new AST.  paths_only:
    only locals that cache an access path (x = a.b.c) are replaced."""
    if depth == 0:
        return expr

    class T(ast.NodeTransformer):
        def visit_Name(self, node):
            if isinstance(node.ctx, ast.Load) and node.id not in stop and \
                    node.id not in f.params:
                v = chained_assign_value(f, node.id)
                if v is not None and not isinstance(v, (ast.Lambda,)) and \
                        (not paths_only or is_access_path(v)):
                    import copy
                    return substitute_locals(f, copy.deepcopy(v), depth - 1,
                                             stop, paths_only)
            return node
    import copy
    return T().visit(copy.deepcopy(expr))


# ---------------------------------------------------------- string templates
def _namespace_of(e):
    """obj for `vars(obj)` / `obj.__dict__`, else None."""
    if isinstance(e, ast.Call) and isinstance(e.func, ast.Name) and \
            e.func.id == 'vars' and len(e.args) == 1 and not e.keywords:
        return e.args[0]
    if isinstance(e, ast.Attribute) and e.attr == '__dict__':
        return e.value
    return None


def string_template(e):
    """Canonical form of an expression that builds a string from a constant
    pattern: ('w/{}/{}', [hole expressions]) for
        'w/{}/{}'.format(a, b)   'w/%s/%s' % (a, b)   f'w/{a}/{b}'
        'w/' + a + '/' + b
    None when e is not such an expression.  Holes are written {} ({!r} for a
    repr conversion); the four spellings of one pattern compare equal."""
    if isinstance(e, ast.Constant) and isinstance(e.value, str):
        return e.value.replace('{', '{{').replace('}', '}}'), []
    if isinstance(e, ast.JoinedStr):
        fmt, holes = '', []
        for v in e.values:
            if isinstance(v, ast.Constant):
                fmt += str(v.value).replace('{', '{{').replace('}', '}}')
            elif isinstance(v, ast.FormattedValue):
                if v.format_spec is not None:
                    return None
                fmt += '{!r}' if v.conversion == ord('r') else '{}'
                holes.append(v.value)
            else:
                return None
        return fmt, holes
    if isinstance(e, ast.Call) and isinstance(e.func, ast.Attribute) and \
            e.func.attr == 'format' and \
            isinstance(e.func.value, ast.Constant) and \
            isinstance(e.func.value.value, str):
        import string
        fmt, holes = '', []
        auto = 0
        kws = {k.arg: k.value for k in e.keywords if k.arg}
        if any(isinstance(a, ast.Starred) for a in e.args) or \
                any(k.arg is None for k in e.keywords):
            return None
        try:
            parsed = list(string.Formatter().parse(e.func.value.value))
        except ValueError:
            return None
        for lit, field, spec, conv in parsed:
            fmt += lit.replace('{', '{{').replace('}', '}}')
            if field is None:
                continue
            if spec:
                return None
            if field == '':
                idx = auto
                auto += 1
                val = e.args[idx] if idx < len(e.args) else None
            elif field.isdigit():
                val = e.args[int(field)] if int(field) < len(e.args) \
                    else None
            elif field in kws:
                val = kws[field]
            else:
                return None
            if val is None:
                return None
            fmt += '{!r}' if conv == 'r' else '{}'
            holes.append(val)
        return fmt, holes
    if isinstance(e, ast.BinOp) and isinstance(e.op, ast.Mod) and \
            isinstance(e.left, ast.Constant) and \
            isinstance(e.left.value, str) and _namespace_of(e.right):
        # '%(major)d.%(minor)d' % vars(obj): the fields are obj's attributes
        import re as _re
        obj = _namespace_of(e.right)
        fmt, holes = '', []
        pos = 0
        text = e.left.value
        for m in _re.finditer(r'%(?:%|\((\w+)\)([sdri]))', text):
            fmt += text[pos:m.start()].replace('{', '{{').replace('}', '}}')
            pos = m.end()
            if m.group(0) == '%%':
                fmt += '%'
                continue
            fmt += '{!r}' if m.group(2) == 'r' else '{}'
            holes.append(ast.Attribute(value=obj, attr=m.group(1),
                                       ctx=ast.Load()))
        rest = text[pos:]
        if '%' in rest:
            return None
        return fmt + rest.replace('{', '{{').replace('}', '}}'), holes
    if isinstance(e, ast.BinOp) and isinstance(e.op, ast.Mod) and \
            isinstance(e.left, ast.Constant) and \
            isinstance(e.left.value, str):
        import re as _re
        vals = list(e.right.elts) if isinstance(e.right, ast.Tuple) \
            else [e.right]
        fmt, holes = '', []
        pos = 0
        text = e.left.value
        for m in _re.finditer(r'%(%|[sdri])', text):
            fmt += text[pos:m.start()].replace('{', '{{').replace('}', '}}')
            pos = m.end()
            if m.group(1) == '%':
                fmt += '%'
                continue
            if not vals:
                return None
            fmt += '{!r}' if m.group(1) == 'r' else '{}'
            holes.append(vals.pop(0))
        fmt += text[pos:].replace('{', '{{').replace('}', '}}')
        if vals or '%' in _re.sub(r'%(%|[sdri])', '', text):
            return None
        return fmt, holes
    if isinstance(e, ast.BinOp) and isinstance(e.op, ast.Add):
        a, b = string_template(e.left), string_template(e.right)
        if a is None and b is None:
            return None
        if a is None:
            a = ('{}', [e.left])
        if b is None:
            b = ('{}', [e.right])
        return a[0] + b[0], a[1] + b[1]
    return None


def template_sites(f, pattern=None):
    """[(node, fmt, holes)] for the string-building expressions in f's own
    body whose pattern matches the regex `pattern` (outermost only)."""
    import re as _re
    out = []
    skip = set()
    for x in walk_local(f.node, include_root=False):
        if id(x) in skip or not isinstance(x, (ast.JoinedStr, ast.Call,
                                                 ast.BinOp)):
            continue
        t = string_template(x)
        if t is None or not t[1]:
            continue
        for y in ast.walk(x):
            skip.add(id(y))
        if pattern is None or _re.search(pattern, t[0]):
            out.append((x, t[0], t[1]))
    return out


# ------------------------------------------------ canonical forms, conditions
def positional_args(f, call):
    """[(parameter name, argument expr)] of a call to an internal function,
    keyword arguments bound to their parameters; None when the callee is not
    an exactly resolved internal function or the call uses * / **."""
    prog = getattr(f, 'prog', None)
    if prog is None:
        return None
    if any(isinstance(a, ast.Starred) for a in call.args) or \
            any(k.arg is None for k in call.keywords):
        return None
    cal = prog.callee(f, call)
    if cal[0] == 'class':
        k = prog.classes[cal[1]]
        g = prog.lookup_method(k, '__init__')
        skip = 1
    elif cal[0] == 'func':
        g = prog.funcs[cal[1]]
        skip = 1 if (g.cls is not None and
                     isinstance(call.func, ast.Attribute) and
                     not any(isinstance(d, ast.Name) and
                             d.id == 'staticmethod'
                             for d in g.decorators)) else 0
        if g.cls is not None and isinstance(call.func, ast.Attribute) and \
                src(call.func.value) == g.cls.name:
            skip = 0       # Class.method(obj, ...)
    elif cal[0] == 'method':
        # receiver of unknown class: every definition of that name agrees
        # on the parameter list
        cands = prog.methods_named(cal[1])
        sigs = {tuple(m.params) for m in cands}
        if len(sigs) != 1 or not cands:
            return None
        g = cands[0]
        skip = 1
    else:
        return None
    if g is None or g.node.args.vararg or g.node.args.kwarg:
        return None
    params = g.params[skip:]
    if len(call.args) > len(params):
        return None
    out = list(zip(params, call.args))
    kws = {k.arg: k.value for k in call.keywords}
    if not set(kws) <= set(params[len(call.args):]):
        return None
    for p_ in params[len(call.args):]:
        if p_ in kws:
            out.append((p_, kws[p_]))
    return out


class _Positional(ast.NodeTransformer):
    """helper(b=2, a=1) -> helper(1, 2) for exactly resolved internal
    callees (as far as the leading parameters are all given)."""
    def __init__(self, f):
        self.f = f

    def visit_Call(self, node):
        self.generic_visit(node)
        if not node.keywords:
            return node
        bound = positional_args(self.f, node)
        if bound is None:
            return node
        prog = self.f.prog
        cal = prog.callee(self.f, node)
        if cal[0] == 'func':
            g = prog.funcs.get(cal[1])
        elif cal[0] == 'class':
            g = prog.lookup_method(prog.classes[cal[1]], '__init__')
        else:
            cands = prog.methods_named(cal[1])
            g = cands[0] if cands else None
        if g is None:
            return node
        params = [p_ for p_ in g.params if p_ not in ('self', 'cls')]
        given = dict(bound)
        args, rest = [], []
        contiguous = True
        for p_ in params:
            if p_ in given and contiguous:
                args.append(given[p_])
            elif p_ in given:
                rest.append(ast.keyword(arg=p_, value=given[p_]))
            else:
                contiguous = False
        return ast.copy_location(ast.Call(func=node.func, args=args,
                                          keywords=rest), node)


_ALPHA = [True]


class no_alpha:
    """Within this context canon() keeps the names of the locals it cannot
    write out (for the rules that match them as pattern variables)."""
    def __enter__(self):
        self.old = _ALPHA[0]
        _ALPHA[0] = False

    def __exit__(self, *a):
        _ALPHA[0] = self.old


def canon(f, e, depth=4, paths_only=False, alpha=None):
    """Source text of e with single-binding locals replaced by what they
    stand for, and keyword arguments of internal calls in positional form:
    the same text whether or not a sub-expression was first stored in a
    local, and however the arguments are spelled."""
    if f is not None:
        e = substitute_locals(f, e, depth, paths_only=paths_only)
        if getattr(f, 'prog', None) is not None and any(
                isinstance(x, ast.Call) and x.keywords for x in ast.walk(e)):
            import copy
            e = _Positional(f).visit(copy.deepcopy(e))
    if alpha is None:
        alpha = _ALPHA[0]
    if f is not None and alpha:
        e = _alpha(f, e)
    elif alpha:
        e = _alpha_comprehensions(e)
    text = ' '.join(src(e).split())
    # two expressions a rule has shown to denote the same object in f
    # (FuncInfo.aliases: [(text, canonical text)], set by that rule)
    for a, b in getattr(f, 'aliases', None) or ():
        text = text.replace(a, b)
    return text


# ------------------------------------------- conditions as patterns over locals
def _ast_match(p, t, variables, env):
    """First-order matching of expression p (names in `variables` stand for
    any expression, the same one everywhere) against t.  Extends env
    ({variable: ast.dump of what it stands for}); returns True / False."""
    if isinstance(p, ast.Name) and p.id in variables:
        d = ast.dump(t)
        if p.id in env:
            return env[p.id][0] == d
        env[p.id] = (d, t)
        return True
    if type(p) is not type(t):
        return False
    for name, pv in ast.iter_fields(p):
        if name == 'ctx':
            continue
        tv = getattr(t, name, None)
        if isinstance(pv, list):
            if not isinstance(tv, list) or len(pv) != len(tv):
                return False
            for a, b in zip(pv, tv):
                if isinstance(a, ast.AST):
                    if not _ast_match(a, b, variables, env):
                        return False
                elif a != b:
                    return False
        elif isinstance(pv, ast.AST):
            if not isinstance(tv, ast.AST) or \
                    not _ast_match(pv, tv, variables, env):
                return False
        elif pv != tv:
            return False
    return True


def tree_match(p, t, variables, env):
    """Matching of two cond_tree() results, the first one a pattern; and /
    or are matched in any order, `a == b` either way round.  Generator of
    the extended environments."""
    import itertools
    if p[0] == 'atom' and p[1] in variables and t[0] != 'atom':
        # a variable that stands for a whole condition (a flag written out)
        d = repr(t)
        if p[1] not in env:
            e2 = dict(env)
            e2[p[1]] = (d, _parse_expr('condition()'))
            yield e2
        elif env[p[1]][0] == d:
            yield env
        return
    if p[0] != t[0]:
        return
    if p[0] == 'const':
        if p[1] == t[1]:
            yield env
        return
    if p[0] == 'atom':
        try:
            pa, ta = _parse_expr(p[1]), _parse_expr(t[1])
        except SyntaxError:
            if p[1] == t[1]:
                yield env
            return
        tries = [(pa, ta)]
        if isinstance(pa, ast.Compare) and len(pa.ops) == 1 and \
                isinstance(pa.ops[0], (ast.Eq, ast.NotEq)) and \
                isinstance(ta, ast.Compare) and len(ta.ops) == 1:
            sw = ast.Compare(left=ta.comparators[0], ops=ta.ops,
                             comparators=[ta.left])
            tries.append((pa, sw))
        for a, b in tries:
            e2 = dict(env)
            if _ast_match(a, b, variables, e2):
                yield e2
        return
    if p[0] == 'not':
        yield from tree_match(p[1], t[1], variables, env)
        return
    if len(p[1]) != len(t[1]):
        return
    for perm in itertools.permutations(t[1]):
        envs = [env]
        for a, b in zip(p[1], perm):
            envs = [e2 for e in envs
                    for e2 in tree_match(a, b, variables, e)]
            if not envs:
                break
        yield from envs


def match_guard_table(f, table, found, variables):
    """table: [(label, ((arm, pattern text), ...))] written with the locals
    of the pinned tree as pattern variables; found: [(label, ((arm, ast or
    text), ...), node)] read off f.  Looks for one assignment of the table
    entries to distinct found entries under one meaning of the variables.
    Returns (bindings {variable: text} or None, unmatched table entries)."""
    def norm(arm, e, fn):
        if arm == 'loop':
            with no_alpha():
                text = canon(fn, _parse_expr(e) if isinstance(e, str) else e)
            return 'loop', ('atom', text)
        with no_alpha():
            t = cond_tree(_parse_expr(e) if isinstance(e, str) else e, fn)
        pol = arm == 'then'
        while t[0] == 'not':
            t, pol = t[1], not pol
        return ('then' if pol else 'else'), t
    pats = [(lab, [norm(a, e, None) for a, e in g]) for lab, g in table]
    tgts = [(lab, [norm(a, e, f) for a, e in g]) for lab, g, *_ in found]
    best = {'n': -1, 'env': None, 'left': list(range(len(pats)))}

    def entry(pg, tg, env):
        envs = [env]
        for (pa, pt), (ta, tt) in zip(pg, tg):
            if pa != ta:
                return []
            envs = [e2 for e in envs
                    for e2 in tree_match(pt, tt, variables, e)]
            if not envs:
                return []
        return envs

    def search(i, used, env, matched):
        if i == len(pats):
            if len(matched) > best['n']:
                best.update(n=len(matched), env=env, left=[
                    k for k in range(len(pats)) if k not in matched])
            return len(matched) == len(pats)
        lab, pg = pats[i]
        for j, (tl, tg) in enumerate(tgts):
            if j in used or tl != lab or len(tg) != len(pg):
                continue
            for e2 in entry(pg, tg, env):
                if search(i + 1, used | {j}, e2, matched | {i}):
                    return True
        # leave this entry unmatched (to report the others precisely)
        search(i + 1, used, env, matched)
        return False

    search(0, frozenset(), {}, frozenset())
    env = best['env'] or {}
    return ({k: ' '.join(src(v[1]).split()) for k, v in env.items()},
            [table[k] for k in best['left']])


# ------------------------------------------------- names that carry no meaning
def alpha_names(f):
    """{local name: canonical text} for the locals of f that canon() cannot
    replace by a value (loop variables, unpacked results, names bound more
    than once, handler / with names): what the name stands for, written
    without the name, so that renaming a local changes no canonical text.
        for v in xs            v    -> each(xs)
        for i, v in enumerate(xs)   -> index(xs), each(xs)
        for k, v in d.items()       -> key(d), value(d)
        for a, b in zip(xs, ys)     -> each(xs), each(ys)
        a, b = f()             a    -> part(0, f())
        x = None ... x = g()   x    -> anyof(None, g())
        except E as err        err  -> caught(E)
        with open(p) as fh     fh   -> entered(open(p))
    Two locals with the same description get an ordinal (anyof2)."""
    cached = getattr(f, '_alpha_names', None)
    if cached is not None:
        return cached
    f._alpha_names = {}         # (recursion through canon sees no names)
    names = []
    for n in walk_local(f.node, include_root=False):
        els = []
        if isinstance(n, ast.Assign):
            for t in n.targets:
                els += _flatten_targets(t)
        elif isinstance(n, (ast.AugAssign, ast.AnnAssign)):
            els = [n.target]
        elif isinstance(n, (ast.For, ast.AsyncFor)):
            els = _flatten_targets(n.target)
        elif isinstance(n, (ast.With, ast.AsyncWith)):
            for it in n.items:
                if it.optional_vars is not None:
                    els += _flatten_targets(it.optional_vars)
        elif isinstance(n, ast.NamedExpr):
            els = [n.target]
        elif isinstance(n, ast.ExceptHandler) and n.name:
            if n.name not in names and n.name not in f.params:
                names.append(n.name)
        for el in els:
            if isinstance(el, ast.Starred):
                el = el.value
            if isinstance(el, ast.Name) and el.id not in names and \
                    el.id not in f.params:
                names.append(el.id)
    out = {}
    raw = {}
    for name in names:
        if chained_assign_value(f, name) is not None and \
                not isinstance(chained_assign_value(f, name), ast.Lambda):
            continue            # canon() writes the value out
        raw[name] = _describe_local(f, name, (name,))
    taken = {}
    for name in names:
        if name not in raw:
            continue
        t = raw[name]
        k = taken.get(t, 0) + 1
        taken[t] = k
        if k > 1:
            head, _, rest = t.partition('(')
            t = '%s%d(%s' % (head, k, rest) if rest else '%s%d' % (t, k)
        out[name] = t
    f._alpha_names = out
    return out


def _describe_local(f, name, stack):
    def text(e):
        # canonical text of a value, other locals described in turn
        e = substitute_locals(f, e)
        return ' '.join(src(_rename_locals(f, e, stack)).split())

    def position(target, el):
        """index path of el inside the (nested) tuple target"""
        if target is el:
            return []
        if isinstance(target, ast.Starred):
            return position(target.value, el)
        if isinstance(target, (ast.Tuple, ast.List)):
            for i, t in enumerate(target.elts):
                p = position(t, el)
                if p is not None:
                    return [i] + p
        return None

    def find(target):
        for x in ast.walk(target):
            if isinstance(x, ast.Name) and x.id == name:
                return x
        return None
    parts = []
    for n in walk_local(f.node, include_root=False):
        if isinstance(n, (ast.For, ast.AsyncFor)) and find(n.target):
            path = position(n.target, find(n.target)) or []
            it = n.iter
            d = None
            if isinstance(it, ast.Call) and isinstance(it.func, ast.Name) \
                    and it.func.id == 'enumerate' and it.args and \
                    len(path) >= 1:
                d = 'index(%s)' % text(it.args[0]) if path[0] == 0 else \
                    'each(%s)' % text(it.args[0])
                path = path[1:]
            elif isinstance(it, ast.Call) and isinstance(it.func, ast.Name) \
                    and it.func.id == 'zip' and path and \
                    path[0] < len(it.args):
                d = 'each(%s)' % text(it.args[path[0]])
                path = path[1:]
            elif isinstance(it, ast.Call) and \
                    isinstance(it.func, ast.Attribute) and \
                    it.func.attr == 'items' and not it.args and \
                    len(path) >= 1:
                d = ('key(%s)' if path[0] == 0 else 'value(%s)') % \
                    text(it.func.value)
                path = path[1:]
            else:
                d = 'each(%s)' % text(it)
            for i in path:
                d = 'part(%d, %s)' % (i, d)
            parts.append(d)
        elif isinstance(n, ast.Assign):
            for t in n.targets:
                el = find(t)
                if el is None:
                    continue
                pairs = dict((id(a), b) for a, b in _pair_targets(t, n.value))
                v = pairs.get(id(el))
                if v is not None:
                    parts.append(text(v))
                else:
                    d = text(n.value)
                    path = is_access_path(n.value)
                    for i in position(t, el) or []:
                        # (an element of a stored sequence is that element)
                        d = '%s[%d]' % (d, i) if path else \
                            'part(%d, %s)' % (i, d)
                    parts.append(d)
        elif isinstance(n, ast.AugAssign) and isinstance(n.target, ast.Name) \
                and n.target.id == name:
            parts.append('updated(%s, %s)' % (type(n.op).__name__,
                                              text(n.value)))
        elif isinstance(n, ast.AnnAssign) and isinstance(n.target, ast.Name) \
                and n.target.id == name and n.value is not None:
            parts.append(text(n.value))
        elif isinstance(n, ast.NamedExpr) and n.target.id == name:
            parts.append(text(n.value))
        elif isinstance(n, (ast.With, ast.AsyncWith)):
            for it in n.items:
                if it.optional_vars is not None and find(it.optional_vars):
                    parts.append('entered(%s)' % text(it.context_expr))
        elif isinstance(n, ast.ExceptHandler) and n.name == name:
            parts.append('caught(%s)' % (text(n.type) if n.type is not None
                                         else ''))
    parts = sorted(set(parts))
    if not parts:
        return 'unbound()'
    if len(parts) == 1:
        return parts[0] if '(' in parts[0] or '[' in parts[0] \
            else 'anyof(%s)' % parts[0]
    return 'anyof(%s)' % ', '.join(parts)


def _rename_locals(f, e, stack=()):
    """e with the locals of f that survive substitution replaced by their
    description (those on `stack` - being described - by `rec`), and
    comprehension variables numbered."""
    import copy
    params = set(f.params)
    own = None

    class T(ast.NodeTransformer):
        def __init__(self):
            self.bound = [set()]

        def _comp(self, node):
            b = set()
            for g in node.generators:
                b |= {x.id for x in ast.walk(g.target)
                      if isinstance(x, ast.Name)}
            self.bound.append(self.bound[-1] | b)
            self.generic_visit(node)
            self.bound.pop()
            return node
        visit_ListComp = visit_SetComp = visit_GeneratorExp = _comp
        visit_DictComp = _comp

        def visit_Lambda(self, node):
            b = {a.arg for a in ast.walk(node.args) if isinstance(a, ast.arg)}
            self.bound.append(self.bound[-1] | b)
            self.generic_visit(node)
            self.bound.pop()
            return node

        def visit_Name(self, node):
            nonlocal own
            if not isinstance(node.ctx, ast.Load) or node.id in params or \
                    node.id in self.bound[-1]:
                return node
            if node.id in stack:
                return ast.copy_location(ast.Name(id='rec', ctx=ast.Load()),
                                         node)
            if stack:
                if own is None:
                    own = {n for n in _local_names(f)}
                if node.id not in own:
                    return node
                if chained_assign_value(f, node.id) is not None:
                    return node
                d = _describe_local(f, node.id, stack + (node.id,)) \
                    if len(stack) < 4 else 'deep()'
            else:
                d = alpha_names(f).get(node.id)
                if d is None:
                    return node
            try:
                return ast.copy_location(_parse_expr(d), node)
            except SyntaxError:
                return node
    return _alpha_comprehensions(T().visit(copy.deepcopy(e)))


def _local_names(f):
    cached = getattr(f, '_local_name_set', None)
    if cached is None:
        cached = set()
        for n in walk_local(f.node, include_root=False):
            if isinstance(n, ast.Name) and isinstance(n.ctx, (ast.Store,
                                                              ast.Del)):
                cached.add(n.id)
            elif isinstance(n, ast.ExceptHandler) and n.name:
                cached.add(n.name)
        cached -= set(f.params)
        f._local_name_set = cached
    return cached


def _alpha(f, e):
    return _rename_locals(f, e)


def _alpha_comprehensions(e):
    """Comprehension / lambda variables numbered c1, c2, ... in order of
    appearance (they are bound inside the expression: any name would do)."""
    import copy
    e = copy.deepcopy(e)
    counter = [0]

    def rename(node, mapping):
        for x in ast.walk(node):
            if isinstance(x, ast.Name) and x.id in mapping:
                x.id = mapping[x.id]
            elif isinstance(x, ast.arg) and x.arg in mapping:
                x.arg = mapping[x.arg]

    def visit(node):
        if isinstance(node, (ast.ListComp, ast.SetComp, ast.GeneratorExp,
                             ast.DictComp)):
            mapping = {}
            for g in node.generators:
                for x in ast.walk(g.target):
                    if isinstance(x, ast.Name) and x.id not in mapping:
                        counter[0] += 1
                        mapping[x.id] = 'c%d' % counter[0]
            rename(node, mapping)
        elif isinstance(node, ast.Lambda):
            mapping = {}
            for a in ast.walk(node.args):
                if isinstance(a, ast.arg):
                    counter[0] += 1
                    mapping[a.arg] = 'c%d' % counter[0]
            rename(node, mapping)
        for ch in ast.iter_child_nodes(node):
            visit(ch)
    visit(e)
    return e


def _parse_expr(text):
    return ast.parse(text, mode='eval').body


def ctext(f, text):
    """Canonical form of a text a rule wrote with names it found in f (the
    loop variable, the holder of a line): what canon() gives for it."""
    return canon(f, _parse_expr(text))


def cond_tree(e, f=None):
    """Boolean structure of a condition over canonical atoms:
    ('and'|'or', [kids]) / ('not', kid) / ('atom', text) / ('const', bool).
    Equivalent spellings share atoms: `a != b` is not(a == b), `x not in y`
    is not(x in y), `isinstance(x, (A, B))` is an `or`, `x in ('a', 'b')` is
    an `or` of equalities, `x.startswith(('a', 'b'))` likewise, `a >= b` is
    not(a < b), `x in d.keys()` is `x in d`, bool(x) is x."""
    if f is not None and not getattr(e, '_expanded', False):
        # look through locals once, at the root: `kinds = (A, B)` ...
        # `isinstance(x, kinds)` is `isinstance(x, (A, B))`
        e = substitute_locals(f, e)
        for x in ast.walk(e):
            x._expanded = True

    def atom(x):
        return ('atom', canon(f, x))

    def eq(a, b):
        return ('atom', '%s == %s' % tuple(sorted((canon(f, a),
                                                   canon(f, b)))))

    def lt(a, b):
        return ('atom', '%s < %s' % (canon(f, a), canon(f, b)))

    if isinstance(e, ast.Constant) and isinstance(e.value, bool):
        return ('const', e.value)
    if isinstance(e, ast.BoolOp):
        return ('and' if isinstance(e.op, ast.And) else 'or',
                [cond_tree(v, f) for v in e.values])
    if isinstance(e, ast.UnaryOp) and isinstance(e.op, ast.Not):
        return ('not', cond_tree(e.operand, f))
    if isinstance(e, ast.Compare):
        parts = []
        left = e.left
        for op, right in zip(e.ops, e.comparators):
            if isinstance(op, ast.Eq):
                t = eq(left, right)
            elif isinstance(op, ast.NotEq):
                t = ('not', eq(left, right))
            elif isinstance(op, (ast.In, ast.NotIn)):
                r = right
                if isinstance(r, ast.Call) and \
                        isinstance(r.func, ast.Attribute) and \
                        r.func.attr == 'keys' and not r.args:
                    r = r.func.value
                if isinstance(r, (ast.Tuple, ast.List, ast.Set)) and \
                        r.elts and all(isinstance(x, ast.Constant)
                                       for x in r.elts):
                    t = ('or', [eq(left, x) for x in r.elts])
                else:
                    t = ('atom', '%s in %s' % (canon(f, left), canon(f, r)))
                if isinstance(op, ast.NotIn):
                    t = ('not', t)
            elif isinstance(op, (ast.Is, ast.IsNot)):
                t = ('atom', '%s is %s' % (canon(f, left), canon(f, right)))
                if isinstance(op, ast.IsNot):
                    t = ('not', t)
            elif isinstance(op, ast.Lt):
                t = lt(left, right)
            elif isinstance(op, ast.Gt):
                t = lt(right, left)
            elif isinstance(op, ast.LtE):
                t = ('not', lt(right, left))
            elif isinstance(op, ast.GtE):
                t = ('not', lt(left, right))
            else:
                t = atom(ast.Compare(left=left, ops=[op],
                                     comparators=[right]))
            parts.append(t)
            left = right
        return parts[0] if len(parts) == 1 else ('and', parts)
    if isinstance(e, ast.Call):
        fn = src(e.func)
        if fn == 'bool' and len(e.args) == 1 and not e.keywords:
            return cond_tree(e.args[0], f)
        if fn == 'isinstance' and len(e.args) == 2 and \
                isinstance(e.args[1], ast.Tuple):
            return ('or', [('atom', 'isinstance(%s, %s)' % (
                canon(f, e.args[0]), canon(f, k))) for k in e.args[1].elts])
        if isinstance(e.func, ast.Attribute) and \
                e.func.attr in ('startswith', 'endswith') and \
                len(e.args) == 1 and isinstance(e.args[0], ast.Tuple):
            return ('or', [('atom', '%s.%s(%s)' % (
                canon(f, e.func.value), e.func.attr, canon(f, k)))
                for k in e.args[0].elts])
    if isinstance(e, ast.Name) and f is not None and \
            e.id not in f.params:
        v = chained_assign_value(f, e.id)
        if v is not None and not isinstance(v, ast.Lambda):
            return cond_tree(v, f)
    return atom(e)


def _tree_atoms(t, out):
    if t[0] == 'atom':
        out.add(t[1])
    elif t[0] == 'not':
        _tree_atoms(t[1], out)
    elif t[0] in ('and', 'or'):
        for k in t[1]:
            _tree_atoms(k, out)
    return out


def _tree_eval(t, env):
    if t[0] == 'atom':
        return env[t[1]]
    if t[0] == 'const':
        return t[1]
    if t[0] == 'not':
        return not _tree_eval(t[1], env)
    if t[0] == 'and':
        return all(_tree_eval(k, env) for k in t[1])
    return any(_tree_eval(k, env) for k in t[1])


def cond_equiv(f, a, b, max_atoms=12):
    """Are the two conditions (AST nodes or source texts) equivalent as
    boolean functions of their canonical atoms?  Exhaustive truth table."""
    import itertools
    ta = cond_tree(_parse_expr(a) if isinstance(a, str) else a, f)
    tb = cond_tree(_parse_expr(b) if isinstance(b, str) else b, f)
    atoms = sorted(_tree_atoms(ta, set()) | _tree_atoms(tb, set()))
    if len(atoms) > max_atoms:
        return ta == tb
    for vals in itertools.product((False, True), repeat=len(atoms)):
        env = dict(zip(atoms, vals))
        if _tree_eval(ta, env) != _tree_eval(tb, env):
            return False
    return True


# ------------------------------------------------------ path-sensitive guards
def guard_paths(an, f, targets, limit=20000, avoid=()):
    """Acyclic normal-flow paths of f's CFG from the entry to any node id in
    `targets`.  Each path is the list of decisions taken on it:
    (resolved atom AST, polarity, test node), where an atom that is a plain
    local flag is resolved to the expression last assigned to it *on that
    path* (so `ok = a in b ... if not ok: raise` reads as `a in b` False)."""
    c = an.cfg(f)
    targets = set(targets)
    out = []
    count = [0]

    def walk(i, seen, env, lits):
        count[0] += 1
        if count[0] > limit:
            raise AnalysisError('guard_paths: more than %d steps in %s' % (
                limit, f.qname))
        if i in targets:
            out.append(list(lits))
            return
        if i in avoid:
            return
        n = c.nodes[i]
        if n.kind == 'done' and isinstance(n.ast, ast.Assign) and \
                len(n.ast.targets) == 1 and \
                isinstance(n.ast.targets[0], ast.Name):
            env = dict(env)
            env[n.ast.targets[0].id] = n.ast.value
        for s in c.succ[i]:
            if (i, s) in c.exc_edges or s in seen:
                continue
            if n.kind == 'test':
                pol = s in c.branch(n, True)
                atom = n.ast
                hops = 0
                while isinstance(atom, ast.Name) and atom.id in env and \
                        hops < 4:
                    atom = env[atom.id]
                    hops += 1
                walk(s, seen | {s}, env, lits + [(atom, pol, n)])
            else:
                walk(s, seen | {s}, env, lits)

    walk(c.entry, {c.entry}, {}, [])
    return out


def positive_compare(atom, polarity):
    """The comparison that holds on a path where `atom` evaluated to
    `polarity`: (`a in b`, False) is `a not in b`.  None if atom is not a
    single comparison (possibly under `not`)."""
    while isinstance(atom, ast.UnaryOp) and isinstance(atom.op, ast.Not):
        atom, polarity = atom.operand, not polarity
    if not (isinstance(atom, ast.Compare) and len(atom.ops) == 1):
        return None
    if polarity:
        return atom
    flip = {ast.Eq: ast.NotEq, ast.NotEq: ast.Eq, ast.In: ast.NotIn,
            ast.NotIn: ast.In, ast.Is: ast.IsNot, ast.IsNot: ast.Is,
            ast.Lt: ast.GtE, ast.GtE: ast.Lt, ast.Gt: ast.LtE,
            ast.LtE: ast.Gt}
    t = type(atom.ops[0])
    if t not in flip:
        return None
    new = ast.Compare(left=atom.left, ops=[flip[t]()],
                      comparators=atom.comparators)
    return ast.copy_location(new, atom)


# ------------------------------------- three-valued evaluation of conditions
def _canon_key(f, key):
    """Canonical spelling of an environment key (a source text)."""
    cache = getattr(f, '_ckeys', None) if f is not None else None
    if cache is None:
        cache = {}
        if f is not None:
            f._ckeys = cache
    if key in cache:
        return cache[key]
    out = key
    try:
        t = cond_tree(_parse_expr(key), f)
        if t[0] == 'atom':
            out = t[1]
    except SyntaxError:
        pass
    cache[key] = out
    return out


_COMPLEMENT = {ast.Eq: ast.NotEq, ast.NotEq: ast.Eq, ast.Is: ast.IsNot,
               ast.IsNot: ast.Is, ast.In: ast.NotIn, ast.NotIn: ast.In,
               ast.Lt: ast.GtE, ast.GtE: ast.Lt, ast.Gt: ast.LtE,
               ast.LtE: ast.Gt}


def eval_cond(f, e, env):
    """Value of the condition e under env, or UNKNOWN.  env maps source
    texts to Python values; both the keys and e are brought to the canonical
    atoms of cond_tree first, so that a local that caches a sub-expression,
    `isinstance(x, (A, B))`, `not in` ... evaluate like the plain spelling."""
    v = eval_atom(e, env)
    if v is not UNKNOWN:
        return v
    cenv = {}
    for k, val in env.items():
        if isinstance(k, str):
            ck = _canon_key(f, k)
            cenv[ck] = val
            # a key written as a negated literal (`a != b`, `x not in y`)
            # also tells the positive one
            if ck == k and isinstance(val, bool):
                try:
                    t = cond_tree(_parse_expr(k), f)
                except SyntaxError:
                    t = ('atom', k)
                neg = False
                while t[0] == 'not':
                    t, neg = t[1], not neg
                if neg and t[0] == 'atom':
                    cenv.setdefault(t[1], not val)
    cenv.update({k: v_ for k, v_ in env.items() if k not in cenv})

    def ev(t):
        if t[0] == 'const':
            return t[1]
        if t[0] == 'atom':
            if t[1] in cenv:
                return bool(cenv[t[1]])
            try:
                a = _parse_expr(t[1])
            except SyntaxError:
                return UNKNOWN
            r = eval_atom(a, cenv)
            if r is UNKNOWN and isinstance(a, ast.Compare) and \
                    len(a.ops) == 1 and \
                    isinstance(a.ops[0], (ast.In, ast.NotIn)) and \
                    isinstance(a.comparators[0],
                               (ast.Tuple, ast.List, ast.Set)) and \
                    1 <= len(a.comparators[0].elts) <= 6:
                # `x in (a, b)` is `x == a or x == b`
                vals = [ev(('atom', ' '.join(src(ast.Compare(
                    left=a.left, ops=[ast.Eq()],
                    comparators=[el])).split())))
                    for el in a.comparators[0].elts]
                if any(x is True for x in vals):
                    r = True
                elif not any(x is UNKNOWN for x in vals):
                    r = False
                if r is not UNKNOWN and isinstance(a.ops[0], ast.NotIn):
                    r = not r
            if r is UNKNOWN and isinstance(a, ast.Compare) and \
                    len(a.ops) == 1 and type(a.ops[0]) in _COMPLEMENT:
                # `a == b` when the environment speaks of `a != b`
                flipped = ast.Compare(left=a.left, ops=[
                    _COMPLEMENT[type(a.ops[0])]()], comparators=a.comparators)
                k = ' '.join(src(flipped).split())
                if k in cenv:
                    return not bool(cenv[k])
                k2 = _canon_key(f, k)
                if k2 in cenv:
                    return not bool(cenv[k2])
            return r if r is UNKNOWN else bool(r)
        if t[0] == 'not':
            r = ev(t[1])
            return r if r is UNKNOWN else not r
        vals = [ev(k) for k in t[1]]
        if t[0] == 'and':
            if any(x is False for x in vals):
                return False
            return UNKNOWN if any(x is UNKNOWN for x in vals) else True
        if any(x is True for x in vals):
            return True
        return UNKNOWN if any(x is UNKNOWN for x in vals) else False
    try:
        return ev(cond_tree(e, f))
    except (TypeError, ValueError):
        return UNKNOWN


def cond_branches(an, f, match, value):
    """CFG nodes reached when the condition described by `match` evaluates
    to `value`.  `match` is applied to the canonical positive atom of every
    test (see cond_tree): an exact text, a compiled regex or a predicate.
    `x not in y` False and `x in y` True are the same branch; so are a test
    on a local that caches the expression and a test on the expression."""
    import re as _re
    c = an.cfg(f)

    def hit(text):
        if isinstance(match, str):
            return text == _canon_key(f, match)
        if isinstance(match, _re.Pattern):
            return bool(match.search(text))
        return bool(match(text))
    out = []
    for n in c.nodes.values():
        if n.kind != 'test':
            continue
        t = cond_tree(n.ast, f)
        pol = True
        while t[0] == 'not':
            t, pol = t[1], not pol
        if t[0] == 'atom' and hit(t[1]):
            out.extend(c.branch(n, value if pol else not value))
    return out


def eval_test(an, f, e, env):
    """eval_cond, and when a local bound several times keeps it undecided,
    once more with each name replaced by the binding that reaches e."""
    v = eval_cond(f, e, env)
    if v is not UNKNOWN:
        return v
    if not any(isinstance(x, ast.Name) and len(stores_to(f, x.id)) > 1
               for x in ast.walk(e)):
        return v
    try:
        txt = flow_canon(an, f, e)
        return eval_cond(f, _parse_expr(txt), env)
    except (SyntaxError, AnalysisError, KeyError):
        return UNKNOWN


def http_status_of(e):
    """The integer an expression naming an HTTP status stands for: 404,
    HTTPStatus.NOT_FOUND, http.HTTPStatus.NOT_FOUND(.value),
    requests.codes.not_found; None when it is not one."""
    import http
    if isinstance(e, ast.Constant) and isinstance(e.value, int) and \
            not isinstance(e.value, bool):
        return e.value
    d = dotted(e) or ''
    if d.endswith('.value'):
        d = d[:-len('.value')]
    head, _, name = d.rpartition('.')
    if head.endswith('HTTPStatus') and name in http.HTTPStatus.__members__:
        return int(http.HTTPStatus[name])
    if head.endswith('codes') and name.upper() in \
            http.HTTPStatus.__members__:
        return int(http.HTTPStatus[name.upper()])
    return None


def return_exprs_under(an, f, env):
    """The `return` expressions (ast, None for a bare return or falling off
    the end) and ('raise', class) that f can reach when its conditions
    evaluate as env says."""
    c = an.cfg(f)
    out = []
    seen = set()
    stack = [c.entry]
    while stack:
        i = stack.pop()
        if i in seen:
            continue
        seen.add(i)
        n = c.nodes[i]
        if n.kind == 'test':
            v = eval_test(an, f, n.ast, env)
            if v is UNKNOWN:
                stack.extend(s for s in c.succ[i]
                             if (i, s) not in c.exc_edges)
            else:
                stack.extend(c.branch(n, bool(v)))
            continue
        if n.kind == 'return':
            out.append(n.ast.value)
            continue
        if n.kind == 'raise_stmt':
            out.append(('raise', raise_class(an, f, n.ast)))
            continue
        if i == c.exit:
            out.append(None)
            continue
        for s in c.succ[i]:
            if (i, s) not in c.exc_edges:
                stack.append(s)
    return out


def simplify_under(f, e, env):
    """e with the `a or b`, `a and b`, `x if c else y` it contains reduced
    where env decides the operand (a new AST)."""
    import copy

    class T(ast.NodeTransformer):
        def visit_BoolOp(self, node):
            self.generic_visit(node)
            vals = []
            for k, v in enumerate(node.values):
                t = eval_cond(f, v, env)
                last = k == len(node.values) - 1
                if t is UNKNOWN or last:
                    vals.append(v)
                    if t is UNKNOWN:
                        continue
                    break
                if isinstance(node.op, ast.Or) and t:
                    vals.append(v)
                    break
                if isinstance(node.op, ast.And) and not t:
                    vals.append(v)
                    break
                # decided and skipped: a truthy operand of `and`, a falsy
                # one of `or`
            if len(vals) == 1:
                return vals[0]
            return ast.copy_location(ast.BoolOp(op=node.op, values=vals),
                                     node)

        def visit_IfExp(self, node):
            self.generic_visit(node)
            t = eval_cond(f, node.test, env)
            if t is UNKNOWN:
                return node
            return node.body if t else node.orelse
    return T().visit(copy.deepcopy(e))


def returns_under(an, f, env):
    """Set of results f can produce when its conditions evaluate as env
    says (see eval_cond): True / False / None for returned values that can
    be decided, 'unknown' for the others, ('raise', class) for raises."""
    c = an.cfg(f)
    out = set()
    seen = set()
    stack = [c.entry]
    while stack:
        i = stack.pop()
        if i in seen:
            continue
        seen.add(i)
        n = c.nodes[i]
        if n.kind == 'test':
            v = eval_test(an, f, n.ast, env)
            if v is UNKNOWN:
                stack.extend(s for s in c.succ[i]
                             if (i, s) not in c.exc_edges)
            else:
                stack.extend(c.branch(n, bool(v)))
            continue
        if n.kind == 'return':
            if n.ast.value is None:
                out.add(None)
            else:
                v = eval_cond(f, n.ast.value, env)
                out.add('unknown' if v is UNKNOWN else
                        (bool(v) if v is not None else None))
            continue
        if n.kind == 'raise_stmt':
            out.add(('raise', raise_class(an, f, n.ast)))
            continue
        if i == c.exit:
            out.add(None)
            continue
        for s in c.succ[i]:
            if (i, s) not in c.exc_edges:
                stack.append(s)
    return out


def regex_match(f, e, verbs=('match',)):
    """(pattern expr, subject expr) of `re.match(P, S)` or
    `<compiled P>.match(S)` -- the compiled pattern being the
    re.compile(...) call or a local bound to it; None otherwise."""
    if not isinstance(e, ast.Call):
        return None
    d = dotted(e.func)
    if d is not None and d.startswith('re.') and d[3:] in verbs and e.args:
        return e.args[0], (e.args[1] if len(e.args) > 1 else None)
    if isinstance(e.func, ast.Attribute) and e.func.attr in verbs and \
            len(e.args) == 1:
        comp = substitute_locals(f, e.func.value)
        if isinstance(comp, ast.Call) and dotted(comp.func) == 're.compile' \
                and comp.args:
            return comp.args[0], e.args[0]
    return None


def reachable_under(an, f, env):
    """Ids of the CFG nodes f can reach when its conditions evaluate as env
    says (see eval_cond); undecided conditions go both ways."""
    c = an.cfg(f)
    seen = set()
    stack = [c.entry]
    while stack:
        i = stack.pop()
        if i in seen:
            continue
        seen.add(i)
        n = c.nodes[i]
        if n.kind == 'test':
            v = eval_test(an, f, n.ast, env)
            if v is not UNKNOWN:
                stack.extend(c.branch(n, bool(v)))
                continue
        for s in c.succ[i]:
            if (i, s) not in c.exc_edges:
                stack.append(s)
    return seen


# ----------------------------------------------- flow-sensitive substitution
def _pm(f):
    pm = getattr(f, '_pmap', None)
    if pm is None:
        pm = parent_map(f.node)
        f._pmap = pm
    return pm


def reaching_value(an, f, name_node):
    """The expression bound to the local `name_node` (an ast.Name in f) by
    the one assignment that can reach this use; None when several (or no)
    bindings reach it, or the binding has no plain value."""
    c = an.cfg(f)
    pm = _pm(f)
    n = name_node
    use = []
    while n is not None:
        use = c.copies.get(id(n), [])
        if use:
            break
        n = pm.get(n)
    if not use or name_node.id in f.params:
        return None
    defs = stores_to(f, name_node.id)
    if not defs:
        return None
    starts = {}
    for st, val in defs:
        ids = c.copies.get(id(st), [])
        dn = [c.done_node[id(st)]] if id(st) in c.done_node else \
            [i for i in ids if c.nodes[i].kind in ('loop',)]
        starts[id(st)] = (st, val, dn or ids, ids)
    reaching = []
    for key, (st, val, begin, ids) in starts.items():
        blocked = set()
        for k2, (_, _, b2, ids2) in starts.items():
            if k2 != key:
                blocked |= set(b2)
        blocked -= set(use)
        hit = False
        for b in begin:
            if b in use:
                hit = True
                break
            r = c.reachable(start=b, removed=blocked)
            if any(u in r for u in use):
                hit = True
                break
        if hit:
            reaching.append((st, val))
    # a use that no binding reaches through the CFG (dead code) is unknown
    if len(reaching) != 1 or reaching[0][1] is None or \
            isinstance(reaching[0][1], ast.Lambda):
        return None
    return reaching[0][1]


def flow_canon(an, f, e, depth=4):
    """canon() with flow-sensitive replacement of locals: a name bound more
    than once is replaced by the binding that reaches this very use."""
    import copy
    if depth == 0:
        return ' '.join(src(e).split())
    repl = {}
    for x in ast.walk(e):
        if isinstance(x, ast.Name) and isinstance(x.ctx, ast.Load):
            v = reaching_value(an, f, x)
            if v is not None:
                repl[id(x)] = v

    class T(ast.NodeTransformer):
        def visit_Name(self, node):
            v = repl.get(id(node))
            if v is None:
                return node
            # the value's own names are resolved where the value stands
            txt = flow_canon(an, f, v, depth - 1)
            return ast.parse(txt, mode='eval').body
    # the transformer must see the original nodes (ids), so no deepcopy of
    # e before visiting: rebuild instead
    new = T().visit(_clone_keep_ids(e, repl))
    return ' '.join(src(new).split())


def _clone_keep_ids(e, repl):
    """Deep copy of e in which the copies of the names in repl carry the
    original node's id mapping (repl is re-keyed in place)."""
    import copy
    mapping = {}

    def cp(n):
        if isinstance(n, ast.AST):
            new = n.__class__()
            for k, v in ast.iter_fields(n):
                setattr(new, k, cp(v))
            for a in ('lineno', 'col_offset', 'end_lineno',
                      'end_col_offset'):
                if hasattr(n, a):
                    setattr(new, a, getattr(n, a))
            if id(n) in repl:
                mapping[id(new)] = repl[id(n)]
            return new
        if isinstance(n, list):
            return [cp(x) for x in n]
        return n
    out = cp(e)
    repl.update(mapping)
    return out


def iteration_outcomes(an, f, loop, env, marks=None):
    """What one iteration of `loop` can do when its conditions evaluate as
    env says: ('continue',) ('break',) ('end',) ('return',)
    ('raise', class), plus ('mark', label) for every statement node id in
    `marks` ({node id: label}) passed on the way."""
    c = an.cfg(f)
    head = c.stmt_node[id(loop)]
    out = set()
    seen = set()
    stack = [s for s in c.succ[head] if c.nodes[s].kind == 'true']
    marks = marks or {}
    while stack:
        i = stack.pop()
        if i in seen:
            continue
        seen.add(i)
        if i == head:
            out.add(('end',))
            continue
        n = c.nodes[i]
        if i in marks:
            out.add(('mark', marks[i]))
        if n.kind == 'test':
            v = eval_test(an, f, n.ast, env)
            if v is UNKNOWN:
                stack.extend(s for s in c.succ[i]
                             if (i, s) not in c.exc_edges)
            else:
                stack.extend(c.branch(n, bool(v)))
            continue
        if n.kind == 'continue':
            out.add(('continue',))
            continue
        if n.kind == 'break':
            out.add(('break',))
            continue
        if n.kind == 'raise_stmt':
            out.add(('raise', raise_class(an, f, n.ast)))
            continue
        if n.kind == 'return' or i == c.exit:
            out.add(('return',))
            continue
        if not inside(loop, n) and n.ast is not None:
            out.add(('end',))
            continue
        for s in c.succ[i]:
            if (i, s) not in c.exc_edges:
                stack.append(s)
    return out


def kind_env(holder, present):
    """Environment for the three branch kinds of one cascade line:
    `holder` is the text of the mapping ('branch_set'), present maps
    'DevelopmentBranch' / 'StabilizationBranch' / 'HotfixBranch' to a bool.
    Truthiness and None-ness are set consistently."""
    env = {}
    for cls, p in present.items():
        x = '%s[%s]' % (holder, cls)
        env[x] = p
        env[x + ' is None'] = not p
    return env


def literal_text(f, atom, polarity):
    """(canonical positive atom text, polarity) of a decision: `a != b`
    True and `a == b` False are the same literal."""
    if isinstance(atom, str):
        atom = _parse_expr(atom)
    t = cond_tree(atom, f)
    while t[0] == 'not':
        t, polarity = t[1], not polarity
    if t[0] == 'atom':
        return t[1], polarity
    if t[0] in ('or', 'and') and all(k[0] == 'atom' for k in t[1]):
        # membership in a literal tuple: `x in ('a', 'b')`
        return (' %s ' % t[0]).join(sorted(k[1] for k in t[1])), polarity
    # (t already has the leading negations stripped: print that tree)
    return _tree_text(t), polarity


def _tree_text(t):
    if t[0] == 'atom':
        return t[1]
    if t[0] == 'const':
        return str(t[1])
    if t[0] == 'not':
        return 'not (%s)' % _tree_text(t[1])
    return '(%s)' % (' %s ' % t[0]).join(sorted(_tree_text(k) for k in t[1]))


# ------------------------------------------------------- "exists" predicates
def exists_form(an, f):
    """If function f answers "some element x of ITER satisfies C(x)", in any
    of the spellings
        return len([x for x in ITER if C]) > 0      return any(C for x in ITER)
        return K in [E for x in ITER]               (C is E == K)
        for x in ITER: if C: return True ... return False
    return (text of ITER, element variable, C as an AST); else None.
    (`return any(...)` reaches here as a loop: see sa/inline.py.)"""
    body = [st for st in f.node.body
            if not (isinstance(st, ast.Expr) and
                    isinstance(st.value, ast.Constant))]
    # leading `if p is None: p = default` re-bindings of a parameter are
    # part of the iterable's definition, not of the predicate
    # (likewise a local that only renames the parameter: `xs = p`, then the
    # default for xs - what an inlined helper leaves behind)
    alias = {}
    while body and (
            (isinstance(body[0], ast.If) and not body[0].orelse and
             all(isinstance(x, ast.Assign) for x in body[0].body)) or
            (isinstance(body[0], ast.Assign) and len(body[0].targets) == 1
             and isinstance(body[0].targets[0], ast.Name) and
             isinstance(body[0].value, ast.Name) and
             body[0].value.id in f.params and len(body) > 1)):
        if isinstance(body[0], ast.Assign):
            alias[body[0].targets[0].id] = body[0].value.id
        body = body[1:]

    _plain_src = globals()['src']

    def src(e):                 # texts are given in terms of the parameter
        t = _plain_src(e)
        return alias.get(t, t)
    if len(body) == 1 and isinstance(body[0], ast.Return):
        e = body[0].value
        if isinstance(e, ast.Compare) and len(e.ops) == 1:
            a, op, b = e.left, e.ops[0], e.comparators[0]
            if isinstance(op, (ast.Gt, ast.NotEq)) and is_const(b, 0) and \
                    isinstance(a, ast.Call) and src(a.func) == 'len' and \
                    len(a.args) == 1 and isinstance(a.args[0], ast.ListComp):
                lc = a.args[0]
                g = lc.generators[0]
                if len(lc.generators) == 1 and len(g.ifs) == 1 and \
                        src(lc.elt) == src(g.target):
                    return src(g.iter), src(g.target), g.ifs[0]
            if isinstance(op, ast.In) and isinstance(
                    b, (ast.ListComp, ast.GeneratorExp, ast.SetComp)) and \
                    len(b.generators) == 1 and not b.generators[0].ifs:
                g = b.generators[0]
                cond = ast.Compare(left=b.elt, ops=[ast.Eq()],
                                   comparators=[a])
                return src(g.iter), src(g.target), ast.copy_location(cond, e)
        return None
    if len(body) == 2 and isinstance(body[0], ast.For) and \
            isinstance(body[1], ast.Return) and \
            is_const(body[1].value, False) and not body[0].orelse and \
            len(body[0].body) == 1 and isinstance(body[0].body[0], ast.If):
        lp, cond = body[0], body[0].body[0]
        if not cond.orelse and len(cond.body) == 1 and \
                isinstance(cond.body[0], ast.Return) and \
                is_const(cond.body[0].value, True):
            return src(lp.iter), src(lp.target), cond.test
    return None


def value_leaves(f, e, through=(), depth=6, _seen=None):
    """The expressions a value can come from: a local is replaced by each of
    its bindings, a conditional expression by both arms, and the calls named
    in `through` (wrappers that hand their first argument on, e.g. islice,
    list, reversed) by their first argument.  Returns the list of leaf ASTs
    (None for a binding without a value: loop variable, with ... as)."""
    _seen = _seen if _seen is not None else set()
    if depth == 0:
        return [e]
    if isinstance(e, ast.IfExp):
        return value_leaves(f, e.body, through, depth - 1, _seen) + \
            value_leaves(f, e.orelse, through, depth - 1, _seen)
    if isinstance(e, ast.Call) and e.args and \
            (dotted(e.func) or '').rpartition('.')[2] in through:
        return value_leaves(f, e.args[0], through, depth - 1, _seen)
    if isinstance(e, ast.Name) and e.id in _seen:
        return []       # x = wrap(x): nothing new comes from the cycle
    if isinstance(e, ast.Name) and e.id not in f.params:
        binds = stores_to(f, e.id)
        if binds and all(v is None for _, v in binds):
            return [e]      # a loop / with variable: the name is the leaf
        if binds:
            out = []
            for _, v in binds:
                if v is None:
                    out.append(None)
                else:
                    out += value_leaves(f, v, through, depth - 1,
                                        _seen | {e.id})
            return out
    return [e]
