"""Self-validation of the checkers: apply small edits to the in-memory source
map (no scratch copy on disk), re-run one property's rules, and require a
violation for breaking edits ('mutants') and silence for behaviour-preserving
edits ('equivalents').  Used by the thorough tier and by `python -m
sa.selftest` during development."""
import ast
import os
import sys
import time
from concurrent.futures import ProcessPoolExecutor

from .program import Program, AnalysisError, load_sources, list_templates
from .analysis import Analyzer
from .report import Report
from . import mutants as M


HERE = os.path.dirname(os.path.dirname(os.path.abspath(__file__)))


def apply_unified(files, diff):
    """Apply a unified diff to {path: text} in memory (exact context match at
    or near the stated line); returns the new map or None if a hunk does not
    apply.  Paths missing from `files` make the patch inapplicable."""
    out = dict(files)
    path = None
    hunks = []
    cur = None
    for line in diff.splitlines():
        if line.startswith('+++ '):
            path = line[4:].strip()
            path = path[2:] if path.startswith(('a/', 'b/')) else path
            hunks.append((path, []))
        elif line.startswith('--- ') or line.startswith('diff ') or \
                line.startswith('index '):
            cur = None
        elif line.startswith('@@') and hunks:
            try:
                start = int(line.split('-')[1].split(',')[0].split()[0])
            except (IndexError, ValueError):
                return None
            cur = {'start': start, 'old': [], 'new': []}
            hunks[-1][1].append(cur)
        elif cur is not None:
            if line.startswith('\\'):
                continue
            tag, body = (line[:1], line[1:]) if line else (' ', '')
            if tag in (' ', '-'):
                cur['old'].append(body)
            if tag in (' ', '+'):
                cur['new'].append(body)
    for path, hs in hunks:
        if path not in out:
            return None
        lines = out[path].split('\n')
        shift = 0
        for h in hs:
            at = h['start'] - 1 + shift
            n = len(h['old'])
            found = None
            for delta in sorted(range(-60, 61), key=abs):
                i = at + delta
                if 0 <= i <= len(lines) - n and lines[i:i + n] == h['old']:
                    found = i
                    break
            if found is None:
                return None
            lines[found:found + n] = h['new']
            shift += len(h['new']) - n + (found - at)
        out[path] = '\n'.join(lines)
    return out


def corpus(kind):
    """[(name, diff text, meta)] of the committed corpora: 'seeded'
    (confirmed breaking changes) or 'benign' (behaviour-preserving
    refactors)."""
    import glob
    import json
    out = []
    if kind == 'seeded':
        for d in sorted(glob.glob(os.path.join(HERE, 'seeded', '*', ''))):
            try:
                meta = json.load(open(os.path.join(d, 'meta.json')))
                diff = open(os.path.join(d, 'patch.diff')).read()
            except OSError:
                continue
            out.append((meta['name'], diff, meta))
    else:
        for f in sorted(glob.glob(os.path.join(HERE, 'benign', '*.diff'))):
            out.append((os.path.basename(f)[:-5], open(f).read(), {}))
    return out


def apply_edit(sources, edit):
    """edit: dict(path, old, new[, count]) textual, old must occur exactly
    `count` (default 1) times; returns new sources or None if inapplicable."""
    if 'diff' in edit:
        new = apply_unified(sources, edit['diff'])
        if new is None:
            return None
        for p_, t_ in new.items():
            if p_.endswith('.py') and t_ is not sources.get(p_):
                try:
                    compile(t_, p_, 'exec', dont_inherit=True)
                except SyntaxError:
                    return None
        return new
    if edit.get('transform') == 'ast-roundtrip':
        # whole-tree reformat: comments dropped, layout normalised
        return {p: ast.unparse(ast.parse(t)) for p, t in sources.items()}
    if edit.get('transform') in TRANSFORMS:
        out = {}
        for p, t in sources.items():
            tree = ast.parse(t)
            TRANSFORMS[edit['transform']](tree)
            ast.fix_missing_locations(tree)
            out[p] = ast.unparse(tree)
        return out
    src = dict(sources)
    edits = edit['edits'] if 'edits' in edit else [edit]
    for e in edits:
        text = src.get(e['path'])
        if text is None:
            return None
        cnt = text.count(e['old'])
        if cnt != e.get('count', 1):
            return None
        text = text.replace(e['old'], e['new'])
        try:
            compile(text, e['path'], 'exec', dont_inherit=True)
        except SyntaxError:
            return None
        src[e['path']] = text
    return src


def _alpha_rename(tree):
    """Every local variable of every function gets another name (parameters,
    globals, names of nested functions / classes / imports and names that
    are read as free variables by a nested function stay)."""
    import builtins

    class R(ast.NodeTransformer):
        def __init__(self, mapping):
            self.m = mapping

        def visit_Name(self, node):
            if node.id in self.m:
                node.id = self.m[node.id]
            return node

        def visit_ExceptHandler(self, node):
            if node.name in self.m:
                node.name = self.m[node.name]
            return self.generic_visit(node)

    def scope_nodes(fn):
        """Nodes of fn's own scope (nested functions / lambdas / classes are
        other scopes; comprehensions are walked: their targets are renamed
        consistently anyway)."""
        stack = list(ast.iter_child_nodes(fn))
        while stack:
            n = stack.pop()
            yield n
            if isinstance(n, (ast.FunctionDef, ast.AsyncFunctionDef,
                              ast.Lambda, ast.ClassDef)):
                continue
            stack.extend(ast.iter_child_nodes(n))

    for fn in [n for n in ast.walk(tree)
               if isinstance(n, (ast.FunctionDef, ast.AsyncFunctionDef))]:
        own = list(scope_nodes(fn))
        if any(isinstance(n, (ast.FunctionDef, ast.AsyncFunctionDef,
                              ast.Lambda, ast.ClassDef, ast.Global,
                              ast.Nonlocal)) for n in own):
            continue        # closures: free variables must keep their name
        if any(isinstance(n, ast.Call) and isinstance(n.func, ast.Name) and
               n.func.id in ('locals', 'vars', 'eval', 'exec')
               for n in own):
            continue
        params = {a.arg for a in ast.walk(fn.args) if isinstance(a, ast.arg)}
        stored = {n.id for n in own if isinstance(n, ast.Name) and
                  isinstance(n.ctx, (ast.Store, ast.Del))}
        stored |= {n.name for n in own if isinstance(n, ast.ExceptHandler)
                   and n.name}
        imported = {(a.asname or a.name).split('.')[0] for n in own
                    if isinstance(n, (ast.Import, ast.ImportFrom))
                    for a in n.names}
        names = stored - params - imported - set(dir(builtins))
        used = {n.id for n in own if isinstance(n, ast.Name)} | params
        mapping = {}
        for nm in sorted(names):
            new = nm + '_v'
            while new in used or new in mapping.values():
                new += '_'
            mapping[nm] = new
        if mapping:
            r = R(mapping)
            fn.body = [r.visit(st) for st in fn.body]


def _swap_else(tree):
    """`if c: A else: B` (not an elif chain) becomes `if not c: B else: A`."""
    class S(ast.NodeTransformer):
        def visit_If(self, node):
            self.generic_visit(node)
            if node.orelse and not (len(node.orelse) == 1 and
                                    isinstance(node.orelse[0], ast.If)) \
                    and not (len(node.body) == 1 and
                             isinstance(node.body[0], ast.If)):
                t = node.test
                node.test = t.operand if isinstance(t, ast.UnaryOp) and \
                    isinstance(t.op, ast.Not) else \
                    ast.UnaryOp(op=ast.Not(), operand=t)
                node.body, node.orelse = node.orelse, node.body
            return node
    S().visit(tree)


TRANSFORMS = {'alpha-rename-locals': _alpha_rename,
              'swap-if-else': _swap_else}


def run_one(args):
    sources, templates, pid, edit = args
    import importlib
    if 'diff' in edit:
        # a patch may touch a comment template as well as the sources
        tpl = {'bert_e/templates/' + k: v for k, v in templates.items()}
        merged = dict(sources)
        merged.update(tpl)
        allm = apply_edit(merged, edit)
        if allm is None:
            return (edit['name'], 'inapplicable', [])
        msrc = {k: v for k, v in allm.items() if k in sources}
        templates = {k[len('bert_e/templates/'):]: v
                     for k, v in allm.items() if k in tpl}
    else:
        msrc = apply_edit(sources, edit)
    if msrc is None:
        return (edit['name'], 'inapplicable', [])
    try:
        prog = Program(msrc, templates)
        an = Analyzer(prog)
        rep = Report(pid, 'quick', quiet=True)
        mod = importlib.import_module('sa.props.%s' % pid.lower())
        mod.run(prog, an, rep)
        new, matched = rep.split_known()
        if not new and rep.errors:
            return (edit['name'], 'analysis-error', rep.errors[:2])
        return (edit['name'], 'violation' if new else 'silent',
                [v.rule for v in new][:5])
    except AnalysisError as err:
        return (edit['name'], 'analysis-error', [str(err)[:200]])
    except Exception as err:  # pragma: no cover
        import traceback
        return (edit['name'], 'crash', [traceback.format_exc()[-600:]])


def run_suite(pid, sources, templates, jobs=16, corpora=False):
    todo = [m for m in M.MUTANTS if m['pid'] == pid]
    eq = [m for m in M.EQUIVALENTS if pid in m.get('pids', [pid])]
    eq.append({'name': 'ast-roundtrip-of-every-module',
               'transform': 'ast-roundtrip', 'pids': [pid]})
    for tname in sorted(TRANSFORMS):
        eq.append({'name': tname + '-in-every-function', 'transform': tname,
                   'pids': [pid]})
    if corpora:
        # the committed corpora written by independent sub-agents: seeded
        # breaking changes this property's check is on record as catching,
        # and every behaviour-preserving refactor
        for name, diff, meta in corpus('seeded'):
            if pid in meta.get('detected_now_by', []):
                todo.append({'name': 'seeded/' + name, 'pid': pid,
                             'diff': diff})
        for name, diff, _ in corpus('benign'):
            eq.append({'name': 'benign/' + name, 'diff': diff,
                       'pids': [pid]})
    work = [(sources, templates, pid, e) for e in todo + eq]
    if not work:
        return [], []
    if jobs > 1 and len(work) > 2:
        with ProcessPoolExecutor(max_workers=min(jobs, len(work))) as ex:
            res = list(ex.map(run_one, work))
    else:
        res = [run_one(w) for w in work]
    return list(zip(todo, res[:len(todo)])), list(zip(eq, res[len(todo):]))


def validate_regex_engine(prog, seed=0, per_pattern=4000):
    """Self-validation of sa.regexlang (not of bert-e): every regular
    expression constant of the analysed tree that the engine accepts is
    compared with Python's own `re.match` on random strings over the
    engine's alphabet.  Returns (patterns, strings, mismatches)."""
    import random
    import re
    from .regexlang import Lang, ALPHABET
    pats = set()
    for m in prog.modules.values():
        for n in ast.walk(m.tree):
            if isinstance(n, ast.Constant) and isinstance(n.value, str) and \
                    len(n.value) > 3 and any(ch in n.value
                                             for ch in '\\^$+*?('):
                try:
                    re.compile(n.value)
                except re.error:
                    continue
                pats.add(n.value)
    from .analysis import class_const
    for c in prog.classes.values():
        if 'pattern' in c.attrs:
            try:
                pats.add(class_const(prog, c, 'pattern'))
            except AnalysisError:
                pass
    rnd = random.Random(seed)
    tried = strings = 0
    bad = []
    chars = 'abdefghilmnoprstuvwxqz/.-_0159=A,+é٣€'
    for p in sorted(pats):
        try:
            lang = Lang.from_regex(p)
        except AnalysisError:
            continue
        tried += 1
        # seeds close to the language: mutate the shortest witness
        w = lang.witness() or ''
        for _ in range(per_pattern):
            if w and rnd.random() < 0.5:
                s = list(w)
                for _k in range(rnd.randint(0, 3)):
                    pos = rnd.randint(0, len(s))
                    op = rnd.random()
                    if op < 0.4 and s:
                        s[min(pos, len(s) - 1)] = rnd.choice(chars)
                    elif op < 0.7:
                        s.insert(pos, rnd.choice(chars))
                    elif s:
                        del s[min(pos, len(s) - 1)]
                s = ''.join(s)
            else:
                s = ''.join(rnd.choice(chars)
                            for _ in range(rnd.randint(0, 16)))
            strings += 1
            if bool(re.match(p, s)) != lang.accepts(s):
                bad.append((p, s))
    return tried, strings, bad


def run_for(pid, prog, rep):
    """Thorough tier: record mutant / equivalent results in the evidence."""
    if pid in ('C18', 'C11', 'C14', 'C07'):
        seed = int(os.environ.get('VERIF_SEED', '0') or 0)
        n, k, bad = validate_regex_engine(prog, seed)
        rep.extra['regex_engine_validation'] = {
            'patterns': n, 'strings': k, 'mismatches': len(bad),
            'rule': 'sa.regexlang vs re.match on random strings (engine '
                    'self-test, not a verdict about bert-e)'}
        rep.evaluated(k)
        if bad:
            raise AnalysisError('regex engine disagrees with re.match on '
                                '%r for %r' % (bad[0][1], bad[0][0]))
    mres, eres = run_suite(pid, prog.sources, prog.templates, corpora=True)
    killed = [m['name'] for m, r in mres if r[1] == 'violation']
    missed = [m['name'] for m, r in mres
              if r[1] in ('silent', 'analysis-error', 'crash')]
    inapp = [m['name'] for m, r in mres if r[1] == 'inapplicable']
    noisy = [m['name'] for m, r in eres if r[1] not in ('silent',
                                                        'inapplicable')]
    rep.extra['selftest'] = {
        'mutants': len(mres), 'killed': len(killed), 'missed': missed,
        'inapplicable': inapp, 'equivalents': len(eres),
        'equivalents_flagged': noisy,
        'rule': 'each mutant is a one-site edit of the current sources that '
                'still compiles; killed = the property check reports a '
                'violation on it; equivalents must stay silent.  Includes '
                'the committed corpora seeded/ (as mutants) and benign/ (as '
                'equivalents), applied in memory; a patch that no longer '
                'applies to the current tree is counted inapplicable'}
    rep.evaluated(len(mres) + len(eres))
    for name in missed:
        rep.note('SELFTEST-MISS mutant %s not detected' % name)
    for name in noisy:
        rep.note('SELFTEST-NOISE equivalent edit %s flagged' % name)


def main(argv):
    root = os.environ.get('VERIF_REPO', '/repo')
    corpora = '--corpora' in argv
    argv = [a for a in argv if a != '--corpora']
    pids = [a.upper() for a in argv] or sorted({m['pid'] for m in M.MUTANTS})
    sources = load_sources(root)
    templates = list_templates(root)
    bad = 0
    t0 = time.time()
    for pid in pids:
        mres, eres = run_suite(pid, sources, templates, corpora=corpora)
        for m, r in mres:
            status = r[1]
            flag = 'ok  ' if status == 'violation' else 'MISS'
            if status == 'inapplicable':
                flag = 'n/a '
            if flag == 'MISS':
                bad += 1
            print('%s %s %-44s %s %s' % (flag, pid, m['name'], status,
                                         ','.join(r[2])[:150]))
        for m, r in eres:
            status = r[1]
            flag = 'ok  ' if status in ('silent',) else 'NOISE'
            if status == 'inapplicable':
                flag = 'n/a '
            if flag == 'NOISE':
                bad += 1
            print('%s %s %-44s %s %s' % (flag, pid, 'EQ:' + m['name'],
                                         status, ','.join(r[2])[:150]))
    print('selftest: %d problem(s) in %.1fs' % (bad, time.time() - t0))
    return 1 if bad else 0


if __name__ == '__main__':
    sys.exit(main(sys.argv[1:]))
