"""Whole-program facts on top of Program + CFG: CFG cache, noreturn
fixpoint, call graph, may-call / must-call summaries, and the rule helpers
(must-pass-through, call-site matching) used by the property checks."""
import ast
import re

from .program import AnalysisError, walk_local, dotted, FuncInfo
from .cfg import CFG, node_contains_call, local_nodes


def src(node):
    try:
        return ast.unparse(node)
    except Exception:  # pragma: no cover
        return '<?>'


class Spec:
    """A callee specification.

    Spec.func(qname)            exact internal function (anchor must exist
                                unless optional=True)
    Spec.method(name, recv=re)  attribute call .name(...) whose receiver
                                source text matches the regex (None = any)
    Spec.ext(dotted)            external / builtin callee
    Spec.pred(fn, label)        arbitrary predicate(func, call)
    """

    def __init__(self, kind, value, recv=None, label=None):
        self.kind = kind
        self.value = value
        self.recv = re.compile(recv) if isinstance(recv, str) else recv
        self.label = label or (value if isinstance(value, str) else kind)

    @classmethod
    def func(cls, qname):
        return cls('func', qname)

    @classmethod
    def method(cls, name, recv=None):
        return cls('method', name, recv,
                   label='.%s()' % name if recv is None else
                   '%s.%s()' % (recv if isinstance(recv, str)
                                else recv.pattern, name))

    @classmethod
    def ext(cls, name):
        return cls('ext', name)

    @classmethod
    def pred(cls, fn, label):
        return cls('pred', fn, label=label)

    def __repr__(self):
        return 'Spec(%s)' % self.label


class Analyzer:
    def __init__(self, prog):
        self.prog = prog
        self._cfg = {}
        self._callees = {}
        self._may = {}
        self.noreturn = frozenset()
        self._compute_noreturn()

    # ------------------------------------------------------------------ cfg
    def cfg(self, f):
        if isinstance(f, str):
            f = self.prog.func(f)
        c = self._cfg.get(f.qname)
        if c is None:
            c = CFG(f, self.prog, self.noreturn)
            self._cfg[f.qname] = c
        return c

    def _compute_noreturn(self):
        nr = frozenset()
        for _ in range(8):
            self.noreturn = nr
            self._cfg = {}
            new = set()
            for f in self.prog.funcs.values():
                if isinstance(f.node, ast.Lambda):
                    continue
                if is_generator(f):
                    continue
                c = self.cfg(f)
                if not c.normal_exit_reachable():
                    # functions whose body is only `raise NotImplementedError`
                    # or `pass` are abstract stubs, not noreturn gates
                    if is_abstract_stub(f):
                        continue
                    new.add(f.qname)
            new = frozenset(new)
            if new == nr:
                break
            nr = new
        self.noreturn = nr
        self._cfg = {}

    # ----------------------------------------------------------- call graph
    def callees(self, f):
        """Set of internal function qnames f may call directly (class
        constructors map to their __init__; method-by-name calls map to every
        method of that name)."""
        if f.qname in self._callees:
            return self._callees[f.qname]
        out = set()
        called = set()
        for call in self.prog.calls_in(f):
            out |= self.call_targets(f, call)
            called.add(id(call.func))
        # function values passed around (retry.run(repo.push_all, ...),
        # Thread(target=worker), map(f, xs)): may-call edges as well
        for call in self.prog.calls_in(f):
            for a in list(call.args) + [k.value for k in call.keywords]:
                if id(a) in called:
                    continue
                if isinstance(a, ast.Name):
                    q = self.prog.resolve_dotted(f.module, a.id, f)
                    if q in self.prog.funcs:
                        out.add(q)
                elif isinstance(a, ast.Attribute):
                    q = self.prog.resolve_expr(f.module, a, f)
                    if q in self.prog.funcs:
                        out.add(q)
                    elif q is None:
                        for m in self.prog.methods_named(a.attr):
                            if m.module.name != 'bert_e.git_host.mock' and \
                                    not is_property(m):
                                out.add(m.qname)
        self._callees[f.qname] = out
        return out

    def call_targets(self, f, call):
        c = self.prog.callee(f, call)
        out = set()
        if c[0] == 'func':
            out.add(c[1])
            tgt = self.prog.funcs[c[1]]
            # virtual dispatch: overriding methods in subclasses
            if tgt.cls is not None and isinstance(call.func, ast.Attribute):
                for k in self.prog.subclasses(tgt.cls.qname, strict=True):
                    if tgt.name in k.methods:
                        out.add(k.methods[tgt.name].qname)
        elif c[0] == 'class':
            init = self.prog.lookup_method(self.prog.classes[c[1]],
                                           '__init__')
            if init is not None:
                out.add(init.qname)
        elif c[0] == 'method':
            # by-name over-approximation, minus two frozen facts:
            # (1) code of the git_host package never holds local git
            # objects (its interfaces take and return strings / host
            # objects only; bitbucket and github import nothing from
            # bert_e.lib.git);
            # (2) bert_e.git_host.mock is the in-memory test double of a git
            # host (selected only by repository_host == 'mock'); it keeps a
            # fake remote with local git commands and is not a candidate
            # implementation when effects of the robot are summarised.
            host_caller = f.module.name.startswith('bert_e.git_host')
            allowed = byname_filter(c[1], src(c[2]))
            for m in self.prog.methods_named(c[1]):
                if allowed is not None and m.cls.name not in allowed:
                    continue
                if m.module.name == 'bert_e.git_host.mock' and \
                        f.module.name != 'bert_e.git_host.mock':
                    continue
                if host_caller and (
                        m.module.name == 'bert_e.lib.git' or
                        m.module.name.endswith('gitwaterflow.branches')):
                    continue
                out.add(m.qname)
            # properties are not calls; module-level functions of that name
            # are not reachable through an attribute call on a value
        # nested functions defined in f and passed around / called
        return out

    def may_reach(self, f, pred_func, depth=6):
        """Does f transitively call a function g with pred_func(g)?"""
        seen = set()
        stack = [(f.qname, 0)]
        while stack:
            q, d = stack.pop()
            if q in seen:
                continue
            seen.add(q)
            g = self.prog.funcs.get(q)
            if g is None:
                continue
            if d > 0 and pred_func(g):
                return True
            if d >= depth:
                continue
            for nq in self.callees(g):
                stack.append((nq, d + 1))
            for nf in g.nested.values():
                stack.append((nf.qname, d + 1))
        return False

    # ------------------------------------------------------- call matching
    def resolve_spec(self, spec):
        """For func specs: the FuncInfo (anchor lookup by qname, then by
        unique simple name).  Returns None if it does not exist."""
        if spec.kind != 'func':
            return None
        return self.prog.func(spec.value, required=False)

    def call_matches(self, f, call, spec):
        if spec.kind == 'pred':
            return bool(spec.value(f, call))
        c = self.prog.callee(f, call)
        if spec.kind == 'func':
            tgt = self.resolve_spec(spec)
            if tgt is None:
                return False
            if c[0] == 'func':
                if c[1] == tgt.qname:
                    return True
                # call through a base-class method that tgt overrides, or
                # vice versa, is not the same gate
                return False
            if c[0] == 'method' and tgt.cls is not None:
                return c[1] == tgt.name
            return False
        if spec.kind == 'method':
            if c[0] == 'method' and c[1] == spec.value:
                if spec.recv is None:
                    return True
                return bool(spec.recv.search(src(c[2])))
            if c[0] in ('func', 'ext') and \
                    isinstance(call.func, ast.Attribute) and \
                    call.func.attr == spec.value:
                # attribute call on a module-level object of a library
                # (flask.current_app.bert_e.put_job) or an exactly resolved
                # method
                if spec.recv is None:
                    return True
                return bool(spec.recv.search(src(call.func.value)))
            return False
        if spec.kind == 'ext':
            return c[0] == 'ext' and c[1] == spec.value
        return False

    def direct_calls(self, f, spec):
        return [c for c in self.prog.calls_in(f)
                if self.call_matches(f, c, spec)]

    def must_call(self, f, spec, depth):
        """Every normal return of f has passed a completed call matching
        spec (directly or through helpers, bounded depth)."""
        key = ('must', f.qname, id(spec), depth)
        if key in self._may:
            return self._may[key]
        self._may[key] = False  # recursion guard
        c = self.cfg(f)
        gates = self.gate_nodes(f, spec, depth)
        ok = False
        if gates:
            ok, _ = c.must_pass(gates, c.exit)
            if c.exit not in c.reachable():
                ok = False  # a noreturn helper is not a gate
        self._may[key] = ok
        return ok

    def gate_nodes(self, f, spec, depth=2):
        """'done' nodes (normal completion) of statements in f that contain
        a call matching spec, or a call to a helper that must-call spec."""
        c = self.cfg(f)

        def pred(call):
            if self.call_matches(f, call, spec):
                return True
            if depth > 0:
                cal = self.prog.callee(f, call)
                if cal[0] == 'func':
                    h = self.prog.funcs[cal[1]]
                    if h.qname != f.qname and not is_generator(h) and \
                            self.must_call(h, spec, depth - 1):
                        return True
            return False

        out = []
        for n in c.stmt_nodes_where(lambda a: node_contains_call(a, pred)):
            out.extend(c.done_of(n))
        return out

    def target_nodes(self, f, spec, depth=2):
        """Begin nodes of statements in f containing a call matching spec or
        a call to a helper that may transitively reach such a call."""
        c = self.cfg(f)

        def reaches(h):
            return bool(self.direct_calls(h, spec))

        def pred(call):
            if self.call_matches(f, call, spec):
                return True
            if depth > 0:
                cal = self.prog.callee(f, call)
                if cal[0] == 'func':
                    h = self.prog.funcs[cal[1]]
                    if h.qname != f.qname and (
                            reaches(h) or
                            self.may_reach(h, reaches, depth - 1)):
                        return True
            return False

        return c.stmt_nodes_where(lambda a: node_contains_call(a, pred))

    def test_nodes(self, f, pred, expand='paths'):
        """'test' nodes of f's CFG whose atomic condition satisfies pred.
        A condition on a local that caches an access path (x = a.b; if x:)
        is a condition on that path; expand='all' also looks through locals
        bound to any expression, expand=None switches this off."""
        c = self.cfg(f)
        from .rules import substitute_locals

        def matches(n):
            e = n.ast
            if pred(e):
                return n
            # a condition on a local that caches an expression is a
            # condition on that expression
            if expand and any(isinstance(x, ast.Name) for x in ast.walk(e)):
                e2 = substitute_locals(f, e, paths_only=expand != 'all')
                if src(e2) != src(e):
                    try:
                        if pred(e2):
                            import copy
                            n2 = copy.copy(n)
                            n2.matched = e2  # what the predicate accepted
                            return n2
                    except (AttributeError, IndexError, TypeError):
                        return None
            return None
        out = []
        for n in c.nodes.values():
            if n.kind == 'test':
                m = matches(n)
                if m is not None:
                    out.append(m)
        return out

    def branch_nodes(self, f, pred, value, expand='paths'):
        """CFG nodes reached when a test satisfying pred evaluates to value.
        The predicate is tried on the test as written and on its equivalent
        spellings: operands of a comparison swapped, the comparison negated
        (`a != b` False is `a == b` True: the branch is inverted), a local
        that caches an access path replaced by that path."""
        c = self.cfg(f)
        from .rules import substitute_locals
        out = []
        for n in c.nodes.values():
            if n.kind != 'test':
                continue
            bases = [n.ast]
            if isinstance(n.ast, ast.NamedExpr):
                bases.append(n.ast.value)   # `if (m := f(x)):` tests f(x)
            if expand and any(isinstance(x, ast.Name)
                              for x in ast.walk(n.ast)):
                e2 = substitute_locals(f, n.ast,
                                       paths_only=expand != 'all')
                if src(e2) != src(n.ast):
                    bases.append(e2)
            done = False
            for b in bases:
                for form, pol in _spellings(b):
                    try:
                        hit = pred(form)
                    except (AttributeError, IndexError, TypeError):
                        hit = False
                    if hit:
                        out.extend(c.branch(n, value if pol else not value))
                        done = True
                        break
                if done:
                    break
        return out


_FLIP = {ast.Eq: ast.NotEq, ast.NotEq: ast.Eq, ast.In: ast.NotIn,
         ast.NotIn: ast.In, ast.Is: ast.IsNot, ast.IsNot: ast.Is,
         ast.Lt: ast.GtE, ast.GtE: ast.Lt, ast.Gt: ast.LtE, ast.LtE: ast.Gt}
_SWAP = {ast.Eq: ast.Eq, ast.NotEq: ast.NotEq, ast.Lt: ast.Gt,
         ast.Gt: ast.Lt, ast.LtE: ast.GtE, ast.GtE: ast.LtE}


def _spellings(e):
    """(equivalent form, polarity) of a test atom: polarity False means the
    form is the negation of e."""
    yield e, True
    if not (isinstance(e, ast.Compare) and len(e.ops) == 1):
        return
    op = type(e.ops[0])
    a, b = e.left, e.comparators[0]

    def mk(o, x, y):
        return ast.copy_location(ast.Compare(left=x, ops=[o()],
                                             comparators=[y]), e)
    if op in _FLIP:
        yield mk(_FLIP[op], a, b), False
    if op in _SWAP:
        yield mk(_SWAP[op], b, a), True
        if _SWAP[op] in _FLIP:
            yield mk(_FLIP[_SWAP[op]], b, a), False


# (3) method names shared with builtin containers / third-party objects: the
# receiver decides.  Frozen table, read off every call site of these names
# on the pinned tree (receivers not listed are dicts, lists, strings,
# requests sessions, marshmallow schemas, queue.Queue, Flask app).
_BYNAME = {
    'get': [(r'(BUILD_STATUS_CACHE|query_cache)\[', {'LRUCache'}),
            (r'(^|\.)client$', {'Client'}),
            (r'(^|\.)settings$', {'SettingsDict'})],
    'set': [(r'(BUILD_STATUS_CACHE|query_cache)\[', {'LRUCache'})],
    'update': [(r'(^|\.)settings$', {'SettingsDict'})],
    'setdefault': [(r'(^|\.)settings$', {'SettingsDict'})],
    'validate': [(r'cascade|queue', {'BranchCascade', 'QueueCollection'})],
    'load': [],
    'lower': [],
    'put': [(r'(^|\.)client$', {'Client'})],
    'post': [(r'(^|\.)client$', {'Client'})],
    'delete': [(r'queue', {'QueueCollection'}),
               (r'(^|\.)client$', {'Client'}),
               (r'^(repo|webhook|comment)$',
                {'BitBucketObject', 'AbstractComment', 'Comment',
                 'Repository', 'AbstractGitHostObject'})],
    'remove': [(r'^prs$', set())],   # list.remove in QueueCollection
    'pop': [], 'items': [], 'keys': [], 'values': [], 'append': [],
    'add': [], 'format': [], 'split': [], 'join': [], 'strip': [],
    'index': [], 'sort': [], 'clear': [], 'copy': [], 'extend': [],
    'insert': [], 'encode': [], 'decode': [], 'replace': [],
}
_BYNAME_DEFAULT_ALL = {'remove'}   # unlisted receivers: every definition


def byname_filter(name, recv):
    """None = no restriction; else the set of class names that may define
    the by-name target for this receiver text."""
    rules = _BYNAME.get(name)
    if rules is None:
        return None
    for rx, classes in rules:
        if re.search(rx, recv):
            return classes
    return None if name in _BYNAME_DEFAULT_ALL else set()


def is_property(f):
    for d in f.decorators:
        dd = dotted(d) or ''
        if dd == 'property' or dd.endswith('.setter') or \
                dd.endswith('.getter'):
            return True
    return False


def is_generator(f):
    for n in walk_local(f.node, include_root=False):
        if isinstance(n, (ast.Yield, ast.YieldFrom)):
            return True
    return False


def is_abstract_stub(f):
    body = [s for s in f.node.body
            if not (isinstance(s, ast.Expr) and
                    isinstance(s.value, ast.Constant))]
    if not body:
        return True
    if len(body) == 1 and isinstance(body[0], ast.Raise):
        e = body[0].exc
        d = dotted(e.func) if isinstance(e, ast.Call) else dotted(e)
        if d and d.endswith('NotImplementedError'):
            return True
    for d in f.decorators:
        if (dotted(d) or '').endswith('abstractmethod'):
            return True
    return False


# ------------------------------------------------------------ expr helpers
def names_in(node):
    return {n.id for n in ast.walk(node) if isinstance(n, ast.Name)}


def attr_chains(node):
    """All dotted Name/Attribute chains (maximal) in an expression."""
    out = []

    def visit(n):
        d = dotted(n)
        if d is not None:
            out.append(d)
            return
        for ch in ast.iter_child_nodes(n):
            visit(ch)
    visit(node)
    return out


class _Missing:
    pass


MISSING = _Missing()


_PURE_FOLD = {'enumerate': enumerate, 'zip': zip, 'range': range,
              'reversed': reversed, 'len': len, 'tuple': tuple, 'list': list,
              'dict': dict, 'set': set, 'frozenset': frozenset,
              'sorted': sorted, 'min': min, 'max': max, 'sum': sum,
              'str': str, 'int': int}


def const_value(node, env=None):
    """Fold a constant expression.  Raises AnalysisError if not constant.
    env: callable(name_or_dotted) -> ast expr or python value or None."""
    if isinstance(node, ast.Constant):
        return node.value
    if isinstance(node, (ast.Tuple, ast.List)):
        vals = [const_value(e, env) for e in node.elts]
        return tuple(vals) if isinstance(node, ast.Tuple) else vals
    if isinstance(node, ast.Set):
        return {const_value(e, env) for e in node.elts}
    if isinstance(node, ast.Dict):
        return {const_value(k, env): const_value(v, env)
                for k, v in zip(node.keys, node.values)}
    if isinstance(node, ast.JoinedStr):
        out = ''
        for v in node.values:
            if isinstance(v, ast.Constant):
                out += v.value
            else:
                out += str(const_value(v.value, env))
        return out
    if isinstance(node, ast.BinOp):
        left = const_value(node.left, env)
        right = const_value(node.right, env)
        if isinstance(node.op, ast.Add):
            return left + right
        if isinstance(node.op, ast.Mod):
            return left % right
        if isinstance(node.op, ast.Mult):
            return left * right
        if isinstance(node.op, ast.Sub):
            return left - right
    if isinstance(node, ast.UnaryOp):
        v = const_value(node.operand, env)
        if isinstance(node.op, ast.USub):
            return -v
        if isinstance(node.op, ast.Not):
            return not v
    if isinstance(node, ast.Subscript):
        base = const_value(node.value, env)
        sl = node.slice
        if isinstance(sl, ast.Slice):
            lo = const_value(sl.lower, env) if sl.lower else None
            hi = const_value(sl.upper, env) if sl.upper else None
            st = const_value(sl.step, env) if sl.step else None
            return base[lo:hi:st]
        return base[const_value(sl, env)]
    if isinstance(node, ast.Call) and isinstance(node.func, ast.Name) and \
            node.func.id in _PURE_FOLD and not node.keywords and \
            not any(isinstance(a, ast.Starred) for a in node.args):
        args = [const_value(a, env) for a in node.args]
        try:
            v = _PURE_FOLD[node.func.id](*args)
        except Exception as err:
            raise AnalysisError('fold-failure: %s (%s)' % (src(node), err))
        return list(v) if node.func.id in ('enumerate', 'zip', 'range',
                                           'reversed') else v
    if isinstance(node, ast.DictComp) and \
            not any(g.is_async for g in node.generators):
        pairs = const_value(ast.ListComp(
            elt=ast.Tuple(elts=[node.key, node.value], ctx=ast.Load()),
            generators=node.generators), env)
        return dict(pairs)
    if isinstance(node, ast.Call) and isinstance(node.func, ast.Attribute):
        if node.func.attr == 'join' and len(node.args) == 1:
            sep = const_value(node.func.value, env)
            return sep.join(const_value(node.args[0], env))
        if node.func.attr == 'format':
            fmt = const_value(node.func.value, env)
            args = [const_value(a, env) for a in node.args]
            kw = {k.arg: const_value(k.value, env) for k in node.keywords}
            return fmt.format(*args, **kw)
    if isinstance(node, (ast.GeneratorExp, ast.ListComp, ast.SetComp)) and \
            not any(g.is_async for g in node.generators):
        out = []

        def scoped(bound):
            def look(d):
                if d in bound:
                    return bound[d]
                return env(d) if env is not None else MISSING
            return look

        def bind(target, value, bound):
            if isinstance(target, ast.Name):
                bound[target.id] = value
            elif isinstance(target, (ast.Tuple, ast.List)) and \
                    len(target.elts) == len(value):
                for t, v in zip(target.elts, value):
                    bind(t, v, bound)
            else:
                raise AnalysisError('fold-failure: %s' % src(node))

        def rec(i, bound):
            if i == len(node.generators):
                out.append(const_value(node.elt, scoped(bound)))
                return
            g = node.generators[i]
            for v in const_value(g.iter, scoped(bound)):
                b = dict(bound)
                bind(g.target, v, b)
                if all(const_value(c, scoped(b)) for c in g.ifs):
                    rec(i + 1, b)
        rec(0, {})
        return set(out) if isinstance(node, ast.SetComp) else out
    if isinstance(node, (ast.Name, ast.Attribute)) and env is not None:
        d = dotted(node)
        if d is not None:
            v = env(d)
            if isinstance(v, ast.AST):
                return const_value(v, env)
            if v is not MISSING:
                return v
    raise AnalysisError('fold-failure: %s' % src(node))


def class_const(prog, cls, name, _seen=None):
    """Fold class attribute `name` of cls (through the MRO); names inside are
    resolved in the owner's class body, then module, then as Class.attr."""
    expr, owner = prog.class_attr(cls, name)
    if expr is None:
        raise AnalysisError('fold-failure: %s.%s undefined' %
                            (cls.qname, name))

    def env(d):
        head, _, rest = d.partition('.')
        if not rest:
            if head in owner.attrs and owner.attrs[head] is not expr:
                return const_value(owner.attrs[head], env)
            if head in owner.module.consts:
                return const_value(owner.module.consts[head], env)
            return MISSING
        q = prog.resolve_dotted(owner.module, head)
        if q in prog.classes and '.' not in rest:
            return class_const(prog, prog.classes[q], rest)
        return MISSING
    return const_value(expr, env)


def module_const(prog, module, name):
    m = module
    if name not in m.consts:
        raise AnalysisError('fold-failure: %s.%s undefined' % (m.name, name))

    def env(d):
        head, _, rest = d.partition('.')
        if not rest and head in m.consts:
            return const_value(m.consts[head], env)
        q = prog.resolve_dotted(m, head)
        if q in prog.classes and rest and '.' not in rest:
            return class_const(prog, prog.classes[q], rest)
        return MISSING
    return const_value(m.consts[name], env)
