"""Intra-procedural dependence (backward slice) as a set of *input leaves*.

leaves(expr at node) = every settings key / pull-request getter / helper call
the value may depend on, through reaching definitions (CFG reachability,
no kill), container mutations (x.add(...)), and control dependence on
enclosing or earlier-exiting conditionals.  Used by DEP rules: detects a
dropped (or added) term of a decision, never evaluates it."""
import ast

from .program import walk_local, dotted
from .analysis import src
from .rules import parent_map, _flatten_targets

MUTATORS = ('add', 'update', 'append', 'extend', 'insert', 'discard',
            'remove', 'setdefault', 'pop', 'clear', 'intersection_update',
            'difference_update')
PURE_BUILTINS = ('set', 'len', 'list', 'tuple', 'sorted', 'any', 'all',
                 'int', 'str', 'bool', 'dict', 'frozenset', 'min', 'max',
                 'sum', 'reversed', 'zip', 'enumerate', 'map', 'filter',
                 'isinstance', 'getattr', 'iter', 'next', 'abs')
IGNORED_CALLS = ('locals', 'print')


class Deps:
    def __init__(self, an, f, base=None):
        self.an = an
        self.f = f
        self.c = an.cfg(f)
        self.pm = parent_map(f.node)
        self.base = base or (f.params[0] if f.params else None)
        self._defs = None
        self._memo = {}
        self._reach = {}

    # definitions: name -> [(stmt, value exprs, kind)]
    def defs(self):
        if self._defs is not None:
            return self._defs
        d = {}
        for n in walk_local(self.f.node, include_root=False):
            if isinstance(n, ast.Assign):
                for t in n.targets:
                    for el in _flatten_targets(t):
                        if isinstance(el, ast.Name):
                            d.setdefault(el.id, []).append((n, [n.value]))
                        elif isinstance(el, ast.Starred) and \
                                isinstance(el.value, ast.Name):
                            d.setdefault(el.value.id, []).append(
                                (n, [n.value]))
            elif isinstance(n, ast.AugAssign) and \
                    isinstance(n.target, ast.Name):
                d.setdefault(n.target.id, []).append((n, [n.value]))
            elif isinstance(n, ast.AnnAssign) and \
                    isinstance(n.target, ast.Name) and n.value is not None:
                d.setdefault(n.target.id, []).append((n, [n.value]))
            elif isinstance(n, (ast.For, ast.AsyncFor)):
                for el in _flatten_targets(n.target):
                    if isinstance(el, ast.Name):
                        d.setdefault(el.id, []).append((n, [n.iter]))
            elif isinstance(n, ast.Expr) and isinstance(n.value, ast.Call) \
                    and isinstance(n.value.func, ast.Attribute) and \
                    isinstance(n.value.func.value, ast.Name) and \
                    n.value.func.attr in MUTATORS:
                d.setdefault(n.value.func.value.id, []).append(
                    (n, list(n.value.args) +
                     [k.value for k in n.value.keywords]))
            elif isinstance(n, (ast.With, ast.AsyncWith)):
                for it in n.items:
                    if it.optional_vars is not None:
                        for el in _flatten_targets(it.optional_vars):
                            if isinstance(el, ast.Name):
                                d.setdefault(el.id, []).append(
                                    (n, [it.context_expr]))
        self._defs = d
        return d

    def _stmt_of(self, node):
        n = node
        while n in self.pm and not isinstance(n, ast.stmt):
            n = self.pm[n]
        return n

    def _node_ids(self, stmt):
        return self.c.copies.get(id(stmt), [])

    def _can_reach(self, def_stmt, use_ids):
        key = id(def_stmt)
        if key not in self._reach:
            r = set()
            for i in self._node_ids(def_stmt):
                r |= self.c.reachable(start=i)
            self._reach[key] = r
        return any(u in self._reach[key] for u in use_ids)

    def _use_ids(self, node):
        """CFG node ids standing for the evaluation point of AST `node`."""
        ids = self.c.copies.get(id(node))
        if ids:
            return ids
        if not isinstance(node, ast.stmt):
            ids = []
            for x in ast.walk(node):
                ids += self.c.copies.get(id(x), [])
            if ids:
                return ids
        n = node
        while True:
            ids = self.c.copies.get(id(n))
            if ids:
                return ids
            if n not in self.pm:
                return []
            n = self.pm[n]

    # ------------------------------------------------------------ leaves
    def leaves(self, expr, at=None, with_control=True):
        use_ids = self._use_ids(at if at is not None else expr)
        out = set()
        self._expr(expr, use_ids, out, set())
        if with_control:
            out |= self.control(at if at is not None else expr)
        return out

    def control(self, node, _seen=None):
        """Leaves of every condition the statement containing `node` is
        control dependent on: enclosing if/while tests, and tests of earlier
        conditionals whose body leaves the function (return / raise)."""
        st = self._stmt_of(node)
        use_ids = self._use_ids(st)
        out = set()
        seen = _seen if _seen is not None else set()
        n = st
        while n in self.pm:
            p = self.pm[n]
            if isinstance(p, (ast.If, ast.While)) and n is not p.test:
                self._expr(p.test, self._use_ids(p.test) or use_ids, out,
                           seen)
            n = p
        for cand in walk_local(self.f.node, include_root=False):
            if isinstance(cand, ast.If) and cand is not st and \
                    self._exits(cand) and \
                    self._can_reach_test(cand, use_ids):
                self._expr(cand.test, self._use_ids(cand.test) or use_ids,
                           out, seen)
        return out

    def _exits(self, ifnode):
        for part in (ifnode.body, ifnode.orelse):
            for s in part:
                for x in walk_local(s):
                    if isinstance(x, (ast.Return, ast.Raise)):
                        return True
        return False

    def _can_reach_test(self, ifnode, use_ids):
        ids = []
        for x in ast.walk(ifnode.test):
            ids += self.c.copies.get(id(x), [])
        for i in ids:
            r = self.c.reachable(start=i)
            if any(u in r for u in use_ids):
                return True
        return False

    def _expr(self, e, use_ids, out, seen):
        if e is None:
            return
        if isinstance(e, ast.Name):
            self._name(e.id, use_ids, out, seen)
            return
        if isinstance(e, ast.Attribute):
            d = dotted(e)
            if d is not None:
                head = d.split('.')[0]
                if head == self.base or head in self.f.params:
                    out.add(d.split('.', 1)[1] if '.' in d else d)
                    return
                if head in self.defs():
                    self._name(head, use_ids, out, seen)
                    return
                out.add(d)
                return
            self._expr(e.value, use_ids, out, seen)
            return
        if isinstance(e, ast.Call):
            fn = e.func
            if isinstance(fn, ast.Name):
                if fn.id in IGNORED_CALLS:
                    return
                if fn.id in PURE_BUILTINS:
                    for a in e.args:
                        self._expr(a, use_ids, out, seen)
                    for k in e.keywords:
                        self._expr(k.value, use_ids, out, seen)
                    return
                if fn.id in self.f.nested:
                    # nested helper: its body's leaves
                    g = self.f.nested[fn.id]
                    sub = Deps(self.an, g, base=self.base)
                    for r in walk_local(g.node, include_root=False):
                        if isinstance(r, ast.Return) and r.value is not None:
                            out |= sub.leaves(r.value)
                    for a in e.args:
                        self._expr(a, use_ids, out, seen)
                    return
                out.add(fn.id + '()')
                for a in e.args:
                    if not (isinstance(a, ast.Name) and a.id == self.base):
                        self._expr(a, use_ids, out, seen)
                return
            if isinstance(fn, ast.Attribute):
                d = dotted(fn)
                if d is not None:
                    head = d.split('.')[0]
                    if head == self.base or head in self.f.params:
                        out.add(d.split('.', 1)[1] + '()')
                        for a in e.args:
                            self._expr(a, use_ids, out, seen)
                        return
                    if head in self.defs() and d.count('.') == 1:
                        # method on a local value: depends on the value and
                        # on the arguments
                        self._name(head, use_ids, out, seen)
                        for a in e.args:
                            self._expr(a, use_ids, out, seen)
                        return
                    out.add(d + '()')
                    for a in e.args:
                        self._expr(a, use_ids, out, seen)
                    return
                self._expr(fn.value, use_ids, out, seen)
                for a in e.args:
                    self._expr(a, use_ids, out, seen)
                return
        if isinstance(e, (ast.ListComp, ast.SetComp, ast.GeneratorExp,
                          ast.DictComp)):
            bound = set()
            for g in e.generators:
                self._expr(g.iter, use_ids, out, seen)
                bound |= {x.id for x in ast.walk(g.target)
                          if isinstance(x, ast.Name)}
            tmp = set()
            parts = [e.elt] if not isinstance(e, ast.DictComp) \
                else [e.key, e.value]
            for g in e.generators:
                parts += g.ifs
            for p in parts:
                for x in ast.walk(p):
                    if isinstance(x, ast.Name) and x.id in bound:
                        continue
                inner = set()
                self._expr_skip(p, use_ids, inner, seen, bound)
                tmp |= inner
            out |= tmp
            return
        for ch in ast.iter_child_nodes(e):
            if isinstance(ch, ast.expr):
                self._expr(ch, use_ids, out, seen)

    def _expr_skip(self, e, use_ids, out, seen, bound):
        """Like _expr but comprehension-bound names are opaque."""
        if isinstance(e, ast.Name) and e.id in bound:
            return
        if isinstance(e, ast.Attribute):
            d = dotted(e)
            if d and d.split('.')[0] in bound:
                return
        if isinstance(e, ast.Call) and isinstance(e.func, ast.Attribute):
            d = dotted(e.func)
            if d and d.split('.')[0] in bound:
                for a in e.args:
                    self._expr_skip(a, use_ids, out, seen, bound)
                return
        if isinstance(e, (ast.Name, ast.Attribute, ast.Call)):
            self._expr(e, use_ids, out, seen)
            return
        for ch in ast.iter_child_nodes(e):
            if isinstance(ch, ast.expr):
                self._expr_skip(ch, use_ids, out, seen, bound)

    def _name(self, name, use_ids, out, seen):
        defs = self.defs().get(name)
        if not defs:
            if name == self.base or name in self.f.params:
                out.add(name)
            return
        for stmt, values in defs:
            key = (name, id(stmt))
            if key in seen:
                continue
            if use_ids and not self._can_reach(stmt, use_ids):
                continue
            seen.add(key)
            dids = self._node_ids(stmt)
            for v in values:
                self._expr(v, dids or use_ids, out, seen)
            if isinstance(stmt, ast.AugAssign):
                # depends on its previous value too
                self._name_before(name, stmt, out, seen)
            # control dependence of the definition (a conditional that
            # holds the definition and the use in the same branch selects
            # nothing: the use only exists where the definition ran)
            n = stmt
            while n in self.pm:
                p = self.pm[n]
                if isinstance(p, (ast.If, ast.While)) and n is not p.test \
                        and not self._same_branch(p, n, use_ids):
                    self._expr(p.test, self._use_ids(p.test) or dids, out,
                               seen)
                n = p

    def _same_branch(self, cond, child, use_ids):
        """All uses sit in the branch of `cond` that holds `child`."""
        if not use_ids or not isinstance(cond, ast.If):
            return False
        branch = cond.body if child in cond.body else \
            cond.orelse if child in cond.orelse else None
        if branch is None:
            return False
        for u in use_ids:
            a = self.c.nodes[u].ast if u in self.c.nodes else None
            if a is None:
                return False
            while a is not None and a not in branch:
                if a is cond:
                    return False
                a = self.pm.get(a)
            if a is None:
                return False
        return True

    def _name_before(self, name, stmt, out, seen):
        dids = self._node_ids(stmt)
        for st2, values in self.defs().get(name, []):
            if st2 is stmt:
                continue
            key = (name, id(st2))
            if key in seen:
                continue
            if dids and not self._can_reach(st2, dids):
                continue
            seen.add(key)
            d2 = self._node_ids(st2)
            for v in values:
                self._expr(v, d2 or dids, out, seen)
            if isinstance(st2, ast.AugAssign):
                self._name_before(name, st2, out, seen)
            n = st2
            while n in self.pm:
                p = self.pm[n]
                if isinstance(p, (ast.If, ast.While)) and n is not p.test:
                    self._expr(p.test, self._use_ids(p.test) or d2, out,
                               seen)
                n = p
