"""Statement-level control-flow graphs with condition splitting, typed exits,
exception edges, finally duplication, and set-dominance queries.

Every simple statement S becomes two nodes: 'stmt' (S starts; implicit
exception edges leave from here) and 'done' (S completed normally).  A gate
"call G returned normally" is the 'done' node; a target "call T reached" is
the 'stmt' node.  Every atomic condition becomes a 'test' node with two
successor pseudo-nodes 'true' / 'false', so that "the false edge of X" is a
node that can dominate.
"""
import ast
from collections import deque

from .program import walk_local, dotted, AnalysisError

SIMPLE = (ast.Expr, ast.Assign, ast.AugAssign, ast.AnnAssign, ast.Delete,
          ast.Pass, ast.Import, ast.ImportFrom, ast.Global, ast.Nonlocal,
          ast.Assert, ast.FunctionDef, ast.AsyncFunctionDef, ast.ClassDef)
CATCH_ALL = ('Exception', 'BaseException')


class N:
    __slots__ = ('id', 'kind', 'ast', 'test', 'label', 'lineno', 'matched')

    def __init__(self, id_, kind, node=None, test=None, label=''):
        self.id = id_
        self.kind = kind
        self.ast = node
        self.matched = node   # test nodes: the form a predicate accepted
        self.test = test
        self.label = label
        self.lineno = getattr(node, 'lineno', 0) if node is not None else 0

    def __repr__(self):
        return '<%d %s L%d %s>' % (self.id, self.kind, self.lineno,
                                   self.label)


def _pairs(t, value):
    """(target element, value or None) of an assignment, tuples paired
    element-wise when both sides have the same shape."""
    if isinstance(t, (ast.Tuple, ast.List)):
        if isinstance(value, (ast.Tuple, ast.List)) and \
                len(value.elts) == len(t.elts) and \
                not any(isinstance(e, ast.Starred) for e in t.elts):
            for te, ve in zip(t.elts, value.elts):
                yield from _pairs(te, ve)
        else:
            for e in t.elts:
                yield from _pairs(e, None)
    else:
        yield t, value


class LoopFrame:
    def __init__(self, cont):
        self.cont = cont
        self.breaks = []


class FinallyFrame:
    def __init__(self, body, outer_ctx):
        self.body = body
        self.outer = outer_ctx
        self.copies = {}


class Ctx:
    def __init__(self, exc, frames):
        self.exc = exc
        self.frames = frames

    def with_(self, exc=None, push=None):
        fr = self.frames + [push] if push is not None else self.frames
        return Ctx(self.exc if exc is None else exc, fr)


def local_nodes(node):
    """walk_local, except that a nested def / class statement contributes
    only its decorators and defaults (its body is another unit)."""
    if isinstance(node, (ast.FunctionDef, ast.AsyncFunctionDef)):
        for d in list(node.decorator_list) + list(node.args.defaults) + \
                [k for k in node.args.kw_defaults if k is not None]:
            yield from walk_local(d)
        return
    if isinstance(node, ast.ClassDef):
        for d in list(node.decorator_list) + list(node.bases):
            yield from walk_local(d)
        return
    yield from walk_local(node)


def may_raise(node):
    for n in local_nodes(node):
        if isinstance(n, (ast.Call, ast.Subscript, ast.Attribute, ast.BinOp,
                          ast.Raise, ast.Assert, ast.Import, ast.ImportFrom,
                          ast.Await, ast.Yield, ast.YieldFrom)):
            return True
    return False


class _SomeText(str):
    """A string that is not empty, whatever it says (a message built from
    a template with literal text)."""


SOME_TEXT = _SomeText('\0some text')


class _Learnt:
    """What a test on a plain name said about it: truthy (so not None,
    not empty) or falsy (None, empty, 0 ...)."""
    def __init__(self, truth):
        self.truth = truth

    def __bool__(self):
        return self.truth

    def __repr__(self):
        return 'truthy' if self.truth else 'falsy'

    def __lt__(self, other):
        return repr(self) < repr(other)


TRUTHY, FALSY = _Learnt(True), _Learnt(False)


def _some_text(v):
    """Is v a string built around literal text (so never empty)?"""
    import re as _re

    def literal(sv):
        return isinstance(sv, str) and bool(
            _re.sub(r'%(\([^)]*\))?[-#0 +]*\d*(\.\d+)?[sdrifxXo]|%%', '',
                    sv).strip() or _re.sub(r'%%', '%', sv).count('%%'))
    if isinstance(v, ast.BinOp) and isinstance(v.op, ast.Mod) and \
            isinstance(v.left, ast.Constant) and literal(v.left.value):
        return True
    if isinstance(v, ast.JoinedStr):
        return any(isinstance(p, ast.Constant) and isinstance(p.value, str)
                   and p.value for p in v.values)
    if isinstance(v, ast.BinOp) and isinstance(v.op, ast.Add):
        return any(isinstance(x, ast.Constant) and isinstance(x.value, str)
                   and bool(x.value) or _some_text(x)
                   for x in (v.left, v.right))
    if isinstance(v, ast.Call) and isinstance(v.func, ast.Attribute) and \
            v.func.attr == 'format' and \
            isinstance(v.func.value, ast.Constant) and \
            isinstance(v.func.value.value, str):
        return bool(_re.sub(r'\{[^{}]*\}', '', v.func.value.value).strip())
    return False


class CFG:
    def __init__(self, func, prog=None, noreturn=frozenset()):
        self.func = func
        self.prog = prog
        self.noreturn = noreturn
        self.nodes = {}
        self.succ = {}
        self.pred = {}
        self.exc_edges = set()      # implicit may-raise edges (a, b)
        self.raise_edges = set()    # explicit raise / noreturn-call edges
        self._n = 0
        self.entry = self._new('entry').id
        self.exit = self._new('exit').id          # normal return
        self.raise_exit = self._new('raise').id   # exception leaves function
        self.stmt_node = {}    # id(ast stmt) -> stmt node id (first copy)
        self.done_node = {}    # id(ast stmt) -> done node id (first copy)
        self.copies = {}       # id(ast) -> [node ids] (all copies)
        ctx = Ctx(self.raise_exit, [])
        body = func.node.body
        if isinstance(body, ast.AST):   # lambda
            body = [ast.Return(value=body, lineno=func.node.lineno,
                               col_offset=0)]
        out = self._seq(body, [self.entry], ctx)
        for d in out:
            self._edge(d, self.exit)
        self._dom_cache = {}

    # ------------------------------------------------------------ plumbing
    def _new(self, kind, node=None, test=None, label=''):
        n = N(self._n, kind, node, test, label)
        self._n += 1
        self.nodes[n.id] = n
        self.succ[n.id] = []
        self.pred[n.id] = []
        if node is not None:
            self.copies.setdefault(id(node), []).append(n.id)
        return n

    def _edge(self, a, b, kind=None):
        if b not in self.succ[a]:
            self.succ[a].append(b)
            self.pred[b].append(a)
        if kind == 'exc':
            self.exc_edges.add((a, b))
        elif kind == 'raise':
            self.raise_edges.add((a, b))

    def _link(self, preds, b):
        for p in preds:
            self._edge(p, b)

    # ------------------------------------------------------------- abrupt
    def _abrupt(self, kind, srcs, ctx):
        cur = list(srcs)
        i = len(ctx.frames) - 1
        while i >= 0:
            fr = ctx.frames[i]
            if isinstance(fr, FinallyFrame):
                if kind in fr.copies:
                    self._link(cur, fr.copies[kind])
                    return
                ent = self._new('finally', label=kind)
                fr.copies[kind] = ent.id
                self._link(cur, ent.id)
                cur = self._seq(fr.body, [ent.id], fr.outer)
            elif isinstance(fr, LoopFrame) and kind in ('break', 'continue'):
                if kind == 'break':
                    fr.breaks.extend(cur)
                else:
                    self._link(cur, fr.cont)
                return
            i -= 1
        if kind == 'return':
            self._link(cur, self.exit)
        elif kind == 'exc':
            self._link(cur, self.raise_exit)

    def _fin_exc_entry(self, fr):
        """Entry of the copy of a finally block taken when an exception
        propagates; its fall-through re-raises to the outer target."""
        if 'exc' in fr.copies:
            return fr.copies['exc']
        ent = self._new('finally', label='exc')
        fr.copies['exc'] = ent.id
        outs = self._seq(fr.body, [ent.id], fr.outer)
        for o in outs:
            self._edge(o, fr.outer.exc, 'raise')
        return ent.id

    # ---------------------------------------------------------- statements
    def _stmt_is_noreturn(self, st):
        if not self.noreturn or self.prog is None:
            return False
        for n in local_nodes(st):
            if isinstance(n, ast.Call):
                c = self.prog.callee(self.func, n)
                if c[0] == 'func' and c[1] in self.noreturn:
                    return True
        return False

    def _seq(self, stmts, preds, ctx):
        cur = list(preds)
        for st in stmts:
            cur = self._stmt(st, cur, ctx)
        return cur

    def _simple(self, st, preds, ctx, kind='stmt'):
        s = self._new(kind, st)
        self.stmt_node.setdefault(id(st), s.id)
        self._link(preds, s.id)
        if self._stmt_is_noreturn(st):
            self._edge(s.id, ctx.exc, 'raise')
            return []
        if may_raise(st):
            self._edge(s.id, ctx.exc, 'exc')
        d = self._new('done', st)
        self.done_node.setdefault(id(st), d.id)
        self._edge(s.id, d.id)
        return [d.id]

    def _stmt(self, st, preds, ctx):
        if not preds:
            # unreachable code: still build it (so that anchors exist) from
            # a detached node
            preds = [self._new('dead').id]
        if isinstance(st, SIMPLE):
            return self._simple(st, preds, ctx)
        if isinstance(st, ast.Return):
            s = self._new('return', st)
            self.stmt_node.setdefault(id(st), s.id)
            self._link(preds, s.id)
            if st.value is not None and self._stmt_is_noreturn(st):
                self._edge(s.id, ctx.exc, 'raise')
                return []
            if st.value is not None and may_raise(st.value):
                self._edge(s.id, ctx.exc, 'exc')
            self._abrupt('return', [s.id], ctx)
            return []
        if isinstance(st, ast.Raise):
            s = self._new('raise_stmt', st)
            self.stmt_node.setdefault(id(st), s.id)
            self._link(preds, s.id)
            self._edge(s.id, ctx.exc, 'raise')
            return []
        if isinstance(st, ast.Break):
            s = self._new('break', st)
            self._link(preds, s.id)
            self._abrupt('break', [s.id], ctx)
            return []
        if isinstance(st, ast.Continue):
            s = self._new('continue', st)
            self._link(preds, s.id)
            self._abrupt('continue', [s.id], ctx)
            return []
        if isinstance(st, ast.If):
            t, f = self._cond(st.test, preds, ctx)
            a = self._seq(st.body, t, ctx)
            b = self._seq(st.orelse, f, ctx) if st.orelse else f
            return a + b
        if isinstance(st, ast.While):
            head = self._new('loop', st, label='while')
            self.stmt_node.setdefault(id(st), head.id)
            self._link(preds, head.id)
            fr = LoopFrame(head.id)
            t, f = self._cond(st.test, [head.id], ctx)
            body_out = self._seq(st.body, t, ctx.with_(push=fr))
            self._link(body_out, head.id)
            out = self._seq(st.orelse, f, ctx) if st.orelse else f
            return out + fr.breaks
        if isinstance(st, (ast.For, ast.AsyncFor)):
            it = self._new('iter', st)
            self._link(preds, it.id)
            if may_raise(st.iter):
                self._edge(it.id, ctx.exc, 'exc')
            head = self._new('loop', st, label='for')
            self.stmt_node.setdefault(id(st), head.id)
            self._edge(it.id, head.id)
            if may_raise(st.iter):
                self._edge(head.id, ctx.exc, 'exc')
            tb = self._new('true', st, test=head.id, label='next-item')
            fb = self._new('false', st, test=head.id, label='exhausted')
            self._edge(head.id, tb.id)
            self._edge(head.id, fb.id)
            fr = LoopFrame(head.id)
            body_out = self._seq(st.body, [tb.id], ctx.with_(push=fr))
            self._link(body_out, head.id)
            out = self._seq(st.orelse, [fb.id], ctx) if st.orelse \
                else [fb.id]
            return out + fr.breaks
        if isinstance(st, (ast.With, ast.AsyncWith)):
            w = self._new('with', st)
            self.stmt_node.setdefault(id(st), w.id)
            self._link(preds, w.id)
            self._edge(w.id, ctx.exc, 'exc')
            out = self._seq(st.body, [w.id], ctx)
            wd = self._new('with_done', st)
            self._link(out, wd.id)
            return [wd.id]
        if isinstance(st, ast.Try) or st.__class__.__name__ == 'TryStar':
            return self._try(st, preds, ctx)
        if isinstance(st, ast.Match):
            # subject evaluated once, then the cases in order; a pattern
            # (with its guard) is an opaque test that matches or not
            subj = self._new('stmt', st)
            self.stmt_node.setdefault(id(st), subj.id)
            self._link(preds, subj.id)
            if may_raise(st.subject):
                self._edge(subj.id, ctx.exc, 'exc')
            sd = self._new('done', st)
            self.done_node.setdefault(id(st), sd.id)
            self._edge(subj.id, sd.id)
            cur = [sd.id]
            outs = []
            for case in st.cases:
                tn = self._new('test', case.pattern)
                self._link(cur, tn.id)
                tb = self._new('true', case.pattern, test=tn.id)
                fb = self._new('false', case.pattern, test=tn.id)
                self._edge(tn.id, tb.id)
                self._edge(tn.id, fb.id)
                t_out, f_out = [tb.id], [fb.id]
                if case.guard is not None:
                    t_out, gf = self._cond(case.guard, [tb.id], ctx)
                    f_out = f_out + gf
                outs += self._seq(case.body, t_out, ctx)
                irrefutable = isinstance(case.pattern, ast.MatchAs) and \
                    case.pattern.pattern is None and case.guard is None
                cur = [] if irrefutable else f_out
            return outs + cur
        return self._simple(st, preds, ctx)

    def _try(self, st, preds, ctx):
        fin = FinallyFrame(st.finalbody, ctx) if st.finalbody else None
        base = ctx.with_(push=fin) if fin else ctx
        # where do exceptions go that no handler of this try catches
        if fin:
            escape = None   # lazily: self._fin_exc_entry(fin)
        else:
            escape = ctx.exc

        def escape_target():
            return self._fin_exc_entry(fin) if fin else escape

        if st.handlers:
            disp = self._new('dispatch', st)
            body_ctx = base.with_(exc=disp.id)
        else:
            disp = None
            body_ctx = base.with_(exc=escape_target())
        head = self._new('try', st)
        self.stmt_node.setdefault(id(st), head.id)
        self._link(preds, head.id)
        out = self._seq(st.body, [head.id], body_ctx)
        outs = []
        rest_ctx = base.with_(exc=escape_target()) if (fin or True) else base
        if st.orelse:
            out = self._seq(st.orelse, out, rest_ctx)
        outs.extend(out)
        if disp is not None:
            catch_all = False
            for h in st.handlers:
                hn = self._new('handler', h)
                self.stmt_node.setdefault(id(h), hn.id)
                self._edge(disp.id, hn.id)
                outs.extend(self._seq(h.body, [hn.id], rest_ctx))
                if h.type is None:
                    catch_all = True
                else:
                    names = [h.type] if not isinstance(h.type, ast.Tuple) \
                        else h.type.elts
                    for e in names:
                        d = dotted(e) or ''
                        if d.rpartition('.')[2] in CATCH_ALL:
                            catch_all = True
            if not catch_all:
                self._edge(disp.id, escape_target(), 'exc')
        if fin:
            ent = self._new('finally', label='normal')
            self._link(outs, ent.id)
            return self._seq(st.finalbody, [ent.id], ctx)
        return outs

    # ---------------------------------------------------------- conditions
    def _cond(self, e, preds, ctx):
        """Return (true_dangling, false_dangling)."""
        if isinstance(e, ast.BoolOp):
            if isinstance(e.op, ast.And):
                cur = preds
                falses = []
                for v in e.values:
                    t, f = self._cond(v, cur, ctx)
                    falses += f
                    cur = t
                return cur, falses
            cur = preds
            trues = []
            for v in e.values:
                t, f = self._cond(v, cur, ctx)
                trues += t
                cur = f
            return trues, cur
        if isinstance(e, ast.UnaryOp) and isinstance(e.op, ast.Not):
            t, f = self._cond(e.operand, preds, ctx)
            return f, t
        if isinstance(e, ast.Constant) and isinstance(e.value, bool):
            return (list(preds), []) if e.value else ([], list(preds))
        tn = self._new('test', e)
        self._link(preds, tn.id)
        if may_raise(e):
            self._edge(tn.id, ctx.exc, 'exc')
        tb = self._new('true', e, test=tn.id)
        fb = self._new('false', e, test=tn.id)
        self._edge(tn.id, tb.id)
        self._edge(tn.id, fb.id)
        return [tb.id], [fb.id]

    # -------------------------------------------------------------- queries
    def reachable(self, start=None, removed=(), use_exc=True, stop=()):
        start = self.entry if start is None else start
        removed = set(removed)
        if start in removed:
            return set()
        seen = {start}
        dq = deque([start])
        stop = set(stop)
        while dq:
            a = dq.popleft()
            if a in stop:
                continue
            for b in self.succ[a]:
                if b in seen or b in removed:
                    continue
                if not use_exc and (a, b) in self.exc_edges:
                    continue
                seen.add(b)
                dq.append(b)
        return seen

    def path(self, src, dst, removed=(), use_exc=True):
        removed = set(removed)
        if src in removed:
            return None
        prev = {src: None}
        dq = deque([src])
        while dq:
            a = dq.popleft()
            if a == dst:
                out = []
                while a is not None:
                    out.append(a)
                    a = prev[a]
                return list(reversed(out))
            for b in self.succ[a]:
                if b in prev or b in removed:
                    continue
                if not use_exc and (a, b) in self.exc_edges:
                    continue
                prev[b] = a
                dq.append(b)
        return None

    def must_pass(self, gates, target, use_exc=True, start=None):
        """True iff every feasible path entry->target crosses a gate node.
        Returns (ok, counterexample_path).

        Feasibility is decided for one idiom only: a local that is assigned
        a constant (None / True / False / a literal) and later tested
        (`if flag:`, `if x is None:`, `if x == 'lit':`).  On a path where the
        last assignment to such a local is a constant, the test has one
        outcome; the other branch is not followed.  Everything else is
        path-insensitive (both branches)."""
        gates = set(gates)
        start = self.entry if start is None else start
        if target in gates:
            return True, None
        p = self.path(start, target, removed=gates, use_exc=use_exc)
        if p is None:
            return True, None
        flags = self._flags()
        if not flags:
            return False, p
        p = self._flag_path(start, target, gates, use_exc, flags)
        return (p is None), p

    # -- constant flags ---------------------------------------------------
    def _flags(self):
        """Locals of this function that are assigned a constant somewhere
        and never touched by global / nonlocal / a nested function."""
        cached = getattr(self, '_flag_cache', None)
        if cached is not None:
            return cached
        consts, banned = set(), set()
        root = self.func.node
        for n in ast.walk(root):
            if isinstance(n, (ast.Global, ast.Nonlocal)):
                banned |= set(n.names)
            if n is not root and isinstance(n, (ast.FunctionDef, ast.Lambda,
                                                ast.AsyncFunctionDef)):
                for x in ast.walk(n):
                    if isinstance(x, ast.Name) and \
                            isinstance(x.ctx, ast.Store):
                        banned.add(x.id)
            if isinstance(n, ast.Assign):
                for t in n.targets:
                    for el, v in _pairs(t, n.value):
                        if isinstance(el, ast.Name) and \
                                (isinstance(v, ast.Constant) or
                                 _some_text(v)):
                            consts.add(el.id)
        params = set()
        a = root.args
        for x in a.posonlyargs + a.args + a.kwonlyargs:
            params.add(x.arg)
        # names tested on their own (`if xs:` ... `if not xs:`): what one
        # test learnt holds at the next one while nothing re-binds or
        # mutates the name in between
        mutated = set()
        for n in ast.walk(root):
            if isinstance(n, ast.Call) and isinstance(n.func, ast.Attribute) \
                    and isinstance(n.func.value, ast.Name) and \
                    n.func.attr in ('append', 'extend', 'insert', 'pop',
                                    'remove', 'clear', 'add', 'discard',
                                    'update', 'setdefault', 'popitem',
                                    'appendleft', 'popleft'):
                mutated.add(n.func.value.id)
            elif isinstance(n, (ast.Subscript, ast.Attribute)) and \
                    isinstance(n.ctx, (ast.Store, ast.Del)) and \
                    isinstance(n.value, ast.Name):
                mutated.add(n.value.id)
            elif isinstance(n, ast.AugAssign) and \
                    isinstance(n.target, ast.Name):
                mutated.add(n.target.id)
        tested = set()
        for n in self.nodes.values():
            if n.kind == 'test':
                t = n.ast
                while isinstance(t, ast.UnaryOp) and isinstance(t.op, ast.Not):
                    t = t.operand
                if isinstance(t, ast.Name):
                    tested.add(t.id)
        self._learn = tested - banned - mutated
        self._flag_cache = (consts | self._learn) - banned
        return self._flag_cache

    def _bindings(self, n, flags, env=None):
        """{flag: ('c', value) | None} set when node n completes (env: the
        constants the flags hold on this path, for `x = a or b`)."""
        st = n.ast
        out = {}

        def known(v):
            """('c', value) when v is a constant, or an and / or / not of
            flags whose value is known on this path; else None."""
            if isinstance(v, ast.Constant):
                return ('c', v.value)
            if _some_text(v):
                return ('c', SOME_TEXT)
            if env is None:
                return None
            if isinstance(v, ast.Name) and v.id in env:
                return env[v.id]
            if isinstance(v, ast.UnaryOp) and isinstance(v.op, ast.Not):
                k = known(v.operand)
                return ('c', not k[1]) if k is not None else None
            if isinstance(v, ast.BoolOp):
                ks = [known(x) for x in v.values]
                absorbing = isinstance(v.op, ast.Or)
                if any(k is not None and bool(k[1]) == absorbing
                       for k in ks):
                    return ('c', absorbing)
                if all(k is not None for k in ks):
                    return ('c', not absorbing)
            return None
        if n.kind == 'done' and isinstance(st, ast.Assign):
            for t in st.targets:
                for el, v in _pairs(t, st.value):
                    if isinstance(el, ast.Name) and el.id in flags:
                        out[el.id] = known(v)
                    elif isinstance(el, ast.Starred) and \
                            isinstance(el.value, ast.Name) and \
                            el.value.id in flags:
                        out[el.value.id] = None
        elif n.kind in ('done', 'loop', 'with', 'handler', 'true') and \
                st is not None and not isinstance(st, ast.Assign):
            # any other binding form: value unknown afterwards
            names = set()
            if isinstance(st, (ast.AugAssign, ast.AnnAssign)):
                names |= {x.id for x in ast.walk(st.target)
                          if isinstance(x, ast.Name)}
            elif isinstance(st, (ast.For, ast.AsyncFor)):
                names |= {x.id for x in ast.walk(st.target)
                          if isinstance(x, ast.Name)}
            elif isinstance(st, (ast.With, ast.AsyncWith)):
                for it in st.items:
                    if it.optional_vars is not None:
                        names |= {x.id for x in ast.walk(it.optional_vars)
                                  if isinstance(x, ast.Name)}
            elif isinstance(st, ast.ExceptHandler) and st.name:
                names.add(st.name)
            elif isinstance(st, ast.Delete):
                names |= {x.id for t in st.targets for x in ast.walk(t)
                          if isinstance(x, ast.Name)}
            elif isinstance(st, (ast.Import, ast.ImportFrom)):
                names |= {(a.asname or a.name).split('.')[0]
                          for a in st.names}
            for x in ast.walk(st) if not isinstance(
                    st, (ast.For, ast.AsyncFor, ast.With, ast.AsyncWith,
                         ast.ExceptHandler, ast.If, ast.While,
                         ast.Try)) else ():
                if isinstance(x, ast.NamedExpr):
                    names.add(x.target.id)
            for v in names & flags:
                out[v] = None
        return out

    @staticmethod
    def _decide(atom, env):
        """Outcome of a test atom on a path where env holds the constants
        last assigned to flags; None if undecided."""
        if isinstance(atom, ast.Name) and atom.id in env:
            return bool(env[atom.id][1])
        if isinstance(atom, ast.Compare) and len(atom.ops) == 1 and \
                isinstance(atom.left, ast.Name) and atom.left.id in env and \
                isinstance(atom.comparators[0], ast.Constant):
            val = env[atom.left.id][1]
            lit = atom.comparators[0].value
            op = atom.ops[0]
            if val is SOME_TEXT and not (lit is None or
                                         isinstance(lit, bool)):
                return None       # some text: equal to this one or not
            if isinstance(val, _Learnt):
                if lit is None and isinstance(op, (ast.Is, ast.IsNot,
                                                   ast.Eq, ast.NotEq)) \
                        and val.truth:
                    return isinstance(op, (ast.IsNot, ast.NotEq))
                return None
            if isinstance(op, ast.Is):
                return (val is lit) if lit is None or isinstance(
                    lit, bool) else None
            if isinstance(op, ast.IsNot):
                return (val is not lit) if lit is None or isinstance(
                    lit, bool) else None
            if isinstance(op, ast.Eq):
                return val == lit
            if isinstance(op, ast.NotEq):
                return val != lit
        return None

    def _flag_path(self, start, target, gates, use_exc, flags):
        init = (start, ())
        prev = {init: None}
        dq = deque([init])
        limit = 200000
        while dq:
            state = dq.popleft()
            a, envt = state
            if a == target:
                out = []
                while state is not None:
                    out.append(state[0])
                    state = prev[state]
                return list(reversed(out))
            limit -= 1
            if limit < 0:
                # give up on precision, not on soundness
                return self.path(start, target, removed=gates,
                                 use_exc=use_exc)
            n = self.nodes[a]
            env = dict(envt)
            upd = self._bindings(n, flags, env)
            if upd:
                for k, v in upd.items():
                    if v is None:
                        env.pop(k, None)
                    else:
                        env[k] = v
                envt2 = tuple(sorted(env.items(), key=lambda kv: kv[0]))
            else:
                envt2 = envt
            succs = self.succ[a]
            learnt = {}
            if n.kind == 'test':
                d = self._decide(n.ast, env)
                if d is not None:
                    keep = set(self.branch(n, d))
                    succs = [b for b in succs if b in keep or
                             (a, b) in self.exc_edges]
                else:
                    t, pol = n.ast, True
                    while isinstance(t, ast.UnaryOp) and \
                            isinstance(t.op, ast.Not):
                        t, pol = t.operand, not pol
                    if isinstance(t, ast.Name) and \
                            t.id in getattr(self, '_learn', ()):
                        for val in (True, False):
                            e2 = dict(env)
                            e2[t.id] = ('c', TRUTHY if val == pol else FALSY)
                            et = tuple(sorted(e2.items(),
                                              key=lambda kv: kv[0]))
                            for b in self.branch(n, val):
                                learnt[b] = et
            for b in succs:
                if b in gates:
                    continue
                if not use_exc and (a, b) in self.exc_edges:
                    continue
                s2 = (b, learnt.get(b, envt2))
                if s2 in prev:
                    continue
                prev[s2] = state
                dq.append(s2)
        return None

    def is_reachable(self, target, use_exc=True):
        return target in self.reachable(use_exc=use_exc)

    def describe_path(self, p):
        out = []
        last = None
        for i in p or []:
            n = self.nodes[i]
            if n.kind in ('stmt', 'test', 'return', 'raise_stmt', 'loop',
                          'handler', 'with') and n.lineno and \
                    n.lineno != last:
                out.append('%s:%d' % (self.func.path, n.lineno))
                last = n.lineno
        return out

    # node finders -------------------------------------------------------
    def nodes_of_kind(self, *kinds):
        return [n for n in self.nodes.values() if n.kind in kinds]

    def stmt_nodes_where(self, pred, kinds=('stmt', 'return', 'raise_stmt',
                                            'test', 'iter', 'with')):
        """Begin-nodes whose own AST (without nested statements) satisfies
        pred(ast_node)."""
        out = []
        for n in self.nodes.values():
            if n.kind in kinds and n.ast is not None and pred(n.ast):
                out.append(n)
        return out

    def done_of(self, n):
        """The normal-completion node(s) matching a begin node."""
        if n.kind == 'stmt':
            return [s for s in self.succ[n.id]
                    if self.nodes[s].kind == 'done' and
                    self.nodes[s].ast is n.ast]
        if n.kind == 'test':
            return [s for s in self.succ[n.id]
                    if self.nodes[s].kind in ('true', 'false')]
        if n.kind == 'iter':
            return [s for s in self.succ[n.id]
                    if self.nodes[s].kind == 'loop']
        if n.kind == 'with':
            return [n.id]
        return []

    def branch(self, test_node, value):
        kind = 'true' if value else 'false'
        return [s for s in self.succ[test_node.id]
                if self.nodes[s].kind == kind]

    def normal_exit_reachable(self):
        return self.exit in self.reachable(use_exc=False)


def node_contains_call(astnode, pred):
    """Does this CFG node's AST contain (outside nested defs) a Call c with
    pred(c)?  For compound statement heads only the head expression counts."""
    roots = [astnode]
    if isinstance(astnode, (ast.For, ast.AsyncFor)):
        roots = [astnode.iter]
    elif isinstance(astnode, (ast.With, ast.AsyncWith)):
        roots = [i.context_expr for i in astnode.items]
    elif isinstance(astnode, (ast.While, ast.If, ast.Try, ast.ExceptHandler)):
        return False
    for r in roots:
        for n in local_nodes(r):
            if isinstance(n, ast.Call) and pred(n):
                return True
    return False
