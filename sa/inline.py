"""Normalisation pass: bounded inlining of helper functions that are not part
of the reference census (sa/baseline_funcs.txt).

The rules of sa/props are written against the functions that exist on the
pinned tree (the instances confirmed by reading).  A later behaviour-preserving
refactor typically extracts a few statements into a new private helper; a
change that breaks a property may also hide its effect in a new helper.  In
both cases the rules should see the same program.  So before the program model
is indexed, every function that (a) is not in the census, (b) is only ever
*called* (never used as a value), from its own module / its own class through
`self`, and (c) has a simple shape (no generator, nested def, *args, global,
recursion), is inlined into each of its call sites and removed.

Inlining is semantics-preserving on the shapes accepted below; any site that
does not fit is left alone together with the helper (the rules then see the
helper as an ordinary new function).  Nodes keep the line numbers of the
helper's source, so that reports point at the real construct.
"""
import ast
import copy
import os

BASELINE_FILE = os.path.join(os.path.dirname(os.path.abspath(__file__)),
                             'baseline_funcs.txt')
MAX_STMTS = 60
MAX_ROUNDS = 6
_BLOCKS = ('body', 'orelse', 'finalbody')


# one-expression helpers of the reference tree that the rules read through:
# they are written out like the helpers the census does not know, so that a
# tree where they were inlined by hand reads the same
TRANSPARENT = {
    'bert_e.workflow.gitwaterflow.branches.is_cascade_producer',
    'bert_e.workflow.gitwaterflow.branches.is_cascade_consumer',
}


def baseline():
    with open(BASELINE_FILE, encoding='utf-8') as fh:
        return {ln.strip() for ln in fh
                if ln.strip() and not ln.startswith('#')} - TRANSPARENT


def modname_of(path):
    p = path[:-3] if path.endswith('.py') else path
    parts = p.split('/')
    if parts[-1] == '__init__':
        parts = parts[:-1]
    return '.'.join(parts)


def census(trees):
    """qnames of module-level functions and methods of module-level classes
    (the same naming as Program)."""
    out = set()
    for path, tree in trees.items():
        mod = modname_of(path)
        for kind, owner, node in _defs(tree):
            q = '%s.%s' % (mod, node.name) if owner is None else \
                '%s.%s.%s' % (mod, owner.name, node.name)
            out.add(q)
            for nq, parent, sub in _nested_defs(q, node):
                out.add(nq)
    return out


def _nested_defs(q, node):
    """(qname, enclosing function node, def node) of the functions defined
    inside function `node` (Program naming: a.b.<locals>.c)."""
    stack = [(q, node)]
    while stack:
        pq, parent = stack.pop()
        todo = list(ast.iter_child_nodes(parent))
        while todo:
            n = todo.pop()
            if isinstance(n, (ast.FunctionDef, ast.AsyncFunctionDef)):
                nq = '%s.<locals>.%s' % (pq, n.name)
                yield nq, parent, n
                stack.append((nq, n))
            elif not isinstance(n, (ast.ClassDef, ast.Lambda)):
                todo.extend(ast.iter_child_nodes(n))


def _defs(tree):
    def top(stmts):
        for st in stmts:
            if isinstance(st, (ast.FunctionDef, ast.AsyncFunctionDef)):
                yield ('func', None, st)
            elif isinstance(st, ast.ClassDef):
                for s2 in st.body:
                    if isinstance(s2, (ast.FunctionDef,
                                       ast.AsyncFunctionDef)):
                        yield ('method', st, s2)
            elif isinstance(st, (ast.If, ast.Try)):
                for name in _BLOCKS:
                    yield from top(getattr(st, name, []))
                for h in getattr(st, 'handlers', []):
                    yield from top(h.body)
    yield from top(tree.body)


# ------------------------------------------------------------- eligibility
def _body_wo_doc(node):
    body = node.body
    if body and isinstance(body[0], ast.Expr) and \
            isinstance(body[0].value, ast.Constant) and \
            isinstance(body[0].value.value, str):
        body = body[1:]
    return body


def _is_generator(node):
    stack = list(node.body)
    while stack:
        n = stack.pop()
        if isinstance(n, (ast.Yield, ast.YieldFrom)):
            return True
        if isinstance(n, (ast.FunctionDef, ast.AsyncFunctionDef, ast.Lambda,
                          ast.ClassDef)):
            continue
        stack.extend(ast.iter_child_nodes(n))
    return False


def _pure_memo_decorator(d, node):
    """@lru_cache(...) / @cache on `def f(x): return re.compile(x)`."""
    name = ast.unparse(d.func if isinstance(d, ast.Call) else d)
    if name not in ('lru_cache', 'functools.lru_cache', 'cache',
                    'functools.cache'):
        return False
    body = _body_wo_doc(node)
    return len(body) == 1 and isinstance(body[0], ast.Return) and \
        isinstance(body[0].value, ast.Call) and \
        ast.unparse(body[0].value.func) in ('re.compile',) and \
        not body[0].value.keywords and all(
            isinstance(a, ast.Name) for a in body[0].value.args)


def _eligible(kind, owner, node):
    if isinstance(node, ast.AsyncFunctionDef):
        return None
    static = classm = False
    for d in node.decorator_list:
        if _pure_memo_decorator(d, node):
            continue        # memoising a pure one-liner changes nothing
        if isinstance(d, ast.Name) and d.id == 'staticmethod' and \
                kind == 'method':
            static = True
        elif isinstance(d, ast.Name) and d.id == 'classmethod' and \
                kind == 'method' and not static:
            classm = True
        else:
            return None
    a = node.args
    if a.kwarg or a.posonlyargs:
        return None
    if a.vararg and any(
            isinstance(x, ast.Name) and x.id == a.vararg.arg and
            isinstance(x.ctx, (ast.Store, ast.Del))
            for x in ast.walk(node)):
        return None
    if node.name.startswith('__') and node.name.endswith('__'):
        return None
    n_stmts = 0
    for n in ast.walk(node):
        if n is node:
            continue
        if isinstance(n, (ast.FunctionDef, ast.AsyncFunctionDef, ast.ClassDef,
                          ast.Await, ast.Global, ast.Nonlocal)):
            return None
        if isinstance(n, ast.Return) and n.value is not None and \
                _is_generator(node):
            return None     # a generator that also returns a value
        if isinstance(n, ast.stmt):
            n_stmts += 1
        if isinstance(n, ast.Name) and n.id == node.name:
            return None     # recursion or shadowing
        if isinstance(n, ast.Attribute) and n.attr == node.name and \
                kind == 'method':
            return None
        if isinstance(n, ast.Call) and isinstance(n.func, ast.Name) and \
                n.func.id in ('locals', 'vars', 'super'):
            return None
    if n_stmts > MAX_STMTS or not _body_wo_doc(node):
        return None
    params = [x.arg for x in a.args]
    if kind == 'method' and classm:
        if not params or params[0] != 'cls':
            return None
        return 'classmethod'
    if kind == 'method' and not static:
        if not params or params[0] != 'self':
            return None
    return 'static' if static else kind


# ------------------------------------------------------------- references
def _pkg_of(path):
    parts = modname_of(path).split('.')
    return parts if path.endswith('__init__.py') else parts[:-1]


def _import_target(path, node):
    """Absolute module named by a `from ... import` written in `path`."""
    if node.level == 0:
        return node.module or ''
    pkg = _pkg_of(path)
    up = node.level - 1
    if up:
        pkg = pkg[:-up]
    base = '.'.join(pkg)
    if node.module:
        base = base + '.' + node.module if base else node.module
    return base


def _module_bindings(trees, path):
    """{module-level name: origin} of a module: ('mod', absolute module) for
    an imported module, ('obj', module, name) for an imported or locally
    defined object; None for a name bound more than once."""
    key = ('bind', path)
    hit = _INDEX.get(key)
    if hit is not None and hit[0] is trees[path]:
        return hit[1]
    mods = {modname_of(p_) for p_ in trees}
    mod = modname_of(path)
    out = {}

    def bind(name, origin):
        if name in out and out[name] != origin:
            out[name] = None
        else:
            out[name] = origin

    def block(stmts):
        for st in stmts:
            if isinstance(st, (ast.FunctionDef, ast.AsyncFunctionDef,
                               ast.ClassDef)):
                bind(st.name, ('obj', mod, st.name))
            elif isinstance(st, ast.Import):
                for a in st.names:
                    if a.asname:
                        bind(a.asname, ('mod', a.name))
                    else:
                        top = a.name.split('.')[0]
                        bind(top, ('mod', top))
            elif isinstance(st, ast.ImportFrom):
                base = _import_target(path, st)
                for a in st.names:
                    full = base + '.' + a.name if base else a.name
                    if full in mods:
                        bind(a.asname or a.name, ('mod', full))
                    else:
                        bind(a.asname or a.name, ('obj', base, a.name))
            elif isinstance(st, (ast.Assign, ast.AnnAssign, ast.AugAssign)):
                tg = st.targets if isinstance(st, ast.Assign) else [st.target]
                for t in tg:
                    for x in ast.walk(t):
                        if isinstance(x, ast.Name):
                            bind(x.id, ('obj', mod, x.id))
            elif isinstance(st, (ast.If, ast.Try, ast.With, ast.For,
                                 ast.While)):
                for name in _BLOCKS:
                    lst = getattr(st, name, None)
                    if isinstance(lst, list) and lst and \
                            isinstance(lst[0], ast.stmt):
                        block(lst)
                for h in getattr(st, 'handlers', []) or []:
                    block(h.body)
                if isinstance(st, ast.For):
                    for x in ast.walk(st.target):
                        if isinstance(x, ast.Name):
                            out[x.id] = None
    block(trees[path].body)
    _INDEX[key] = (trees[path], out)
    return out


def _refs_function(trees, path, node):
    """(call nodes, ok, {id(call): path of the calling module}) for a
    module-level helper: plain calls in the defining module, and calls in
    the modules that import it by name (`from m import helper`) or reach it
    through the imported module (`m.helper(...)`)."""
    name = node.name
    defmod = modname_of(path)
    calls = []
    home = {}
    for p, tree in trees.items():
        local = {name} if p == path else set()
        aliases = None
        has_attr = False
        for n in ast.walk(tree):
            if isinstance(n, ast.Attribute) and n.attr == name:
                has_attr = True
            elif isinstance(n, ast.Import):
                for a in n.names:
                    if a.name == name or a.asname == name:
                        return [], False, {}
            elif isinstance(n, ast.ImportFrom):
                for a in n.names:
                    if a.name == name and p != path and \
                            n in tree.body and \
                            _import_target(p, n) == defmod:
                        local.add(a.asname or a.name)
                    elif a.name == name or a.asname == name:
                        return [], False, {}
        by_func = {}
        if has_attr or local:
            for n in ast.walk(tree):
                if isinstance(n, ast.Call):
                    by_func[id(n.func)] = n
        if has_attr:
            binds = _module_bindings(trees, p)
            for n in ast.walk(tree):
                if isinstance(n, ast.Attribute) and n.attr == name:
                    through_module = isinstance(n.value, ast.Name) and \
                        binds.get(n.value.id) == ('mod', defmod)
                    if not through_module:
                        # a method or attribute of the same name on some
                        # object: not this function -- unless the object
                        # could be the module itself
                        if isinstance(n.value, ast.Name) and \
                                binds.get(n.value.id, ('obj',))[0] == 'mod' \
                                and defmod.startswith(
                                    binds[n.value.id][1] + '.'):
                            return [], False, {}
                        continue
                    if p != path and id(n) in by_func and \
                            isinstance(n.ctx, ast.Load):
                        calls.append(by_func[id(n)])
                        home[id(by_func[id(n)])] = p
                    else:
                        return [], False, {}
        if not local:
            continue
        for n in ast.walk(tree):
            if isinstance(n, (ast.FunctionDef, ast.AsyncFunctionDef,
                              ast.ClassDef)) and n is not node and \
                    n.name in local:
                return [], False, {}
            if isinstance(n, ast.arg) and n.arg in local:
                return [], False, {}
            if isinstance(n, ast.Name) and n.id in local:
                if id(n) not in by_func or \
                        not isinstance(n.ctx, ast.Load):
                    return [], False, {}
                calls.append(by_func[id(n)])
                home[id(by_func[id(n)])] = p
    return calls, True, home


def _refs_method(trees, path, owner, node, static, classm=False):
    name = node.name
    inside = {id(n) for n in ast.walk(owner)}
    if not static:
        # `self.helper(...)` written in a subclass is the same method (no
        # class redefines it: checked below)
        parents = {}
        classes = [k for t in trees.values() for k in ast.walk(t)
                   if isinstance(k, ast.ClassDef)]
        for k in classes:
            parents[k.name] = {(b.attr if isinstance(b, ast.Attribute)
                                else getattr(b, 'id', '?')) for b in k.bases}

        def inherits(kname, seen=()):
            return any(b == owner.name or (b not in seen and inherits(
                b, seen + (b,))) for b in parents.get(kname, ()))
        for k in classes:
            if k is not owner and inherits(k.name):
                inside |= {id(n) for n in ast.walk(k)}
    calls = []
    by_func = {}
    for p, tree in trees.items():
        for n in ast.walk(tree):
            if isinstance(n, ast.ClassDef) and n is not owner:
                for s in n.body:
                    if isinstance(s, (ast.FunctionDef,
                                      ast.AsyncFunctionDef)) and \
                            s.name == name:
                        return [], False
                if n.name == owner.name and p == path:
                    return [], False       # class defined twice
            if isinstance(n, ast.Call) and isinstance(n.func, ast.Attribute):
                by_func[id(n.func)] = n
            if isinstance(n, ast.Constant) and n.value == name:
                return [], False           # getattr(self, 'name') and such
    # `self.<name>` inside a class that is neither an ancestor nor a
    # descendant of the owner is that class's own attribute
    bases = {}
    for p, tree in trees.items():
        for n in ast.walk(tree):
            if isinstance(n, ast.ClassDef):
                bases.setdefault(n.name, set()).update(
                    (b.attr if isinstance(b, ast.Attribute) else
                     getattr(b, 'id', '?')) for b in n.bases)

    def ancestors(k, seen=None):
        seen = seen if seen is not None else set()
        for b in bases.get(k, ()):
            if b not in seen:
                seen.add(b)
                ancestors(b, seen)
        return seen
    foreign = set()
    own_line = ancestors(owner.name) | {owner.name}
    for p, tree in trees.items():
        for k in ast.walk(tree):
            if isinstance(k, ast.ClassDef) and k is not owner and \
                    k.name not in own_line and \
                    owner.name not in ancestors(k.name) and \
                    '?' not in ancestors(k.name):
                for m in k.body:
                    if isinstance(m, (ast.FunctionDef,
                                      ast.AsyncFunctionDef)) and \
                            m.args.args and m.args.args[0].arg == 'self':
                        for x in ast.walk(m):
                            if isinstance(x, ast.Attribute) and \
                                    x.attr == name and \
                                    isinstance(x.value, ast.Name) and \
                                    x.value.id == 'self':
                                foreign.add(id(x))
    recv = ('self', owner.name) if static else ('self',)
    if classm:
        # `cls.helper(...)` written inside a classmethod of the same class:
        # the helper's cls is the caller's cls
        recv = ('cls', 'self')
        cls_scopes = set()
        for s in owner.body:
            if isinstance(s, ast.FunctionDef) and any(
                    isinstance(d, ast.Name) and d.id == 'classmethod'
                    for d in s.decorator_list) and s.args.args and \
                    s.args.args[0].arg == 'cls' and not any(
                        isinstance(x, ast.Name) and x.id == 'cls' and
                        isinstance(x.ctx, (ast.Store, ast.Del))
                        for x in ast.walk(s)) and sum(
                        1 for x in ast.walk(s) if isinstance(x, ast.arg)
                        and x.arg == 'cls') == 1:
                cls_scopes |= {id(x) for x in ast.walk(s)
                               if not (isinstance(x, ast.Attribute) and
                                       isinstance(x.value, ast.Name) and
                                       x.value.id == 'self')}
            elif isinstance(s, ast.FunctionDef) and not s.decorator_list \
                    and s.args.args and s.args.args[0].arg == 'self' and \
                    not any(isinstance(x, ast.Name) and x.id == 'self' and
                            isinstance(x.ctx, (ast.Store, ast.Del))
                            for x in ast.walk(s)):
                # through an instance: `self.helper(...)` in a plain method
                cls_scopes |= {id(x) for x in ast.walk(s)
                               if not (isinstance(x, ast.Attribute) and
                                       isinstance(x.value, ast.Name) and
                                       x.value.id == 'cls')}
        inside = inside & cls_scopes
    for p, tree in trees.items():
        for n in ast.walk(tree):
            if isinstance(n, ast.Attribute) and n.attr == name:
                if id(n) in foreign:
                    continue
                call = by_func.get(id(n))
                if call is None or id(n) not in inside or \
                        not isinstance(n.value, ast.Name) or \
                        n.value.id not in recv:
                    return [], False
                calls.append(call)
    for s in owner.body:
        if isinstance(s, ast.Assign) and any(
                isinstance(t, ast.Name) and t.id == name for t in s.targets):
            return [], False
    return calls, True


# --------------------------------------------------------------- inlining
def _simple_arg(e):
    if isinstance(e, (ast.Name, ast.Constant)):
        return True
    if isinstance(e, ast.Attribute):
        return _simple_arg(e.value)
    if isinstance(e, ast.Subscript):
        return _simple_arg(e.value) and isinstance(e.slice, ast.Constant)
    return False


_PURE_FUNCS = ('len', 'int', 'str', 'bool', 'tuple', 'list', 'set',
               'sorted', 'repr', 'isinstance', 'getattr')


def _dup_safe_arg(e):
    """An argument that may be written out at every use of the parameter:
    access paths, constants, dict-style `.get(...)` look-ups and pure
    builtins over such values."""
    if _simple_arg(e):
        return True
    if isinstance(e, ast.Call) and not any(
            isinstance(a, ast.Starred) for a in e.args):
        args = list(e.args) + [k.value for k in e.keywords]
        if not all(_dup_safe_arg(a) for a in args):
            return False
        if isinstance(e.func, ast.Attribute) and e.func.attr == 'get':
            return _dup_safe_arg(e.func.value)
        if isinstance(e.func, ast.Name) and e.func.id in _PURE_FUNCS:
            return True
        if isinstance(e.func, ast.Attribute) and \
                isinstance(e.func.value, ast.Name) and \
                e.func.value.id == 're' and e.func.attr == 'compile':
            return True
    if isinstance(e, (ast.Tuple, ast.List)):
        return all(_dup_safe_arg(x) for x in e.elts)
    return False


def _bound_names(stmts):
    out = set()
    for st in stmts:
        for n in ast.walk(st):
            if isinstance(n, ast.Name) and isinstance(n.ctx, (ast.Store,
                                                              ast.Del)):
                out.add(n.id)
            elif isinstance(n, ast.ExceptHandler) and n.name:
                out.add(n.name)
            elif isinstance(n, ast.arg):
                out.add(n.arg)
            elif isinstance(n, (ast.Import, ast.ImportFrom)):
                for a in n.names:
                    out.add((a.asname or a.name).split('.')[0])
    return out


def _idents(node):
    out = set()
    for n in ast.walk(node):
        if isinstance(n, ast.Name):
            out.add(n.id)
        elif isinstance(n, ast.arg):
            out.add(n.arg)
        elif isinstance(n, ast.ExceptHandler) and n.name:
            out.add(n.name)
    return out


class _Subst(ast.NodeTransformer):
    def __init__(self, exprs, renames):
        self.exprs = exprs
        self.renames = renames

    def visit_Name(self, node):
        if node.id in self.exprs and isinstance(node.ctx, ast.Load):
            return copy.deepcopy(self.exprs[node.id])
        if node.id in self.renames:
            return ast.copy_location(
                ast.Name(id=self.renames[node.id], ctx=node.ctx), node)
        return node

    def visit_arg(self, node):
        if node.arg in self.renames:
            node.arg = self.renames[node.arg]
        return node

    def visit_ExceptHandler(self, node):
        if node.name in self.renames:
            node.name = self.renames[node.name]
        return self.generic_visit(node)


class _TypeSelfAttr(ast.NodeTransformer):
    """type(self).name read through the instance: self.name (class
    attributes and classmethods are reachable either way)."""
    def visit_Attribute(self, node):
        self.generic_visit(node)
        v = node.value
        if isinstance(node.ctx, ast.Load) and isinstance(v, ast.Call) and \
                isinstance(v.func, ast.Name) and v.func.id == 'type' and \
                len(v.args) == 1 and isinstance(v.args[0], ast.Name) and \
                v.args[0].id == 'self' and not node.attr.startswith('__'):
            return ast.copy_location(ast.Attribute(
                value=ast.Name(id='self', ctx=ast.Load()), attr=node.attr,
                ctx=ast.Load()), node)
        return node


class _FoldGetattr(ast.NodeTransformer):
    """getattr(e, 'name') with a constant identifier is e.name."""
    def visit_Call(self, node):
        self.generic_visit(node)
        if isinstance(node.func, ast.Name) and node.func.id == 'getattr' \
                and len(node.args) == 2 and not node.keywords and \
                isinstance(node.args[1], ast.Constant) and \
                isinstance(node.args[1].value, str) and \
                node.args[1].value.isidentifier():
            return ast.copy_location(
                ast.Attribute(value=node.args[0], attr=node.args[1].value,
                              ctx=ast.Load()), node)
        return node


def _as_expression(body):
    """A straight-line helper `a = e1; b = e2(a); return e3(b)` where every
    local is bound once and read once is the expression e3(e2(e1)); returns
    that expression or None."""
    if body and any(isinstance(st, ast.If) for st in body):
        return _decision_expression(body)
    if not body or not isinstance(body[-1], ast.Return) or \
            body[-1].value is None:
        return None
    env = {}
    for st in body[:-1]:
        if not (isinstance(st, ast.Assign) and len(st.targets) == 1 and
                isinstance(st.targets[0], ast.Name)):
            return None
        name = st.targets[0].id
        if name in env:
            return None
        env[name] = st.value
    if not env:
        return body[-1].value
    uses = {}
    for st in body:
        root = st.value
        for n in ast.walk(root):
            if isinstance(n, ast.Name) and isinstance(n.ctx, ast.Load) and \
                    n.id in env:
                uses[n.id] = uses.get(n.id, 0) + 1
            if isinstance(n, (ast.Lambda, ast.ListComp, ast.SetComp,
                              ast.DictComp, ast.GeneratorExp)):
                return None
    if any(uses.get(k, 0) != 1 for k in env):
        return None
    order = list(env)
    # a local may only be read after its binding
    seen = set()
    for st in body:
        for n in ast.walk(st.value):
            if isinstance(n, ast.Name) and n.id in env and n.id not in seen:
                return None
        if isinstance(st, ast.Assign):
            seen.add(st.targets[0].id)
    expr = copy.deepcopy(body[-1].value)
    for name in reversed(order):
        expr = _Subst({name: env[name]}, {}).visit(expr)
        for later in order[order.index(name) + 1:]:
            pass
    # substitute transitively (values may mention earlier locals)
    for _ in range(len(order)):
        expr = _Subst({k: env[k] for k in order}, {}).visit(expr)
    return expr


class _Site(Exception):
    """This call site cannot be inlined."""


def _decision_expression(body):
    """A helper made only of `if` and `return` statements is a conditional
    expression: `if c: return a` / `return b` is `a if c else b`; with the
    constants True / False it is `bool(c)` (or `not c`)."""
    try:
        tail = _tailify(copy.deepcopy(body))
    except _Site:
        return None

    def conv(stmts):
        if len(stmts) != 1:
            return None
        st = stmts[0]
        if isinstance(st, ast.Return):
            return st.value
        if isinstance(st, ast.If) and st.orelse:
            a_, b_ = conv(st.body), conv(st.orelse)
            if a_ is None or b_ is None:
                return None

            def const(x, v):
                return isinstance(x, ast.Constant) and x.value is v
            if const(a_, True) and const(b_, False):
                return ast.copy_location(ast.Call(
                    func=ast.Name(id='bool', ctx=ast.Load()),
                    args=[st.test], keywords=[]), st)
            if const(a_, False) and const(b_, True):
                return ast.copy_location(ast.UnaryOp(
                    op=ast.Not(), operand=st.test), st)
            if const(a_, False):
                # False if c else x   is exactly   (not c) and x
                return ast.copy_location(ast.BoolOp(op=ast.And(), values=[
                    ast.UnaryOp(op=ast.Not(), operand=st.test), b_]), st)
            return ast.copy_location(ast.IfExp(test=st.test, body=a_,
                                               orelse=b_), st)
        return None
    return conv(tail)


def _bind(helper, kind, call):
    a = helper.args
    params = [x.arg for x in a.args]
    if kind == 'method':
        params = params[1:]
    defaults = dict(zip(reversed(params), reversed(a.defaults)))
    kwonly = [x.arg for x in a.kwonlyargs]
    for k, d in zip(a.kwonlyargs, a.kw_defaults):
        if d is not None:
            defaults[k.arg] = d
    bound = {}
    if any(isinstance(x, ast.Starred) for x in call.args) or \
            any(k.arg is None for k in call.keywords):
        raise _Site()
    extra = None
    if len(call.args) > len(params):
        if a.vararg is None:
            raise _Site()
        extra = list(call.args[len(params):])
    for p, v in zip(params, call.args):
        bound[p] = v
    for k in call.keywords:
        if k.arg in bound or k.arg not in params + kwonly:
            raise _Site()
        bound[k.arg] = k.value
    order = []
    for p in params + kwonly:
        if p in bound:
            order.append((p, bound[p]))
        elif p in defaults:
            order.append((p, defaults[p]))
        else:
            raise _Site()
    if a.vararg is not None:
        # *rest: the tuple of the remaining positional arguments
        rest = extra or []
        if not all(_dup_safe_arg(v) for v in rest):
            raise _Site()
        order.append((a.vararg.arg, ast.Tuple(elts=rest, ctx=ast.Load())))
    return order


def _contains_return(st):
    return any(isinstance(n, ast.Return) for n in ast.walk(st))


def _ends_abrupt(stmts):
    if not stmts:
        return False
    last = stmts[-1]
    if isinstance(last, (ast.Return, ast.Raise)):
        return True
    if isinstance(last, ast.If):
        return bool(last.orelse) and _ends_abrupt(last.body) and \
            _ends_abrupt(last.orelse)
    return False


def _tailify(stmts):
    """Rewrite so that every `return` is in tail position (early returns
    become if/else); raise _Site if a return sits in a loop / try / with."""
    out = []
    for i, st in enumerate(stmts):
        if isinstance(st, ast.Return):
            out.append(st)
            return out
        if isinstance(st, ast.If) and _contains_return(st):
            rest = stmts[i + 1:]
            body = _tailify(st.body)
            orelse = _tailify(st.orelse)
            if rest:
                if not _ends_abrupt(body):
                    body = _tailify(body + copy.deepcopy(rest))
                if not _ends_abrupt(orelse):
                    orelse = _tailify(orelse + copy.deepcopy(rest))
            new = ast.copy_location(
                ast.If(test=st.test, body=body or [_pass(st)],
                       orelse=orelse), st)
            out.append(new)
            return out
        if isinstance(st, ast.Try) and not st.finalbody and \
                not stmts[i + 1:] and not st.orelse and st.body and \
                isinstance(st.body[-1], ast.Return) and \
                not any(_contains_return(b) for b in st.body[:-1]):
            # try: ...; return v / except E: <return or raise>   (last
            # statement of the helper): every return is a tail already
            handlers = [ast.copy_location(ast.ExceptHandler(
                type=h.type, name=h.name,
                body=_tailify(h.body) or [_pass(h)]), h)
                for h in st.handlers]
            out.append(ast.copy_location(ast.Try(
                body=st.body, handlers=handlers, orelse=[], finalbody=[]),
                st))
            return out
        if isinstance(st, ast.Try) and not st.finalbody and \
                not any(_contains_return(b) for b in st.body) and \
                _contains_return(st):
            # try: BODY / except E: ...return x / REST  ->
            # try: BODY / except E: ...return x / else: REST   (REST runs
            # only when BODY raised nothing, outside the handlers: what an
            # else clause is); then every return is a tail of the try
            rest = stmts[i + 1:]
            orelse = _tailify(list(st.orelse) + copy.deepcopy(rest)) \
                if rest else _tailify(list(st.orelse))
            handlers = []
            for h in st.handlers:
                hb = _tailify(h.body)
                if rest and not _ends_abrupt(hb):
                    hb = _tailify(hb + copy.deepcopy(rest))
                handlers.append(ast.copy_location(ast.ExceptHandler(
                    type=h.type, name=h.name, body=hb or [_pass(h)]), h))
            out.append(ast.copy_location(ast.Try(
                body=st.body, handlers=handlers, orelse=orelse,
                finalbody=[]), st))
            return out
        if _contains_return(st):
            raise _Site()
        out.append(st)
    return out


def _loop_form(body, mode, targets, at):
    """Helper of the shape  <statements>; for ...: ... return v ...;
    return D  (D a constant) used as `x = helper()`:
        <statements>; x = D; for ...: ... x = v; break ...
    (the shape a search loop has before it is extracted)."""
    if len(body) < 2 or not isinstance(body[-1], ast.Return) or \
            not isinstance(body[-2], ast.For) or body[-2].orelse:
        raise _Site()
    default = body[-1].value
    if default is None:
        default = ast.Constant(value=None)
    if not isinstance(default, ast.Constant):
        raise _Site()
    if any(_contains_return(st) for st in body[:-2]):
        raise _Site()

    def assign(value, loc):
        if mode != 'assign':
            return []
        return [ast.copy_location(ast.Assign(
            targets=copy.deepcopy(targets), value=value,
            lineno=loc.lineno), loc)]

    def rewrite(stmts):
        out = []
        for st in stmts:
            if isinstance(st, ast.Return):
                v = st.value if st.value is not None else \
                    ast.Constant(value=None)
                out += assign(v, st)
                out.append(ast.copy_location(ast.Break(), st))
                return out
            if isinstance(st, (ast.For, ast.While, ast.AsyncFor)):
                if _contains_return(st):
                    raise _Site()
            elif isinstance(st, ast.If):
                st.body = rewrite(st.body)
                st.orelse = rewrite(st.orelse)
            elif isinstance(st, (ast.With, ast.AsyncWith)):
                st.body = rewrite(st.body)
            elif isinstance(st, ast.Try):
                if any(_contains_return(x) for x in st.finalbody):
                    raise _Site()
                st.body = rewrite(st.body)
                st.orelse = rewrite(st.orelse)
                for h in st.handlers:
                    h.body = rewrite(h.body)
            elif _contains_return(st):
                raise _Site()
            out.append(st)
        return out
    loop = body[-2]
    loop.body = rewrite(loop.body)
    return body[:-2] + assign(default, at) + [loop]


def _structured(body, mode, targets, at):
    """The helper body with its returns turned into assignments to
    `targets` (mode 'assign') or dropped (mode 'discard')."""
    try:
        return _finish(_tailify(body), mode, targets, at)
    except _Site:
        if mode == 'discard':
            done = _leave_last_loop(body)
            if done is not None:
                return done
        return _loop_form(body, mode, targets, at)


def _leave_last_loop(body):
    """A helper called for its effects whose last statement is a loop that
    it leaves with a bare `return`: the return is a `break` (nothing follows
    the loop).  None when a return sits elsewhere or in an inner loop."""
    if not body or not isinstance(body[-1], (ast.For, ast.While)) or \
            body[-1].orelse or any(_contains_return(st) for st in body[:-1]):
        return None
    loop = copy.deepcopy(body[-1])

    def rewrite(stmts):
        out = []
        for st in stmts:
            if isinstance(st, ast.Return):
                if st.value is not None and not (
                        isinstance(st.value, ast.Constant) and
                        st.value.value is None):
                    raise _Site()
                out.append(ast.copy_location(ast.Break(), st))
                continue
            if isinstance(st, (ast.For, ast.While, ast.AsyncFor)) and \
                    _contains_return(st):
                raise _Site()
            if isinstance(st, (ast.FunctionDef, ast.AsyncFunctionDef,
                               ast.ClassDef)):
                out.append(st)
                continue
            for name in _BLOCKS:
                blk = getattr(st, name, None)
                if isinstance(blk, list) and blk and \
                        isinstance(blk[0], ast.stmt):
                    setattr(st, name, rewrite(blk))
            for h in getattr(st, 'handlers', []) or []:
                h.body = rewrite(h.body)
            out.append(st)
        return out
    try:
        loop.body = rewrite(loop.body)
    except _Site:
        return None
    return list(body[:-1]) + [loop]


def _pass(at):
    return ast.copy_location(ast.Pass(), at)


def _finish(stmts, mode, targets, at):
    """Replace tail returns.  mode 'discard' | 'assign'."""
    def value_stmt(ret):
        v = ret.value
        if mode == 'assign':
            val = v if v is not None else ast.Constant(value=None)
            return [ast.copy_location(
                ast.Assign(targets=copy.deepcopy(targets), value=val,
                           lineno=ret.lineno), ret)]
        if v is not None and any(isinstance(n, (ast.Call, ast.Await))
                                 for n in ast.walk(v)):
            return [ast.copy_location(ast.Expr(value=v), ret)]
        return []

    def none_stmt():
        if mode == 'assign':
            return [ast.copy_location(
                ast.Assign(targets=copy.deepcopy(targets),
                           value=ast.Constant(value=None),
                           lineno=at.lineno), at)]
        return []

    if not stmts:
        return none_stmt()
    last = stmts[-1]
    if isinstance(last, ast.Return):
        return stmts[:-1] + value_stmt(last)
    if isinstance(last, ast.Raise):
        return stmts
    if isinstance(last, ast.If) and _contains_return(last):
        body = _finish(last.body, mode, targets, at) or [_pass(last)]
        orelse = _finish(last.orelse, mode, targets, at)
        return stmts[:-1] + [ast.copy_location(
            ast.If(test=last.test, body=body, orelse=orelse), last)]
    if isinstance(last, ast.Try) and _contains_return(last) and \
            not last.finalbody and last.body and \
            isinstance(last.body[-1], ast.Return):
        handlers = [ast.copy_location(ast.ExceptHandler(
            type=h.type, name=h.name,
            body=_finish(h.body, mode, targets, at) or [_pass(h)]), h)
            for h in last.handlers]
        return stmts[:-1] + [ast.copy_location(ast.Try(
            body=_finish(last.body, mode, targets, at) or [_pass(last)],
            handlers=handlers, orelse=[], finalbody=[]), last)]
    if isinstance(last, ast.Try) and _contains_return(last) and \
            not last.finalbody:
        handlers = [ast.copy_location(ast.ExceptHandler(
            type=h.type, name=h.name,
            body=_finish(h.body, mode, targets, at) or [_pass(h)]), h)
            for h in last.handlers]
        orelse = _finish(last.orelse, mode, targets, at) \
            if last.orelse or mode == 'assign' else []
        return stmts[:-1] + [ast.copy_location(ast.Try(
            body=last.body, handlers=handlers, orelse=orelse,
            finalbody=[]), last)]
    return stmts + none_stmt()


def _instantiate(helper, kind, call, caller_idents, tag, target=None,
                 as_expr=False):
    """(prefix assignments, body statements) of helper specialised for this
    call; returns stay as they are.  `target`: the caller assigns the result
    to this plain name."""
    order = _bind(helper, kind, call)
    body = copy.deepcopy(_body_wo_doc(helper))
    # a straight-line helper is always read as its expression; a helper
    # that decides with `if` only where a statement cannot stand
    expr = _as_expression(body)
    if expr is not None and not as_expr and any(
            isinstance(st, ast.If) for st in body):
        expr = None
    is_expr = expr is not None
    if expr is not None and (len(body) > 1 or
                             not isinstance(body[0], ast.Return)):
        body = [ast.copy_location(ast.Return(value=expr), body[-1])]
    bound = _bound_names(body)
    stored = {n.id for st in body for n in ast.walk(st)
              if isinstance(n, ast.Name) and
              isinstance(n.ctx, (ast.Store, ast.Del))}
    exprs = {}
    assigns = []
    arg_idents = set()
    for p, v in order:
        arg_idents |= _idents(v)
    clash = (bound | {p for p, _ in order}) & (caller_idents | arg_idents)
    renames = {}
    # `x = helper(...)` where the helper builds its result in a local and
    # returns it: build it in x directly
    rets = [n for st in body for n in ast.walk(st)
            if isinstance(n, ast.Return)]
    rnames = {n.value.id if isinstance(n.value, ast.Name) else None
              for n in rets}
    if target is not None and len(rnames) == 1 and None not in rnames:
        local = next(iter(rnames))
        if local in stored and local not in {p for p, _ in order} and \
                target not in arg_idents and \
                (target == local or target not in bound):
            if target != local:
                renames[local] = target
            clash = clash - {local}
    for name in sorted(clash):
        new = '%s_%s' % (name, tag)
        while new in caller_idents or new in bound:
            new += '_'
        renames[name] = new
    for p, v in order:
        if p not in stored and (_simple_arg(v) or
                                (is_expr and _dup_safe_arg(v)) or (
                                    helper.args.vararg is not None and
                                    p == helper.args.vararg.arg)):
            exprs[p] = v
            renames.pop(p, None)
        else:
            assigns.append((renames.get(p, p), v))
    if any(isinstance(d, ast.Name) and d.id == 'classmethod'
           for d in helper.decorator_list) and \
            isinstance(call.func, ast.Attribute) and \
            isinstance(call.func.value, ast.Name) and \
            call.func.value.id == 'self' and helper.args.args and \
            helper.args.args[0].arg not in stored:
        # a classmethod reached through an instance: cls is type(self)
        exprs[helper.args.args[0].arg] = ast.Call(
            func=ast.Name(id='type', ctx=ast.Load()),
            args=[ast.Name(id='self', ctx=ast.Load())], keywords=[])
    sub = _Subst(exprs, renames)
    body = [_FoldGetattr().visit(sub.visit(st)) for st in body]
    body = [_TypeSelfAttr().visit(st) for st in body]
    if any(isinstance(v, ast.Constant) for v in exprs.values()):
        body = _fold_constant_tests(body)
    pre = [ast.copy_location(
        ast.Assign(targets=[ast.Name(id=n, ctx=ast.Store())],
                   value=copy.deepcopy(v), lineno=call.lineno), call)
        for n, v in assigns]
    return pre, body


class _SplatFold(ast.NodeTransformer):
    """f(a, *[b, c]) is f(a, b, c)."""
    def visit_Call(self, node):
        self.generic_visit(node)
        args = []
        for a in node.args:
            if isinstance(a, ast.Starred) and \
                    isinstance(a.value, (ast.List, ast.Tuple)) and \
                    not any(isinstance(x, ast.Starred)
                            for x in a.value.elts):
                args.extend(a.value.elts)
            else:
                args.append(a)
        node.args = args
        # f(**dict.fromkeys(['a', 'b'], v)) is f(a=v, b=v); f(**{'a': x})
        kws = []
        for k in node.keywords:
            v = k.value
            if k.arg is None and isinstance(v, ast.Call) and \
                    ast.unparse(v.func) == 'dict.fromkeys' and \
                    len(v.args) == 2 and not v.keywords and \
                    isinstance(v.args[0], (ast.List, ast.Tuple)) and all(
                        isinstance(e, ast.Constant) and
                        isinstance(e.value, str) and e.value.isidentifier()
                        for e in v.args[0].elts) and \
                    isinstance(v.args[1], ast.Constant):
                kws.extend(ast.keyword(arg=e.value,
                                       value=copy.deepcopy(v.args[1]))
                           for e in v.args[0].elts)
            elif k.arg is None and isinstance(v, ast.Dict) and all(
                    isinstance(dk, ast.Constant) and
                    isinstance(dk.value, str) and dk.value.isidentifier()
                    for dk in v.keys):
                kws.extend(ast.keyword(arg=dk.value, value=dv)
                           for dk, dv in zip(v.keys, v.values))
            else:
                kws.append(k)
        node.keywords = kws
        return node


class _FoldConstTests(ast.NodeTransformer):
    """What a constant argument decides inside the helper written out:
    `a if True else b`, `None or x`, `if False: ...`."""
    def visit_IfExp(self, node):
        self.generic_visit(node)
        if isinstance(node.test, ast.Constant):
            return node.body if node.test.value else node.orelse
        return node

    def visit_BoolOp(self, node):
        self.generic_visit(node)
        vals = list(node.values)
        while len(vals) > 1 and isinstance(vals[0], (
                ast.Constant, ast.Tuple, ast.List)):
            truthy = bool(vals[0].value) \
                if isinstance(vals[0], ast.Constant) else bool(vals[0].elts)
            if isinstance(node.op, ast.Or) == truthy:
                return vals[0]          # decides the whole expression
            vals = vals[1:]
        if len(vals) == 1:
            return vals[0]
        node.values = vals
        return node

    def visit_UnaryOp(self, node):
        self.generic_visit(node)
        if isinstance(node.op, ast.Not) and \
                isinstance(node.operand, ast.Constant):
            return ast.copy_location(
                ast.Constant(value=not node.operand.value), node)
        return node

    def visit_Compare(self, node):
        self.generic_visit(node)
        if len(node.ops) == 1 and isinstance(node.left, ast.Constant) and \
                isinstance(node.comparators[0], ast.Constant) and \
                isinstance(node.ops[0], (ast.Is, ast.IsNot)) and \
                (node.left.value is None or
                 node.comparators[0].value is None):
            same = node.left.value is node.comparators[0].value
            return ast.copy_location(ast.Constant(
                value=same if isinstance(node.ops[0], ast.Is) else not same),
                node)
        return node


def _fold_constant_tests(body):
    out = []
    for st in body:
        st = _FoldConstTests().visit(st)
        out.append(st)

    def block(stmts):
        res = []
        for st in stmts:
            for name in _BLOCKS:
                lst = getattr(st, name, None)
                if isinstance(lst, list) and lst and \
                        isinstance(lst[0], ast.stmt):
                    new = block(lst)
                    setattr(st, name, new or ([_pass(st)] if name == 'body'
                                              else []))
            for h in getattr(st, 'handlers', []) or []:
                h.body = block(h.body) or [_pass(st)]
            if isinstance(st, ast.If) and isinstance(st.test, ast.Constant):
                res.extend(st.body if st.test.value else st.orelse)
            else:
                res.append(st)
        return res
    return block(out)


def _first_evaluated(e, target):
    """Is `target` (a Call node) the first thing with an effect that
    evaluating e evaluates?"""
    while True:
        if e is target:
            return True
        if isinstance(e, ast.BoolOp):
            e = e.values[0]
        elif isinstance(e, ast.UnaryOp):
            e = e.operand
        elif isinstance(e, ast.Compare):
            e = e.left
        elif isinstance(e, ast.BinOp):
            e = e.left
        elif isinstance(e, ast.IfExp):
            e = e.test
        elif isinstance(e, (ast.Attribute, ast.Subscript, ast.Starred)):
            e = e.value
        elif isinstance(e, ast.Yield) and e.value is not None:
            e = e.value
        elif isinstance(e, ast.Call):
            if not _simple_arg(e.func):
                e = e.func
            elif e.args:
                e = e.args[0]
            elif e.keywords:
                e = e.keywords[0].value
            else:
                return False
        elif isinstance(e, (ast.Tuple, ast.List, ast.Set)) and e.elts:
            e = e.elts[0]
        else:
            return False


class _Replace(ast.NodeTransformer):
    def __init__(self, old, new):
        self.old, self.new = old, new

    def generic_visit(self, node):
        if node is self.old:
            return self.new
        return super().generic_visit(node)

    def visit(self, node):
        if node is self.old:
            return self.new
        return super().visit(node)


def _own_exprs(st):
    """Expression children of a statement that are evaluated as part of the
    statement itself (not inside its blocks)."""
    for name, val in ast.iter_fields(st):
        if name in _BLOCKS or name == 'handlers':
            continue
        vals = val if isinstance(val, list) else [val]
        for v in vals:
            if isinstance(v, ast.AST) and not isinstance(v, ast.stmt):
                yield v


def _nested_defs_to_lambdas(helper):
    """Inside a helper that is going to be written out: `def rank(b):
    return E` (one expression, no decorator, plain parameters) is
    `rank = lambda b: E`, which can travel with the body."""
    for blk in ast.walk(helper):
        for name in _BLOCKS:
            lst = getattr(blk, name, None)
            if not isinstance(lst, list):
                continue
            for i, st in enumerate(lst):
                if isinstance(st, ast.FunctionDef) and st is not helper and \
                        not st.decorator_list and st.returns is None:
                    body = _body_wo_doc(st)
                    if len(body) == 1 and isinstance(body[0], ast.Return) \
                            and body[0].value is not None and not any(
                                isinstance(x, (ast.Yield, ast.YieldFrom,
                                               ast.Await))
                                for x in ast.walk(body[0].value)) and \
                            not any(a.annotation is not None
                                    for a in ast.walk(st.args)
                                    if isinstance(a, ast.arg)):
                        lst[i] = ast.copy_location(ast.Assign(
                            targets=[ast.Name(id=st.name, ctx=ast.Store())],
                            value=ast.Lambda(args=st.args,
                                             body=body[0].value),
                            lineno=st.lineno), st)
                        ast.fix_missing_locations(lst[i])


class Inliner:
    def __init__(self, trees, known):
        self.trees = trees
        self.known = known
        self.log = []
        self._foreign_cache = {}
        self._foreign_keep = []     # keeps ids in _foreign_cache alive

    def run(self):
        for _ in range(MAX_ROUNDS):
            progress = False
            for path in sorted(self.trees):
                tree = self.trees[path]
                mod = modname_of(path)
                if '/_verif_' in path:
                    continue        # a checker's own control module
                for kind, owner, node in list(_defs(tree)):
                    q = '%s.%s' % (mod, node.name) if owner is None else \
                        '%s.%s.%s' % (mod, owner.name, node.name)
                    if q in self.known:
                        continue
                    _nested_defs_to_lambdas(node)
                    k = _eligible(kind, owner, node)
                    if k is None:
                        continue
                    if self._inline(path, q, k, owner, node):
                        progress = True
                # closures defined inside a function the census knows
                for kind, owner, node in list(_defs(tree)):
                    q = '%s.%s' % (mod, node.name) if owner is None else \
                        '%s.%s.%s' % (mod, owner.name, node.name)
                    for nq, parent, sub in list(_nested_defs(q, node)):
                        if nq in self.known or sub.decorator_list or \
                                _eligible('func', None, sub) is None:
                            continue
                        if self._inline_nested(path, nq, parent, sub):
                            progress = True
            if not progress:
                break
        return self.log

    def _inline_nested(self, path, q, parent, node):
        """A closure that is only ever called, by its enclosing function:
        its free variables are the caller's own, so the body can stand at
        the call sites as it is."""
        name = node.name
        calls, other = [], False
        for n in ast.walk(parent):
            if n is node:
                continue
            if isinstance(n, ast.Name) and n.id == name:
                other = True            # decided below
        by_func = {}
        for n in ast.walk(parent):
            if isinstance(n, ast.Call) and isinstance(n.func, ast.Name) and \
                    n.func.id == name:
                by_func[id(n.func)] = n
        inside = {id(x) for x in ast.walk(node)}
        for n in ast.walk(parent):
            if isinstance(n, ast.Name) and n.id == name and \
                    id(n) not in inside:
                if id(n) not in by_func:
                    return False        # used as a value (key=..., return)
                calls.append(by_func[id(n)])
            if isinstance(n, ast.arg) and n.arg == name:
                return False
        if not calls:
            return False
        # calls must come after the definition (statement order)
        order = {id(x): i for i, x in enumerate(ast.walk(parent))}
        want = {id(c) for c in calls}
        done = set()
        tag = name.strip('_')
        idents = _idents(parent) - {name}
        scopes = [parent] + [x for x in ast.walk(parent)
                             if isinstance(x, (ast.FunctionDef,
                                               ast.AsyncFunctionDef))
                             and x is not parent and x is not node]
        expr_helper = _as_expression(_body_wo_doc(node)) is not None
        decides = any(isinstance(st, ast.If) for st in _body_wo_doc(node))
        for scope in scopes:
            here = [n for n in self._walk_scope(scope)
                    if isinstance(n, ast.Call) and id(n) in want]
            if not here:
                continue
            if decides or not expr_helper:
                self._rewrite_blocks(scope, node, 'func', want - done,
                                     idents, tag, done)
            if expr_helper:
                for call in here:
                    if id(call) in done:
                        continue
                    try:
                        pre, b = _instantiate(node, 'func', call, idents,
                                              tag, as_expr=True)
                    except _Site:
                        continue
                    if pre:
                        continue
                    new = ast.copy_location(b[0].value, call)
                    _Replace(call, new).visit(scope)
                    done.add(id(call))
            if not all(id(c) in done for c in here):
                self._rewrite_blocks(scope, node, 'func', want - done,
                                     idents, tag, done)
        if done and done == want:
            container = self._container_of(self.trees[path], node)
            if container is not None and node in container:
                container.remove(node)
                if not container:
                    container.append(_pass(node))
            self.log.append((q, len(done), True))
        elif done:
            self.log.append((q, len(done), False))
        for t in self.trees.values():
            ast.fix_missing_locations(t)
        return bool(done)

    # one helper
    def _inline(self, path, q, kind, owner, node):
        home = {}
        self._foreign_cache = {}
        if kind == 'func':
            calls, ok, home = _refs_function(self.trees, path, node)
        else:
            calls, ok = _refs_method(self.trees, path, owner, node,
                                     kind == 'static', kind == 'classmethod')
        if not ok or not calls:
            return False
        bind_kind = 'method' if kind in ('method', 'classmethod') else 'func'
        tree = self.trees[path]
        expr_helper = _as_expression(_body_wo_doc(node)) is not None
        decides = any(isinstance(st, ast.If) for st in _body_wo_doc(node))
        dexpr = _as_expression(_body_wo_doc(node))
        boolean = isinstance(dexpr, (ast.BoolOp, ast.Compare)) or (
            isinstance(dexpr, ast.UnaryOp) and
            isinstance(dexpr.op, ast.Not)) or (
            isinstance(dexpr, ast.Call) and
            isinstance(dexpr.func, ast.Name) and dexpr.func.id == 'bool')
        want = {id(c) for c in calls}
        done = set()
        tag = node.name.strip('_')
        # containers to rewrite: every function (or the module) that holds
        # a call -- in the defining module, and in the modules that import
        # the helper
        origin = node
        homes = [path] + sorted({p_ for p_ in home.values() if p_ != path})
        for hp, scope in [(hp, sc) for hp in homes
                          for sc in self._scopes(self.trees[hp])]:
            if scope is origin:
                continue
            if hp != path:
                node = self._foreign(origin, path, hp)
                if node is None:
                    continue
            else:
                node = origin
            here = [n for n in self._walk_scope(scope)
                    if isinstance(n, ast.Call) and id(n) in want]
            if not here:
                continue
            idents = _idents(scope) if not isinstance(scope, ast.Module) \
                else {n.id for n in self._walk_scope(scope)
                      if isinstance(n, ast.Name)}
            if decides and boolean:
                # a helper that answers yes / no, used in a condition: its
                # condition takes its place
                for call in here:
                    if not self._boolean_context(scope, call):
                        continue
                    try:
                        pre, b = _instantiate(node, bind_kind, call, idents,
                                              tag, as_expr=True)
                    except _Site:
                        continue
                    if pre:
                        continue
                    new = ast.copy_location(b[0].value, call)
                    if isinstance(new, ast.Call) and \
                            isinstance(new.func, ast.Name) and \
                            new.func.id == 'bool' and len(new.args) == 1:
                        new = new.args[0]
                    _Replace(call, new).visit(scope)
                    done.add(id(call))
            if decides:
                # statement positions first: the control flow stays visible
                self._rewrite_blocks(scope, node, bind_kind, want - done,
                                     idents, tag, done)
            if expr_helper:
                for call in here:
                    if id(call) in done:
                        continue
                    try:
                        pre, b = _instantiate(node, bind_kind, call, idents,
                                              tag, as_expr=True)
                    except _Site:
                        continue
                    if pre:
                        continue     # needs a statement position: below
                    new = ast.copy_location(b[0].value, call)
                    if isinstance(new, ast.Call) and \
                            isinstance(new.func, ast.Name) and \
                            new.func.id == 'bool' and len(new.args) == 1 \
                            and self._boolean_context(scope, call):
                        new = new.args[0]      # `if bool(c):` is `if c:`
                    _Replace(call, new).visit(scope)
                    done.add(id(call))
            if not all(id(c) in done for c in here):
                self._rewrite_blocks(scope, node, bind_kind, want - done,
                                     idents, tag, done)
        node = origin
        if done and done == want:
            self._drop_imports(path, node.name, homes[1:])
            container = owner.body if owner is not None else \
                self._container_of(tree, node)
            if container is not None and node in container:
                container.remove(node)
                if not container:
                    container.append(_pass(node))
            self.log.append((q, len(done), True))
        elif done:
            self.log.append((q, len(done), False))
        for t in self.trees.values():
            ast.fix_missing_locations(t)
        return bool(done)

    def _foreign(self, helper, path, p):
        """The helper as it reads in module p: its module-level names are
        written the way p names the same objects (an import of the same
        object, the imported module, or an import added to p); None when
        that cannot be done."""
        key = (id(helper), p)
        if key in self._foreign_cache:
            return self._foreign_cache[key]
        self._foreign_cache[key] = None
        dbind = _module_bindings(self.trees, path)
        pbind = _module_bindings(self.trees, p)
        ptree = self.trees[p]
        if any(isinstance(n, (ast.Global, ast.Nonlocal))
               for n in ast.walk(helper)):
            return None
        own = {a.arg for a in ast.walk(helper.args)
               if isinstance(a, ast.arg)}
        for n in ast.walk(helper):
            if isinstance(n, ast.Name) and \
                    isinstance(n.ctx, (ast.Store, ast.Del)):
                own.add(n.id)
            elif isinstance(n, ast.ExceptHandler) and n.name:
                own.add(n.name)
            elif isinstance(n, (ast.FunctionDef, ast.AsyncFunctionDef,
                                ast.ClassDef)) and n is not helper:
                own.add(n.name)
            elif isinstance(n, ast.arg):
                own.add(n.arg)
            elif isinstance(n, (ast.Import, ast.ImportFrom)):
                return None
        free = {n.id for n in ast.walk(helper) if isinstance(n, ast.Name)
                and isinstance(n.ctx, ast.Load)} - own
        import builtins
        used = _idents(ptree) | {
            n.name for n in ast.walk(ptree)
            if isinstance(n, (ast.FunctionDef, ast.AsyncFunctionDef,
                              ast.ClassDef))} | set(pbind)
        ren = {}
        add = []
        for g in sorted(free):
            if g not in dbind:
                if hasattr(builtins, g) and g not in pbind:
                    continue
                return None
            o = dbind[g]
            if o is None:
                return None
            same = sorted(h for h, oo in pbind.items() if oo == o)
            if g in same:
                continue
            if o == ('obj', modname_of(path), g) and \
                    pbind.get(g) == ('obj', modname_of(p), g) and \
                    self._module_logger(path, g) and \
                    self._module_logger(p, g):
                continue        # each module's own logger, same name
            if same:
                if same[0] in own:
                    return None
                ren[g] = ast.Name(id=same[0], ctx=ast.Load())
                continue
            if o[0] == 'obj':
                via = sorted(h for h, oo in pbind.items()
                             if oo == ('mod', o[1]) and h not in own)
                if via:
                    ren[g] = ast.Attribute(
                        value=ast.Name(id=via[0], ctx=ast.Load()),
                        attr=o[2], ctx=ast.Load())
                    continue
            if g in used:
                return None
            add.append((g, o))
        for g, o in add:
            if o[0] == 'mod':
                st = ast.Import(names=[ast.alias(name=o[1], asname=g)])
            else:
                st = ast.ImportFrom(module=o[1], level=0, names=[
                    ast.alias(name=o[2], asname=None if g == o[2] else g)])
            at = 0
            for k, b in enumerate(ptree.body):
                if isinstance(b, (ast.Import, ast.ImportFrom)):
                    at = k + 1
            if at == 0 and ptree.body and isinstance(
                    ptree.body[0], ast.Expr) and isinstance(
                    ptree.body[0].value, ast.Constant):
                at = 1
            ref = ptree.body[at - 1] if at else (
                ptree.body[0] if ptree.body else helper)
            ptree.body.insert(at, ast.copy_location(st, ref))
            ast.fix_missing_locations(ptree)
            _INDEX.pop(('bind', p), None)
        out = copy.deepcopy(helper)

        class R(ast.NodeTransformer):
            def visit_Name(self, n):
                if isinstance(n.ctx, ast.Load) and n.id in ren:
                    return ast.copy_location(copy.deepcopy(ren[n.id]), n)
                return n
        out.body = [R().visit(b) for b in out.body]
        ast.fix_missing_locations(out)
        self._foreign_cache[key] = out
        self._foreign_keep.append(helper)
        return out

    def _module_logger(self, path, name):
        for st in self.trees[path].body:
            if isinstance(st, ast.Assign) and len(st.targets) == 1 and \
                    isinstance(st.targets[0], ast.Name) and \
                    st.targets[0].id == name:
                return isinstance(st.value, ast.Call) and \
                    ast.unparse(st.value.func) in ('logging.getLogger',
                                                   'getLogger')
        return False

    def _drop_imports(self, path, name, others):
        """The helper is gone: so are the `from m import helper` of the
        modules that called it."""
        defmod = modname_of(path)
        for p in others:
            tree = self.trees[p]
            for st in list(tree.body):
                if isinstance(st, ast.ImportFrom) and \
                        _import_target(p, st) == defmod and \
                        any(a.name == name for a in st.names):
                    st.names = [a for a in st.names if a.name != name]
                    if not st.names:
                        tree.body.remove(st)
            _INDEX.pop(('bind', p), None)

    def _boolean_context(self, scope, call):
        for n in ast.walk(scope):
            for name, val in ast.iter_fields(n):
                vals = val if isinstance(val, list) else [val]
                if not any(v is call for v in vals):
                    continue
                if isinstance(n, ast.UnaryOp) and isinstance(n.op, ast.Not):
                    return True
                if isinstance(n, ast.BoolOp):
                    # the value of `a and b` is used as a value unless the
                    # BoolOp itself is in a boolean context; accept the
                    # common case of a test
                    return self._boolean_context(scope, n) or True
                if name == 'test' and isinstance(n, (ast.If, ast.While,
                                                     ast.IfExp,
                                                     ast.Assert)):
                    return True
                return False
        return False

    def _container_of(self, tree, node):
        for n in ast.walk(tree):
            for name in _BLOCKS:
                lst = getattr(n, name, None)
                if isinstance(lst, list) and node in lst:
                    return lst
        return None

    def _scopes(self, tree):
        yield tree
        for n in ast.walk(tree):
            if isinstance(n, (ast.FunctionDef, ast.AsyncFunctionDef)):
                yield n

    def _walk_scope(self, scope):
        """Nodes of a scope, not descending into nested function defs (they
        are scopes of their own); class bodies are walked (class-level code
        belongs to the enclosing scope) but their methods are not."""
        stack = list(ast.iter_child_nodes(scope))
        while stack:
            n = stack.pop()
            yield n
            if isinstance(n, (ast.FunctionDef, ast.AsyncFunctionDef)):
                # decorators and defaults belong to the enclosing scope
                stack.extend(n.decorator_list)
                stack.extend(n.args.defaults)
                continue
            stack.extend(ast.iter_child_nodes(n))

    def _rewrite_blocks(self, scope, helper, kind, want, idents, tag, done):
        def block(stmts):
            out = []
            for st in stmts:
                if isinstance(st, (ast.FunctionDef, ast.AsyncFunctionDef)):
                    out.append(st)
                    continue
                if isinstance(st, ast.ClassDef):
                    out.append(st)
                    continue
                for name in _BLOCKS:
                    lst = getattr(st, name, None)
                    if isinstance(lst, list) and lst and \
                            isinstance(lst[0], ast.stmt):
                        setattr(st, name, block(lst))
                for h in getattr(st, 'handlers', []) or []:
                    h.body = block(h.body)
                for case in getattr(st, 'cases', []) or []:
                    case.body = block(case.body)
                out.extend(self._stmt(st, helper, kind, want, idents, tag,
                                      done))
            return out
        scope.body = block(scope.body)

    def _stmt(self, st, helper, kind, want, idents, tag, done):
        calls = []
        for e in _own_exprs(st):
            for n in ast.walk(e):
                if isinstance(n, ast.Call) and id(n) in want:
                    calls.append(n)
        if len(calls) != 1:
            return [st]
        call = calls[0]
        # `if a and helper(): body` (no else) is `if a: if helper(): body`
        if isinstance(st, ast.If) and not st.orelse and \
                isinstance(st.test, ast.BoolOp) and \
                isinstance(st.test.op, ast.And):
            vals = st.test.values
            for k in range(1, len(vals)):
                if _first_evaluated(vals[k], call):
                    outer = vals[0] if k == 1 else ast.copy_location(
                        ast.BoolOp(op=ast.And(), values=vals[:k]), st.test)
                    inner_t = vals[k] if k == len(vals) - 1 else \
                        ast.copy_location(ast.BoolOp(op=ast.And(),
                                                     values=vals[k:]),
                                          st.test)
                    inner = ast.copy_location(
                        ast.If(test=inner_t, body=st.body, orelse=[]), st)
                    new_inner = self._stmt(inner, helper, kind, want, idents,
                                           tag, done)
                    if id(call) not in done:
                        return [st]
                    return [ast.copy_location(
                        ast.If(test=outer, body=new_inner, orelse=[]), st)]
        target = None
        if isinstance(st, ast.Assign) and st.value is call and \
                len(st.targets) == 1 and isinstance(st.targets[0], ast.Name):
            target = st.targets[0].id
        delegated = isinstance(st, ast.Expr) and \
            isinstance(st.value, ast.YieldFrom) and st.value.value is call
        if _is_generator(helper) and isinstance(st, ast.For) and \
                st.iter is call and not st.orelse:
            # for T in gen(args): BODY -- a generator that is one loop with
            # one yield: its loop, with `T = <yielded>; BODY` where it yields
            # (break leaves that loop, which is all the generator does)
            try:
                pre, gbody = _instantiate(helper, kind, call, idents, tag)
            except _Site:
                return [st]
            if len(gbody) != 1 or not isinstance(gbody[0], ast.For) or \
                    gbody[0].orelse:
                return [st]
            loop = gbody[0]
            ys = [x for x in ast.walk(loop)
                  if isinstance(x, (ast.Yield, ast.YieldFrom))]
            inner_loops = [x for x in ast.walk(loop) if x is not loop and
                           isinstance(x, (ast.For, ast.While))]
            if len(ys) != 1 or not isinstance(ys[0], ast.Yield) or \
                    ys[0].value is None or any(
                        ys[0] in list(ast.walk(x)) for x in inner_loops):
                return [st]
            ynames = {x.id for x in ast.walk(loop) if isinstance(x, ast.Name)}
            tnames = {x.id for x in ast.walk(st.target)
                      if isinstance(x, ast.Name)}
            bnames = {x.id for b in st.body for x in ast.walk(b)
                      if isinstance(x, ast.Name) and
                      isinstance(x.ctx, (ast.Store, ast.Del))}
            if (tnames | bnames) & ynames:
                return [st]
            placed = [False]
            has_continue = any(isinstance(x, ast.Continue)
                               for b in st.body for x in ast.walk(b))

            def put(stmts, tail):
                out = []
                for k_, s2 in enumerate(stmts):
                    last = tail and k_ == len(stmts) - 1
                    if isinstance(s2, ast.Expr) and s2.value is ys[0]:
                        if has_continue and not last:
                            return None
                        out.append(ast.copy_location(ast.Assign(
                            targets=[st.target], value=ys[0].value,
                            lineno=st.lineno), st))
                        out.extend(st.body)
                        placed[0] = True
                        continue
                    for name in ('body', 'orelse'):
                        blk = getattr(s2, name, None)
                        if isinstance(blk, list) and blk and \
                                isinstance(blk[0], ast.stmt) and \
                                not isinstance(s2, (ast.FunctionDef,
                                                    ast.ClassDef)):
                            new = put(blk, last and isinstance(s2, ast.If))
                            if new is None:
                                return None
                            setattr(s2, name, new)
                    out.append(s2)
                return out
            new_body = put(loop.body, True)
            if new_body is None or not placed[0]:
                return [st]
            loop.body = new_body
            ast.copy_location(loop, st)
            done.add(id(call))
            return pre + [loop]
        if _is_generator(helper) and not delegated:
            return [st]     # a generator is only written out under yield from
        if delegated and not _is_generator(helper):
            return [st]
        try:
            pre, body = _instantiate(helper, kind, call, idents, tag, target)
            if delegated:
                # `yield from gen(...)`: the generator's body, yields and all
                body = _structured(body, 'discard', None, st)
                done.add(id(call))
                return pre + (body or [_pass(st)])
            if isinstance(st, ast.Return) and st.value is call:
                if not _ends_abrupt(body):
                    body = body + [ast.copy_location(
                        ast.Return(value=None), st)]
                done.add(id(call))
                return pre + body
            if isinstance(st, ast.Expr) and st.value is call:
                body = _structured(body, 'discard', None, st)
                done.add(id(call))
                return pre + (body or [_pass(st)])
            if isinstance(st, ast.Assign) and st.value is call:
                body = _structured(body, 'assign', st.targets, st)
                body = [b for b in body if not (
                    isinstance(b, ast.Assign) and len(b.targets) == 1 and
                    isinstance(b.targets[0], ast.Name) and
                    isinstance(b.value, ast.Name) and
                    b.targets[0].id == b.value.id)]
                done.add(id(call))
                return pre + (body or [_pass(st)])
            if isinstance(st, (ast.If, ast.Assign, ast.Return, ast.Expr,
                               ast.AugAssign, ast.AnnAssign, ast.Assert,
                               ast.Raise, ast.For)):
                root = st.test if isinstance(st, (ast.If, ast.Assert)) else \
                    st.exc if isinstance(st, ast.Raise) else \
                    st.iter if isinstance(st, ast.For) else st.value
                if root is None or not _first_evaluated(root, call):
                    return [st]
                tmp = '%s_result' % tag
                while tmp in idents:
                    tmp += '_'
                idents.add(tmp)
                tgt = [ast.Name(id=tmp, ctx=ast.Store())]
                body = _structured(body, 'assign', tgt, st)
                new = ast.copy_location(ast.Name(id=tmp, ctx=ast.Load()),
                                        call)
                for name, val in list(ast.iter_fields(st)):
                    if name in _BLOCKS or name == 'handlers':
                        continue
                    if val is call:
                        setattr(st, name, new)
                    elif isinstance(val, ast.AST):
                        _Replace(call, new).visit(val)
                    elif isinstance(val, list):
                        setattr(st, name, [
                            new if v is call else
                            (_Replace(call, new).visit(v)
                             if isinstance(v, ast.AST) else v) for v in val])
                done.add(id(call))
                return pre + body + [st]
        except _Site:
            return [st]
        return [st]


class _Desugar(ast.NodeTransformer):
    """`return any(C for T in I if F)` is the loop
           for T in I:
               if F and C: return True
           return False
    (and dually for all): the two spellings get one control-flow graph."""
    def __init__(self, consts=None):
        self.count = 0
        self.consts = consts or {}
        self.records = {}

    def _block(self, stmts):
        out = []
        for st in stmts:
            st = self.visit(st)
            rep = self._rewrite(st) if isinstance(st, ast.Return) else None
            if rep is None:
                out.append(st)
            else:
                out.extend(rep)
                self.count += 1
        out = self._search_then_use(self._first_match(self._walrus(
            self._unroll(self._unroll_records(self._table_comprehension(
                self._accumulate(self._devirtualise(
                    self._sink_after_choice(self._const_then_test(
                        self._return_of_result(out)))))))))))
        out = self._conditional_assign(self._match_literals(out))
        return self._dict_dispatch(out)

    def generic_visit(self, node):
        for name in _BLOCKS:
            lst = getattr(node, name, None)
            if isinstance(lst, list) and lst and isinstance(lst[0], ast.stmt):
                setattr(node, name, self._block(lst))
        if isinstance(node, ast.Try):
            node.handlers = self._split_handlers(node.handlers)
        for h in getattr(node, 'handlers', []) or []:
            h.body = self._block(h.body)
        for case in getattr(node, 'cases', []) or []:
            case.body = self._block(case.body)
        return node

    def _split_handlers(self, handlers):
        """except (A, B) as e:                 except A as e: X
               if isinstance(e, A): X    ->    except B as e: Y
               else: Y
        (an instance of A goes to X either way; anything else that was
        caught is a B)."""
        out = []
        for h in handlers:
            body = [st for st in h.body if not (
                isinstance(st, ast.Expr) and
                isinstance(st.value, ast.Constant))]
            # `if isinstance(e, A): <leaves>` followed by the rest of the
            # handler: the rest is the else part
            if len(body) >= 2 and isinstance(body[0], ast.If) and \
                    not body[0].orelse and body[0].body and \
                    isinstance(body[0].body[-1], (ast.Raise, ast.Return,
                                                  ast.Continue, ast.Break)):
                body = [ast.copy_location(ast.If(
                    test=body[0].test, body=body[0].body,
                    orelse=body[1:]), body[0])]
            # statements before the dispatch run whichever class it is:
            # they go to both handlers
            prefix, body = body[:-1], body[-1:]
            if any(isinstance(n, ast.Name) and n.id == h.name and
                   isinstance(n.ctx, (ast.Store, ast.Del))
                   for st in prefix for n in ast.walk(st)) or any(
                    isinstance(n, (ast.Return, ast.Raise, ast.Break,
                                   ast.Continue, ast.Yield, ast.YieldFrom))
                    for st in prefix for n in ast.walk(st)):
                out.append(h)
                continue
            t = body[0].test if len(body) == 1 and \
                isinstance(body[0], ast.If) and body[0].orelse else None
            if isinstance(h.type, (ast.Name, ast.Attribute)) and h.name and \
                    isinstance(t, ast.Call) and \
                    isinstance(t.func, ast.Name) and \
                    t.func.id == 'isinstance' and len(t.args) == 2 and \
                    isinstance(t.args[0], ast.Name) and \
                    t.args[0].id == h.name and \
                    ast.dump(t.args[1]) == ast.dump(h.type):
                # except A as e: if isinstance(e, A): S1 else: S2  is  S1
                out.append(ast.copy_location(ast.ExceptHandler(
                    type=h.type, name=h.name,
                    body=prefix + body[0].body), h))
                self.count += 1
                continue
            if isinstance(h.type, (ast.Name, ast.Attribute)) and h.name and \
                    isinstance(t, ast.Call) and \
                    isinstance(t.func, ast.Name) and \
                    t.func.id == 'isinstance' and len(t.args) == 2 and \
                    isinstance(t.args[0], ast.Name) and \
                    t.args[0].id == h.name and \
                    isinstance(t.args[1], (ast.Name, ast.Attribute)) and \
                    ast.dump(t.args[1]) != ast.dump(h.type):
                # except X as e: if isinstance(e, A): S1 else: S2
                #   ->  except A as e: S1  /  except X as e: S2   (the
                # handlers before it are tried first either way)
                first = ast.copy_location(ast.ExceptHandler(
                    type=t.args[1], name=h.name,
                    body=copy.deepcopy(prefix) + body[0].body), h)
                second = ast.copy_location(ast.ExceptHandler(
                    type=h.type, name=h.name,
                    body=copy.deepcopy(prefix) + body[0].orelse), h)
                out += [first, second]
                self.count += 1
                continue
            if isinstance(h.type, ast.Tuple) and h.name and \
                    isinstance(t, ast.Call) and \
                    isinstance(t.func, ast.Name) and \
                    t.func.id == 'isinstance' and len(t.args) == 2 and \
                    isinstance(t.args[0], ast.Name) and \
                    t.args[0].id == h.name:
                dumps = [ast.dump(e) for e in h.type.elts]
                if ast.dump(t.args[1]) in dumps and len(dumps) >= 2:
                    rest = [e for e in h.type.elts
                            if ast.dump(e) != ast.dump(t.args[1])]
                    first = ast.copy_location(ast.ExceptHandler(
                        type=t.args[1], name=h.name,
                        body=copy.deepcopy(prefix) + body[0].body), h)
                    second = ast.copy_location(ast.ExceptHandler(
                        type=rest[0] if len(rest) == 1 else ast.Tuple(
                            elts=rest, ctx=ast.Load()),
                        name=h.name,
                        body=copy.deepcopy(prefix) + body[0].orelse), h)
                    out += [first] + self._split_handlers([second])
                    self.count += 1
                    continue
            out.append(h)
        return out

    def _return_of_result(self, stmts):
        """try: ...; r = A            try: ...; return A
           except E: r = B     ->     except E: return B
           return r
        (likewise after if / elif / else): every way through the statement
        ends by binding r, which is read by the return only."""
        if len(stmts) < 2 or not isinstance(stmts[-1], ast.Return) or \
                not isinstance(stmts[-1].value, ast.Name) or \
                not isinstance(stmts[-2], (ast.If, ast.Try)):
            return stmts
        r, st = stmts[-1].value.id, stmts[-2]
        leaves = []

        def collect(node):
            if isinstance(node, ast.If):
                for blk in (node.body, node.orelse):
                    if len(blk) == 1 and isinstance(blk[0], (ast.If,
                                                             ast.Try)):
                        collect(blk[0])
                    else:
                        leaves.append(blk)
            else:
                if node.finalbody:
                    leaves.append(None)
                leaves.append(node.orelse if node.orelse else node.body)
                for h in node.handlers:
                    leaves.append(h.body)
        collect(st)
        if any(b is None or not b for b in leaves):
            return stmts
        falling = [b for b in leaves if not isinstance(
            b[-1], (ast.Return, ast.Raise, ast.Continue, ast.Break))]
        if not falling or not all(
                isinstance(b[-1], ast.Assign) and len(b[-1].targets) == 1 and
                isinstance(b[-1].targets[0], ast.Name) and
                b[-1].targets[0].id == r for b in falling):
            return stmts
        reads = sum(1 for x in ast.walk(st) if isinstance(x, ast.Name) and
                    x.id == r and isinstance(x.ctx, ast.Load))
        writes = sum(1 for x in ast.walk(st) if isinstance(x, ast.Name) and
                     x.id == r and isinstance(x.ctx, (ast.Store, ast.Del)))
        if reads or writes != len(falling):
            return stmts
        for b in falling:
            b[-1] = ast.copy_location(ast.Return(value=b[-1].value), b[-1])
        self.count += 1
        return stmts[:-1]

    def _const_then_test(self, stmts):
        """x = None                          (what a defaulted parameter of a
           if x is None: x = E   ->  x = E    written-out helper leaves)"""
        out = list(stmts)
        i = 0
        while i + 1 < len(out):
            a, b = out[i], out[i + 1]
            if isinstance(a, ast.Assign) and len(a.targets) == 1 and \
                    isinstance(a.targets[0], ast.Name) and \
                    isinstance(a.value, ast.Constant) and \
                    isinstance(b, ast.If):
                x, val = a.targets[0].id, a.value.value
                t, pol = b.test, True
                while isinstance(t, ast.UnaryOp) and \
                        isinstance(t.op, ast.Not):
                    t, pol = t.operand, not pol
                d = None
                if isinstance(t, ast.Name) and t.id == x:
                    d = bool(val)
                elif isinstance(t, ast.Compare) and len(t.ops) == 1 and \
                        isinstance(t.left, ast.Name) and t.left.id == x and \
                        isinstance(t.comparators[0], ast.Constant) and \
                        isinstance(t.ops[0], (ast.Is, ast.IsNot)) and \
                        (val is None or t.comparators[0].value is None or
                         isinstance(val, bool)):
                    same = val is t.comparators[0].value
                    d = same if isinstance(t.ops[0], ast.Is) else not same
                if d is not None:
                    taken = b.body if d == pol else b.orelse
                    new = list(taken)
                    drop = bool(new) and isinstance(new[0], ast.Assign) and \
                        len(new[0].targets) == 1 and \
                        isinstance(new[0].targets[0], ast.Name) and \
                        new[0].targets[0].id == x and not any(
                            isinstance(n, ast.Name) and n.id == x
                            for n in ast.walk(new[0].value))
                    out[i:i + 2] = ([] if drop else [a]) + new
                    self.count += 1
                    continue
            i += 1
        return out

    def _sink_after_choice(self, stmts):
        """if c1: ...; call, args = f, (x,)
           elif c2: ...; call, args = g, ()
           else: return
           REST using call(*args)
        ->  REST written at the end of each arm that falls through, with
        the arm's own values for the names it has just bound: a call put
        together from parts chosen earlier is the calls it stands for.
        Only when every falling arm ends with a binding of the same plain
        names to stable values, REST is short, and those names are read
        only there."""
        for i, st in enumerate(stmts):
            rest = stmts[i + 1:]
            if not isinstance(st, ast.If) or not 1 <= len(rest) <= 4 or \
                    not st.orelse or any(
                        isinstance(x, (ast.FunctionDef, ast.ClassDef,
                                       ast.Lambda))
                        for r in rest for x in ast.walk(r)):
                continue
            leaves = []

            def collect(node):
                leaves.append(node.body)
                if len(node.orelse) == 1 and \
                        isinstance(node.orelse[0], ast.If):
                    collect(node.orelse[0])
                else:
                    leaves.append(node.orelse)
            collect(st)
            falling = [b for b in leaves if not (
                b and isinstance(b[-1], (ast.Return, ast.Raise, ast.Break,
                                         ast.Continue)))]
            if len(falling) < 2 or any(not b for b in falling):
                continue
            envs = []
            runs = []
            for b in falling:
                # the bindings the arm ends with: one tuple assignment, or
                # the run of plain `name = value` statements it ends with
                last = b[-1]
                env, run = {}, []
                if isinstance(last, ast.Assign) and len(last.targets) == 1 \
                        and isinstance(last.targets[0], ast.Tuple) and \
                        isinstance(last.value, ast.Tuple) and \
                        len(last.targets[0].elts) == len(last.value.elts) \
                        and all(isinstance(e, ast.Name)
                                for e in last.targets[0].elts):
                    env = {e.id: x for e, x in zip(last.targets[0].elts,
                                                   last.value.elts)}
                    run = [last]
                else:
                    for s2 in reversed(b):
                        if isinstance(s2, ast.Assign) and \
                                len(s2.targets) == 1 and \
                                isinstance(s2.targets[0], ast.Name) and \
                                s2.targets[0].id not in env:
                            env[s2.targets[0].id] = s2.value
                            run.append(s2)
                        else:
                            break
                envs.append(env)
                runs.append(run)
            common = set(envs[0]) if envs else set()
            for e in envs[1:]:
                common &= set(e)
            # keep the names REST reads
            common &= {x.id for r in rest for x in ast.walk(r)
                       if isinstance(x, ast.Name)}
            envs = [{k: v for k, v in e.items() if k in common}
                    for e in envs]
            # a kept binding must not be read by a later one of its own run
            if any(isinstance(x, ast.Name) and x.id in common
                   for run in runs for s2 in run
                   if not isinstance(s2.targets[0], ast.Tuple)
                   for x in ast.walk(s2.value)):
                continue

            def stable(v):
                if isinstance(v, (ast.Tuple, ast.List)):
                    return all(stable(e) for e in v.elts)
                if isinstance(v, ast.Dict):
                    return all(k is not None and stable(k) and stable(x)
                               for k, x in zip(v.keys, v.values))
                if isinstance(v, ast.BinOp):
                    return stable(v.left) and stable(v.right)
                return _stable_path(v)
            names = set(envs[0])
            if not names or any(set(e) != names for e in envs) or \
                    not all(stable(v) for e in envs for v in e.values()):
                continue
            if len(names) < 2 and not all(
                    isinstance(v, ast.Tuple) for e in envs
                    for v in e.values()):
                continue    # (one plain name: an ordinary local, left alone)
            rest_names = [x for r in rest for x in ast.walk(r)
                          if isinstance(x, ast.Name) and x.id in names]
            if any(not isinstance(x.ctx, ast.Load) for x in rest_names) or \
                    {x.id for x in rest_names} != names or any(
                        sum(1 for x in rest_names if x.id == nm) != 1
                        for nm in names):
                continue
            # operands of the bound values are not re-bound by REST
            operands = {x.id for e in envs for v in e.values()
                        for x in ast.walk(v) if isinstance(x, ast.Name)}
            if operands & {x.id for r in rest for x in ast.walk(r)
                           if isinstance(x, ast.Name) and
                           isinstance(x.ctx, (ast.Store, ast.Del))}:
                continue
            # the names are read nowhere else in the arms
            if any(isinstance(x, ast.Name) and x.id in names and
                   isinstance(x.ctx, ast.Load)
                   for b in leaves for s2 in b for x in ast.walk(s2)):
                continue
            import copy as _c
            for b, env, run in zip(falling, envs, runs):
                tail = [_SplatFold().visit(_Subst(env, {}).visit(
                    _c.deepcopy(r))) for r in rest]
                for s2 in run:
                    if isinstance(s2.targets[0], ast.Tuple) or \
                            s2.targets[0].id in env:
                        b.remove(s2)
                b.extend(tail)
            self.count += 1
            return stmts[:i + 1]
        return stmts

    def _devirtualise(self, stmts):
        """if c: fn = a
           else: fn = b
           fn(x)            ->   if c: a(x)  else: b(x)
        when fn is a plain local used nowhere else in the block."""
        out = []
        i = 0
        while i < len(stmts):
            st = stmts[i]
            nxt = stmts[i + 1] if i + 1 < len(stmts) else None
            if isinstance(st, ast.If) and nxt is not None and \
                    len(st.body) == 1 and len(st.orelse) == 1 and \
                    all(isinstance(b[0], ast.Assign) and
                        len(b[0].targets) == 1 and
                        isinstance(b[0].targets[0], ast.Name) and
                        isinstance(b[0].value, (ast.Name, ast.Attribute))
                        for b in (st.body, st.orelse)) and \
                    st.body[0].targets[0].id == st.orelse[0].targets[0].id:
                var = st.body[0].targets[0].id
                uses = [n for n in ast.walk(nxt)
                        if isinstance(n, ast.Name) and n.id == var]
                calls = [n for n in ast.walk(nxt)
                         if isinstance(n, ast.Call) and
                         isinstance(n.func, ast.Name) and n.func.id == var]
                later = [n for s2 in stmts[i + 2:] for n in ast.walk(s2)
                         if isinstance(n, ast.Name) and n.id == var]
                if len(uses) == 1 and len(calls) == 1 and not later and \
                        isinstance(nxt, (ast.Expr, ast.Assign, ast.Return)):
                    import copy as _c
                    arms = []
                    for b in (st.body, st.orelse):
                        s2 = _c.deepcopy(nxt)
                        for n in ast.walk(s2):
                            if isinstance(n, ast.Call) and \
                                    isinstance(n.func, ast.Name) and \
                                    n.func.id == var:
                                n.func = _c.deepcopy(b[0].value)
                        arms.append([s2])
                    out.append(ast.copy_location(
                        ast.If(test=st.test, body=arms[0], orelse=arms[1]),
                        st))
                    self.count += 1
                    i += 2
                    continue
                # the choice made once, the chosen function called further
                # down (in a loop, several times): each call statement
                # makes the choice again -- when the condition reads only a
                # stable path nothing in between writes
                rest = stmts[i + 1:]
                all_uses = [n for s2 in rest for n in ast.walk(s2)
                            if isinstance(n, ast.Name) and n.id == var]
                funcs = {id(n.func) for s2 in rest for n in ast.walk(s2)
                         if isinstance(n, ast.Call)}
                if all_uses and all(
                        id(n) in funcs and isinstance(n.ctx, ast.Load)
                        for n in all_uses) and _stable_path(st.test) and \
                        not ({n.id for n in ast.walk(st.test)
                              if isinstance(n, ast.Name)} &
                             {n.id for s2 in rest for n in ast.walk(s2)
                              if isinstance(n, ast.Name) and
                              isinstance(n.ctx, (ast.Store, ast.Del))}):
                    import copy as _c
                    cond = st.test
                    a_, b_ = st.body[0].value, st.orelse[0].value
                    okk = [True]

                    def block(lst):
                        res = []
                        for s2 in lst:
                            own = [n for e in _own_exprs(s2)
                                   for n in ast.walk(e)
                                   if isinstance(n, ast.Name) and
                                   n.id == var]
                            for name in _BLOCKS:
                                sub = getattr(s2, name, None)
                                if isinstance(sub, list) and sub and \
                                        isinstance(sub[0], ast.stmt):
                                    setattr(s2, name, block(sub))
                            for h in getattr(s2, 'handlers', []) or []:
                                h.body = block(h.body)
                            if not own:
                                res.append(s2)
                                continue
                            if not isinstance(s2, (ast.Expr, ast.Assign,
                                                   ast.Return)):
                                okk[0] = False
                                res.append(s2)
                                continue
                            arms = []
                            for fn_ in (a_, b_):
                                s3 = _c.deepcopy(s2)
                                for n in ast.walk(s3):
                                    if isinstance(n, ast.Call) and \
                                            isinstance(n.func, ast.Name) \
                                            and n.func.id == var:
                                        n.func = _c.deepcopy(fn_)
                                arms.append([s3])
                            res.append(ast.copy_location(ast.If(
                                test=_c.deepcopy(cond), body=arms[0],
                                orelse=arms[1]), s2))
                        return res
                    trial = block(_c.deepcopy(rest))
                    if okk[0]:
                        out.extend(trial)
                        self.count += 1
                        return out
            out.append(st)
            i += 1
        return out

    def _accumulate(self, stmts):
        """x = []
           for t in it:               ->   x = [e for t in it if c]
               if c: x.append(e)
        (the loop body is that single statement)."""
        out = []
        i = 0
        while i < len(stmts):
            st = stmts[i]
            nxt = stmts[i + 1] if i + 1 < len(stmts) else None
            comp = None
            if isinstance(st, ast.Assign) and len(st.targets) == 1 and \
                    isinstance(st.targets[0], ast.Name) and (
                        (isinstance(st.value, ast.List) and
                         not st.value.elts) or
                        (isinstance(st.value, ast.Call) and
                         isinstance(st.value.func, ast.Name) and
                         st.value.func.id == 'list' and
                         not st.value.args)) and \
                    isinstance(nxt, ast.For) and not nxt.orelse and \
                    len(nxt.body) == 1:
                var = st.targets[0].id
                inner = nxt.body[0]
                tests = []
                while isinstance(inner, ast.If) and not inner.orelse and \
                        len(inner.body) == 1:
                    tests.append(inner.test)
                    inner = inner.body[0]
                if isinstance(inner, ast.Expr) and \
                        isinstance(inner.value, ast.Call) and \
                        isinstance(inner.value.func, ast.Attribute) and \
                        inner.value.func.attr == 'append' and \
                        isinstance(inner.value.func.value, ast.Name) and \
                        inner.value.func.value.id == var and \
                        len(inner.value.args) == 1 and \
                        not inner.value.keywords:
                    elt = inner.value.args[0]
                    used = [n for x in [elt, nxt.iter] + tests
                            for n in ast.walk(x)
                            if isinstance(n, ast.Name) and n.id == var]
                    if not used:
                        gen = ast.comprehension(target=nxt.target,
                                                iter=nxt.iter, ifs=tests,
                                                is_async=0)
                        comp = ast.copy_location(
                            ast.ListComp(elt=elt, generators=[gen]), nxt)
            if comp is not None:
                out.append(ast.copy_location(
                    ast.Assign(targets=st.targets, value=comp,
                               lineno=st.lineno), st))
                self.count += 1
                i += 2
                continue
            out.append(st)
            i += 1
        return out

    def _match_literals(self, stmts):
        """match s: case 'a': A; case 'b' | 'c': B; case _: C   (literal
        patterns only, plain subject)  ->  if s == 'a': A elif s in ('b',
        'c'): B else: C"""
        out = []
        for st in stmts:
            new = self._match_to_if(st) if isinstance(st, ast.Match) else None
            if new is None:
                out.append(st)
            else:
                out.append(new)
                self.count += 1
        return out

    @staticmethod
    def _match_to_if(st):
        subj = st.subject
        if not _simple_arg(subj):
            return None

        def values(p):
            if isinstance(p, ast.MatchValue) and \
                    isinstance(p.value, ast.Constant):
                return [p.value]
            if isinstance(p, ast.MatchSingleton):
                return [ast.Constant(value=p.value)]
            if isinstance(p, ast.MatchOr):
                vs = [values(x) for x in p.patterns]
                if all(v is not None for v in vs):
                    return [x for v in vs for x in v]
            return None
        arms = []
        for case in st.cases:
            wild = isinstance(case.pattern, ast.MatchAs) and \
                case.pattern.pattern is None and case.pattern.name is None
            vs = None if wild else values(case.pattern)
            if not wild and vs is None:
                return None
            if wild:
                test = case.guard
            else:
                import copy as _c
                if len(vs) == 1:
                    singleton = isinstance(case.pattern, ast.MatchSingleton)
                    test = ast.Compare(
                        left=_c.deepcopy(subj),
                        ops=[ast.Is() if singleton else ast.Eq()],
                        comparators=[vs[0]])
                else:
                    test = ast.Compare(
                        left=_c.deepcopy(subj), ops=[ast.In()],
                        comparators=[ast.Tuple(elts=vs, ctx=ast.Load())])
                if case.guard is not None:
                    test = ast.BoolOp(op=ast.And(),
                                      values=[test, case.guard])
            arms.append((test, case.body))
        node = None
        for test, body in reversed(arms):
            if test is None:
                node = body                      # unconditional `case _`
            else:
                node = [ast.copy_location(ast.If(
                    test=test, body=body,
                    orelse=node if node is not None else []), st)]
        if node is None:
            return None
        if len(node) != 1 or not isinstance(node[0], ast.If):
            return None
        return node[0]

    def _conditional_assign(self, stmts):
        """x = a if c else b   ->   if c: x = a  else: x = b"""
        out = []
        for st in stmts:
            if isinstance(st, ast.Assign) and isinstance(st.value, ast.IfExp) \
                    and not is_replace_if_present(st.value):
                import copy as _c
                v = st.value

                def mk(val):
                    return self._conditional_assign([ast.copy_location(
                        ast.Assign(targets=_c.deepcopy(st.targets),
                                   value=val, lineno=st.lineno), st)])
                out.append(ast.copy_location(ast.If(
                    test=v.test, body=mk(v.body), orelse=mk(v.orelse)), st))
                self.count += 1
            else:
                out.append(st)
        return out

    def _dict_dispatch(self, stmts):
        """table = {'a': fa, 'b': fb}; h = table.get(x)
           if h is not None: BODY(h)  [else: ELSE]
             ->  if x == 'a': BODY(fa) elif x == 'b': BODY(fb) [else: ELSE]
        (table and h used for nothing else in the block)."""
        out = []
        for st in stmts:
            # h = {'a': fa, ...}.get(x): the table written in place
            if isinstance(st, ast.Assign) and len(st.targets) == 1 and \
                    isinstance(st.targets[0], ast.Name) and \
                    isinstance(st.value, ast.Call) and \
                    isinstance(st.value.func, ast.Attribute) and \
                    st.value.func.attr == 'get' and \
                    isinstance(st.value.func.value, ast.Dict):
                tname = st.targets[0].id + '_table'
                out.append(ast.copy_location(ast.Assign(
                    targets=[ast.Name(id=tname, ctx=ast.Store())],
                    value=st.value.func.value, lineno=st.lineno), st))
                st.value.func.value = ast.copy_location(
                    ast.Name(id=tname, ctx=ast.Load()), st)
            out.append(st)
        i = 0
        while i + 2 < len(out) + 0:
            d, g = out[i], out[i + 1]
            ok = isinstance(d, ast.Assign) and len(d.targets) == 1 and \
                isinstance(d.targets[0], ast.Name) and \
                isinstance(d.value, ast.Dict) and d.value.keys and \
                all(isinstance(k, ast.Constant) for k in d.value.keys) and \
                all(isinstance(v, (ast.Name, ast.Attribute))
                    for v in d.value.values) and \
                isinstance(g, ast.Assign) and len(g.targets) == 1 and \
                isinstance(g.targets[0], ast.Name) and \
                isinstance(g.value, ast.Call) and \
                isinstance(g.value.func, ast.Attribute) and \
                g.value.func.attr == 'get' and \
                isinstance(g.value.func.value, ast.Name) and \
                g.value.func.value.id == d.targets[0].id and \
                1 <= len(g.value.args) <= 2 and _simple_arg(g.value.args[0]) \
                and (len(g.value.args) == 1 or (
                    isinstance(g.value.args[1], ast.Constant) and
                    g.value.args[1].value is None))
            if not ok:
                i += 1
                continue
            table, h = d.targets[0].id, g.targets[0].id
            # the If that uses h: the next statement that mentions it
            j = None
            for k in range(i + 2, len(out)):
                if any(isinstance(n, ast.Name) and n.id in (table, h)
                       for n in ast.walk(out[k])):
                    j = k
                    break
            use = out[j] if j is not None else None
            later = [n for s2 in (out[j + 1:] if j is not None else [])
                     for n in ast.walk(s2)
                     if isinstance(n, ast.Name) and n.id in (table, h)]
            between = out[i + 2:j] if j is not None else []
            positive = None
            if isinstance(use, ast.If):
                t = use.test
                if isinstance(t, ast.Name) and t.id == h:
                    positive = True
                elif isinstance(t, ast.Compare) and len(t.ops) == 1 and \
                        isinstance(t.left, ast.Name) and t.left.id == h and \
                        isinstance(t.comparators[0], ast.Constant) and \
                        t.comparators[0].value is None:
                    positive = isinstance(t.ops[0], ast.IsNot) if \
                        isinstance(t.ops[0], (ast.Is, ast.IsNot)) else None
                elif isinstance(t, ast.UnaryOp) and \
                        isinstance(t.op, ast.Not) and \
                        isinstance(t.operand, ast.Name) and \
                        t.operand.id == h:
                    positive = False
            if positive is None or later:
                i += 1
                continue
            hit, miss = (use.body, use.orelse) if positive else \
                (use.orelse, use.body)
            uses_ok = all(
                not (isinstance(n, ast.Name) and n.id == table)
                for s2 in hit + miss for n in ast.walk(s2)) and not any(
                isinstance(n, ast.Name) and n.id == h
                for s2 in miss for n in ast.walk(s2))
            hn = [n for s2 in hit for n in ast.walk(s2)
                  if isinstance(n, ast.Name) and n.id == h]
            calls = [n for s2 in hit for n in ast.walk(s2)
                     if isinstance(n, ast.Call) and
                     isinstance(n.func, ast.Name) and n.func.id == h]
            if not uses_ok or not hit or len(hn) != len(calls):
                i += 1
                continue
            import copy as _c
            chain = miss
            for key, fn in reversed(list(zip(d.value.keys, d.value.values))):
                body = _c.deepcopy(hit)
                for s2 in body:
                    for n in ast.walk(s2):
                        if isinstance(n, ast.Call) and \
                                isinstance(n.func, ast.Name) and \
                                n.func.id == h:
                            n.func = _c.deepcopy(fn)
                test = ast.Compare(left=_c.deepcopy(g.value.args[0]),
                                   ops=[ast.Eq()], comparators=[key])
                chain = [ast.copy_location(ast.If(
                    test=test, body=body, orelse=chain), use)]
            out = out[:i] + between + chain + out[j + 1:]
            self.count += 1
        return out

    def _unroll_records(self, stmts):
        """for r in TABLE: body   where TABLE is a module-level tuple of
        records Rec(a, b=..) of a namedtuple defined in the module and the
        body reads r only as r.<field>: the sequence of its bodies, every
        r.<field> written out (up to 32 rows)."""
        out = []
        for st in stmts:
            rows = None
            if isinstance(st, ast.For) and not st.orelse and \
                    isinstance(st.target, ast.Name) and \
                    isinstance(st.iter, ast.Name) and \
                    st.iter.id in self.consts:
                rows = self._record_rows(self.consts[st.iter.id])
            var = st.target.id if rows is not None else None
            if rows is None or any(
                    isinstance(n, (ast.Break, ast.Continue))
                    for b in st.body for n in ast.walk(b)):
                out.append(st)
                continue
            # every use of the loop variable is r.<field>
            pm = {}
            for b in st.body:
                for x in ast.walk(b):
                    for ch in ast.iter_child_nodes(x):
                        pm[ch] = x
            uses = [n for b in st.body for n in ast.walk(b)
                    if isinstance(n, ast.Name) and n.id == var]
            if not all(isinstance(n.ctx, ast.Load) and
                       isinstance(pm.get(n), ast.Attribute) and
                       pm[n].value is n and pm[n].attr in rows[0]
                       for n in uses):
                out.append(st)
                continue
            import copy as _c

            class F(ast.NodeTransformer):
                def __init__(self2, row):
                    self2.row = row

                def visit_Attribute(self2, node):
                    if isinstance(node.value, ast.Name) and \
                            node.value.id == var and node.attr in self2.row:
                        return _c.deepcopy(self2.row[node.attr])
                    return self2.generic_visit(node)
            for row in rows:
                for b in st.body:
                    out.append(F(row).visit(_c.deepcopy(b)))
            self.count += 1
        return out

    def _record_rows(self, table):
        """[{field: expr}] when every element of the tuple is a call of one
        record type of the module with plain arguments, else None."""
        if not isinstance(table, (ast.Tuple, ast.List)) or \
                not 1 <= len(table.elts) <= 32:
            return None
        rows = []
        for e in table.elts:
            if not (isinstance(e, ast.Call) and isinstance(e.func, ast.Name)
                    and e.func.id in self.records):
                return None
            fields, dflt = self.records[e.func.id]
            if any(isinstance(a, ast.Starred) for a in e.args) or \
                    any(k.arg is None for k in e.keywords) or \
                    len(e.args) > len(fields):
                return None
            row = dict(zip(fields, e.args))
            for k in e.keywords:
                if k.arg not in fields or k.arg in row:
                    return None
                row[k.arg] = k.value
            for f_, d_ in zip(reversed(fields), reversed(dflt)):
                row.setdefault(f_, d_)
            if set(row) != set(fields) or not all(
                    isinstance(v, ast.Constant) or _simple_arg(v) or
                    isinstance(v, ast.JoinedStr) or
                    (isinstance(v, ast.BinOp) and isinstance(v.op, ast.Add))
                    for v in row.values()):
                return None
            rows.append(row)
        return rows

    def _table_comprehension(self, stmts):
        """x = {K: V for T in <literal table> if C}   ->
           x = {}; for T in <literal table>: if C: x[K] = V
        (likewise a list with append): a comprehension over a fixed handful
        of rows is the sequence of its rows; the loop is then unrolled."""
        out = []
        for st in stmts:
            v = st.value if isinstance(st, ast.Assign) and \
                len(st.targets) == 1 and \
                isinstance(st.targets[0], ast.Name) else None
            if isinstance(v, (ast.DictComp, ast.ListComp)) and \
                    len(v.generators) == 1 and \
                    not v.generators[0].is_async and \
                    isinstance(v.generators[0].iter, (ast.Tuple, ast.List)) \
                    and 1 <= len(v.generators[0].iter.elts) <= 6 and \
                    all(isinstance(r, (ast.Tuple, ast.Constant))
                        for r in v.generators[0].iter.elts):
                g = v.generators[0]
                name = st.targets[0].id
                import copy as _c

                def loc(n):
                    return ast.copy_location(n, st)
                if isinstance(v, ast.DictComp):
                    init = ast.Dict(keys=[], values=[])
                    put = loc(ast.Assign(targets=[ast.Subscript(
                        value=ast.Name(id=name, ctx=ast.Load()),
                        slice=v.key, ctx=ast.Store())], value=v.value,
                        lineno=st.lineno))
                else:
                    init = ast.List(elts=[], ctx=ast.Load())
                    put = loc(ast.Expr(value=ast.Call(func=ast.Attribute(
                        value=ast.Name(id=name, ctx=ast.Load()),
                        attr='append', ctx=ast.Load()), args=[v.elt],
                        keywords=[])))
                body = [put]
                if g.ifs:
                    test = g.ifs[0] if len(g.ifs) == 1 else ast.BoolOp(
                        op=ast.And(), values=list(g.ifs))
                    body = [loc(ast.If(test=test, body=[put], orelse=[]))]
                tgt = _c.deepcopy(g.target)
                for n in ast.walk(tgt):
                    if isinstance(n, (ast.Name, ast.Tuple, ast.List)):
                        n.ctx = ast.Store()
                out.append(loc(ast.Assign(
                    targets=[ast.Name(id=name, ctx=ast.Store())],
                    value=init, lineno=st.lineno)))
                out.append(loc(ast.For(target=tgt, iter=g.iter, body=body,
                                       orelse=[], lineno=st.lineno)))
                self.count += 1
                continue
            out.append(st)
        return out

    def _search_then_use(self, stmts):
        """x = None                               for t in it:
           for t in it:                               if c:
               if c: x = t; break          ->             BODY[x := t]
           if x is not None: BODY(x)                      break
        when BODY leaves the function (raise / return) and x is used for
        nothing else in the block: the search loop and what is done with
        what it found, in one place."""
        out = list(stmts)
        i = 0
        while i + 2 < len(out):
            a, lp, use = out[i], out[i + 1], out[i + 2]
            i += 1
            if not (isinstance(a, ast.Assign) and len(a.targets) == 1 and
                    isinstance(a.targets[0], ast.Name) and
                    isinstance(a.value, ast.Constant) and
                    a.value.value is None and isinstance(lp, ast.For) and
                    not lp.orelse and isinstance(lp.target, ast.Name) and
                    len(lp.body) == 1 and isinstance(lp.body[0], ast.If) and
                    not lp.body[0].orelse and isinstance(use, ast.If) and
                    not use.orelse):
                continue
            x, t = a.targets[0].id, lp.target.id
            found = lp.body[0].body
            if not (len(found) == 2 and isinstance(found[0], ast.Assign) and
                    len(found[0].targets) == 1 and
                    isinstance(found[0].targets[0], ast.Name) and
                    found[0].targets[0].id == x and
                    isinstance(found[0].value, ast.Name) and
                    found[0].value.id == t and
                    isinstance(found[1], ast.Break)):
                continue
            tt = use.test
            is_some = isinstance(tt, ast.Compare) and len(tt.ops) == 1 and \
                isinstance(tt.ops[0], ast.IsNot) and \
                isinstance(tt.left, ast.Name) and tt.left.id == x and \
                isinstance(tt.comparators[0], ast.Constant) and \
                tt.comparators[0].value is None
            is_none = isinstance(tt, ast.Compare) and len(tt.ops) == 1 and \
                isinstance(tt.ops[0], ast.Is) and \
                isinstance(tt.left, ast.Name) and tt.left.id == x and \
                isinstance(tt.comparators[0], ast.Constant) and \
                tt.comparators[0].value is None
            rest = out[i + 2:]
            if is_none and use.body and rest and \
                    isinstance(use.body[-1], (ast.Raise, ast.Return)) and \
                    isinstance(rest[-1], (ast.Raise, ast.Return)) and \
                    1 <= len(rest) <= 4 and not any(
                        isinstance(n, ast.Name) and n.id == x and
                        isinstance(n.ctx, (ast.Store, ast.Del))
                        for b in rest for n in ast.walk(b)) and not any(
                        isinstance(n, ast.Name) and n.id == x
                        for b in use.body for n in ast.walk(b)):
                # the other way round: nothing found leaves first, what is
                # done with what was found follows
                import copy as _c
                body = [_Subst({x: ast.Name(id=t, ctx=ast.Load())},
                               {}).visit(_c.deepcopy(b)) for b in rest]
                new_if = ast.copy_location(ast.If(
                    test=lp.body[0].test, body=body, orelse=[]), lp.body[0])
                new_lp = ast.copy_location(ast.For(
                    target=lp.target, iter=lp.iter, body=[new_if], orelse=[],
                    lineno=lp.lineno), lp)
                out[i - 1:] = [new_lp] + list(use.body)
                self.count += 1
                return out
            if not is_some or not use.body or \
                    not isinstance(use.body[-1], (ast.Raise, ast.Return)):
                continue
            later = [n for s2 in out[i + 2:] for n in ast.walk(s2)
                     if isinstance(n, ast.Name) and n.id == x]
            if later or any(isinstance(n, ast.Name) and n.id == x and
                            isinstance(n.ctx, ast.Store)
                            for b in use.body for n in ast.walk(b)):
                continue
            import copy as _c
            body = [_Subst({x: ast.Name(id=t, ctx=ast.Load())}, {}).visit(
                _c.deepcopy(b)) for b in use.body]
            new_if = ast.copy_location(ast.If(
                test=lp.body[0].test, body=body, orelse=[]), lp.body[0])
            new_lp = ast.copy_location(ast.For(
                target=lp.target, iter=lp.iter, body=[new_if], orelse=[],
                lineno=lp.lineno), lp)
            out[i - 1:i + 2] = [new_lp]
            self.count += 1
        return out

    def _first_match(self, stmts):
        """x = next((e for t in it if c), d)
             ->   x = d
                  for t in it:
                      if c: x = e; break
        (the search loop a `next(generator, default)` abbreviates)."""
        out = []
        for st in stmts:
            v = st.value if isinstance(st, ast.Assign) else None
            if isinstance(v, ast.Call) and isinstance(v.func, ast.Name) and \
                    v.func.id == 'next' and len(v.args) == 2 and \
                    not v.keywords and \
                    isinstance(v.args[0], ast.GeneratorExp) and \
                    len(v.args[0].generators) == 1 and \
                    not v.args[0].generators[0].is_async and \
                    len(st.targets) == 1 and \
                    isinstance(st.targets[0], ast.Name):
                import copy as _c
                g = v.args[0].generators[0]
                tgt = _c.deepcopy(g.target)
                for n in ast.walk(tgt):
                    if isinstance(n, ast.Name):
                        n.ctx = ast.Store()

                def loc(n):
                    return ast.copy_location(n, st)
                found = [loc(ast.Assign(targets=_c.deepcopy(st.targets),
                                        value=v.args[0].elt,
                                        lineno=st.lineno)),
                         loc(ast.Break())]
                body = found
                if g.ifs:
                    test = g.ifs[0] if len(g.ifs) == 1 else \
                        ast.BoolOp(op=ast.And(), values=list(g.ifs))
                    body = [loc(ast.If(test=test, body=found, orelse=[]))]
                out.append(loc(ast.Assign(targets=st.targets,
                                          value=v.args[1],
                                          lineno=st.lineno)))
                out.append(loc(ast.For(target=tgt, iter=g.iter, body=body,
                                       orelse=[], lineno=st.lineno)))
                self.count += 1
                continue
            out.append(st)
        return out

    def _walrus(self, stmts):
        """if (m := f(x)) is None: ...   ->   m = f(x); if m is None: ...
        (when the assignment expression is the first thing the test
        evaluates)."""
        out = []
        for st in stmts:
            if isinstance(st, ast.If):
                while True:
                    ne = self._first_named(st.test)
                    if ne is None:
                        break
                    out.append(ast.copy_location(ast.Assign(
                        targets=[ast.Name(id=ne.target.id, ctx=ast.Store())],
                        value=ne.value, lineno=st.lineno), st))
                    new = ast.copy_location(
                        ast.Name(id=ne.target.id, ctx=ast.Load()), ne)
                    st.test = new if st.test is ne else \
                        _Replace(ne, new).visit(st.test)
                    self.count += 1
            out.append(st)
        return out

    @staticmethod
    def _first_named(e):
        while True:
            if isinstance(e, ast.NamedExpr):
                return e
            if isinstance(e, ast.BoolOp):
                e = e.values[0]
            elif isinstance(e, ast.UnaryOp):
                e = e.operand
            elif isinstance(e, ast.Compare):
                e = e.left
            elif isinstance(e, (ast.Attribute, ast.Subscript)):
                e = e.value
            else:
                return None

    def _unroll(self, stmts):
        """for x in ('A', 'B', 'C'): body   (a literal tuple / list of
        constants, or a module-level name bound once to one; at most 6
        elements; no break / continue / else)
            ->   x = 'A'; body['A']; x = 'B'; body['B']; ...
        A loop over a fixed handful of literals is a chain of statements
        written compactly; the rules read the chain."""
        out = []
        for st in stmts:
            seq = None
            if isinstance(st, ast.For) and not st.orelse and \
                    isinstance(st.target, ast.Tuple) and \
                    all(isinstance(e, ast.Name) for e in st.target.elts) and \
                    isinstance(st.iter, (ast.Tuple, ast.List)) and \
                    1 <= len(st.iter.elts) <= 24 and all(
                        isinstance(row, ast.Tuple) and
                        len(row.elts) == len(st.target.elts) and
                        all(isinstance(x, ast.Constant) or _simple_arg(x)
                            for x in row.elts) for row in st.iter.elts):
                # for a, b in (('x', X), ('y', Y)): body  (a table of pairs)
                names = [e.id for e in st.target.elts]
                body_stores = {n.id for b in st.body for n in ast.walk(b)
                               if isinstance(n, ast.Name) and
                               isinstance(n.ctx, (ast.Store, ast.Del))}
                if not (set(names) & body_stores) and not any(
                        isinstance(n, (ast.Break, ast.Continue))
                        for b in st.body for n in ast.walk(b)):
                    import copy as _c
                    for row in st.iter.elts:
                        env = dict(zip(names, row.elts))
                        for b in st.body:
                            out.append(_Subst(env, {}).visit(_c.deepcopy(b)))
                    self.count += 1
                    continue
            if isinstance(st, ast.For) and not st.orelse and \
                    isinstance(st.target, ast.Tuple) and st.target.elts and \
                    isinstance(st.target.elts[-1], ast.Starred) and \
                    isinstance(st.target.elts[-1].value, ast.Name) and \
                    all(isinstance(e, ast.Name)
                        for e in st.target.elts[:-1]) and \
                    isinstance(st.iter, (ast.Tuple, ast.List)) and \
                    1 <= len(st.iter.elts) <= 24 and all(
                        isinstance(row, ast.Tuple) and
                        len(row.elts) >= len(st.target.elts) - 1 and
                        all(isinstance(x, ast.Constant) or _simple_arg(x)
                            for x in row.elts) for row in st.iter.elts):
                # for cmd, *args in (('a %s', x), ('b',)): body  -- a table
                # of rows of unequal length
                names = [e.id for e in st.target.elts[:-1]]
                rest = st.target.elts[-1].value.id
                body_stores = {n.id for b in st.body for n in ast.walk(b)
                               if isinstance(n, ast.Name) and
                               isinstance(n.ctx, (ast.Store, ast.Del))}
                if not ((set(names) | {rest}) & body_stores) and not any(
                        isinstance(n, (ast.Break, ast.Continue))
                        for b in st.body for n in ast.walk(b)):
                    import copy as _c
                    for row in st.iter.elts:
                        env = dict(zip(names, row.elts))
                        env[rest] = ast.List(
                            elts=list(row.elts[len(names):]), ctx=ast.Load())
                        for b in st.body:
                            out.append(_SplatFold().visit(
                                _Subst(env, {}).visit(_c.deepcopy(b))))
                    self.count += 1
                    continue
            if isinstance(st, ast.For) and not st.orelse and \
                    isinstance(st.target, ast.Name):
                it = st.iter
                if isinstance(it, ast.Name):
                    it = self.consts.get(it.id)
                    if it is not None and not all(
                            isinstance(e, ast.Constant)
                            for e in getattr(it, 'elts', [None])):
                        it = None   # a registry of classes stays a loop
                if isinstance(it, (ast.Tuple, ast.List)) and \
                        1 <= len(it.elts) <= 6 and all(
                            isinstance(e, ast.Constant) or (
                                isinstance(e, ast.Name) and not any(
                                    isinstance(n, ast.Name) and
                                    n.id == e.id and
                                    isinstance(n.ctx, (ast.Store, ast.Del))
                                    for b in st.body for n in ast.walk(b)))
                            for e in it.elts):
                    seq = it.elts
            if seq is None or any(
                    isinstance(n, (ast.Break, ast.Continue))
                    for b in st.body for n in ast.walk(b)) or any(
                    isinstance(n, ast.Name) and n.id == st.target.id and
                    isinstance(n.ctx, (ast.Store, ast.Del))
                    for b in st.body for n in ast.walk(b)):
                out.append(st)
                continue
            import copy as _c
            var = st.target.id
            for e in seq:
                out.append(ast.copy_location(ast.Assign(
                    targets=[ast.Name(id=var, ctx=ast.Store())],
                    value=_c.deepcopy(e), lineno=st.lineno), st))
                for b in st.body:
                    b2 = _c.deepcopy(b)
                    out.append(_Subst({var: e}, {}).visit(b2))
            self.count += 1
        return out

    def _rewrite(self, ret):
        v = ret.value
        if isinstance(v, ast.IfExp) and not is_replace_if_present(v) and \
                isinstance(v.body, ast.Constant) and \
                isinstance(v.orelse, ast.Constant):
            # return A if c else B   ->   if c: return A  else: return B
            # (an answer chosen between literals is a decision)
            return [ast.copy_location(ast.If(
                test=v.test,
                body=[ast.copy_location(ast.Return(value=v.body), ret)],
                orelse=[ast.copy_location(ast.Return(value=v.orelse), ret)]),
                ret)]
        if isinstance(v, ast.Call) and isinstance(v.func, ast.Name) and \
                v.func.id == 'next' and len(v.args) == 2 and \
                not v.keywords and \
                isinstance(v.args[0], ast.GeneratorExp) and \
                len(v.args[0].generators) == 1 and \
                not v.args[0].generators[0].is_async:
            # return next((e for t in it if c), d)  ->
            # for t in it: if c: return e  /  return d
            import copy as _c
            g = v.args[0].generators[0]
            tgt = _c.deepcopy(g.target)
            for n in ast.walk(tgt):
                if isinstance(n, ast.Name):
                    n.ctx = ast.Store()

            def loc(n):
                return ast.copy_location(n, ret)
            found = [loc(ast.Return(value=v.args[0].elt))]
            body = found
            if g.ifs:
                test = g.ifs[0] if len(g.ifs) == 1 else \
                    ast.BoolOp(op=ast.And(), values=list(g.ifs))
                body = [loc(ast.If(test=test, body=found, orelse=[]))]
            loop = loc(ast.For(target=tgt, iter=g.iter, body=body,
                               orelse=[], lineno=ret.lineno))
            tail = self._unroll([loop])
            return tail + [loc(ast.Return(value=v.args[1]))]
        neg = False
        if isinstance(v, ast.UnaryOp) and isinstance(v.op, ast.Not):
            neg, v = True, v.operand
        if not (isinstance(v, ast.Call) and isinstance(v.func, ast.Name) and
                v.func.id in ('any', 'all') and len(v.args) == 1 and
                not v.keywords and
                isinstance(v.args[0], (ast.GeneratorExp, ast.ListComp)) and
                len(v.args[0].generators) == 1 and
                not v.args[0].generators[0].is_async):
            return None
        g = v.args[0].generators[0]
        is_any = v.func.id == 'any'
        cond = v.args[0].elt
        if not is_any:
            cond = ast.UnaryOp(op=ast.Not(), operand=cond)
        tests = list(g.ifs) + [cond]
        test = tests[0] if len(tests) == 1 else \
            ast.BoolOp(op=ast.And(), values=tests)
        hit = is_any != neg       # value returned when the element is found

        def loc(n):
            return ast.copy_location(n, ret)
        import copy as _c
        target = _c.deepcopy(g.target)
        for n in ast.walk(target):
            if isinstance(n, ast.Name):
                n.ctx = ast.Store()
        inner = loc(ast.If(test=test, body=[loc(ast.Return(
            value=loc(ast.Constant(value=hit))))], orelse=[]))
        loop = loc(ast.For(target=target, iter=g.iter, body=[inner],
                           orelse=[], lineno=ret.lineno))
        return [loop, loc(ast.Return(value=loc(ast.Constant(
            value=not hit))))]


def _stable_path(e):
    """A constant or an access path (names, attributes, constant
    subscripts): evaluating it twice gives the same value and no effect."""
    if isinstance(e, ast.Constant):
        return True
    if isinstance(e, ast.Name):
        return True
    if isinstance(e, ast.Attribute):
        return _stable_path(e.value)
    if isinstance(e, ast.Subscript):
        return _stable_path(e.value) and isinstance(e.slice, ast.Constant)
    return False


class _Quantifiers(ast.NodeTransformer):
    """any(C for T in I if F) / all(...) where I is a literal tuple of at
    most 6 stable elements, a local bound once to one, or a zip of those:
        any -> (F1 and C1) or (F2 and C2) ...
        all -> ((not F1) or C1) and ...
    A quantifier over a fixed handful of values is a boolean expression
    written compactly; the rules read the expression.  Also
    `re.compile(P).match(X)` (after a compiled pattern was written back to
    its use) is `re.match(P, X)`."""
    def __init__(self):
        self.count = 0
        self.tuples = [{}]
        self.loaded = []

    def _scope(self, node):
        stores = {}
        for x in ast.walk(node):
            if isinstance(x, ast.Name) and isinstance(
                    x.ctx, (ast.Store, ast.Del)):
                stores[x.id] = stores.get(x.id, 0) + 1
            elif isinstance(x, ast.arg):
                stores[x.arg] = stores.get(x.arg, 0) + 2
        local = {}
        for x in ast.walk(node):
            if isinstance(x, ast.Assign) and len(x.targets) == 1 and \
                    isinstance(x.targets[0], ast.Name) and \
                    stores.get(x.targets[0].id) == 1 and \
                    isinstance(x.value, ast.Tuple) and \
                    1 <= len(x.value.elts) <= 6 and all(
                        _stable_path(e) and all(
                            stores.get(n.id, 0) <= 1 for n in ast.walk(e)
                            if isinstance(n, ast.Name))
                        for e in x.value.elts):
                local[x.targets[0].id] = x.value
        self.tuples.append(local)
        self.loaded.append({x.id for x in ast.walk(node)
                            if isinstance(x, ast.Name) and
                            isinstance(x.ctx, ast.Load)})
        self.generic_visit(node)
        self.loaded.pop()
        self.tuples.pop()
        return node

    visit_FunctionDef = _scope
    visit_AsyncFunctionDef = _scope

    def visit_Expr(self, node):
        """setattr(obj, 'name', v) is obj.name = v."""
        self.generic_visit(node)
        v = node.value
        if isinstance(v, ast.Call) and isinstance(v.func, ast.Name) and \
                v.func.id == 'setattr' and len(v.args) == 3 and \
                not v.keywords and isinstance(v.args[1], ast.Constant) and \
                isinstance(v.args[1].value, str) and \
                v.args[1].value.isidentifier():
            self.count += 1
            return ast.copy_location(ast.Assign(
                targets=[ast.Attribute(value=v.args[0],
                                       attr=v.args[1].value,
                                       ctx=ast.Store())],
                value=v.args[2], lineno=node.lineno), node)
        return node

    def visit_Assign(self, node):
        """`first, *_ = xs` is `first = xs[0]`; `*_, last = xs` is
        `last = xs[-1]` (the starred name never read)."""
        self.generic_visit(node)
        t = node.targets[0] if len(node.targets) == 1 else None
        v = node.value
        if isinstance(t, ast.Tuple) and self.loaded and \
                all(isinstance(e, ast.Name) for e in t.elts) and \
                isinstance(v, ast.Subscript) and \
                isinstance(v.slice, ast.Slice) and v.slice.lower is None \
                and v.slice.step is None and \
                isinstance(v.slice.upper, ast.Constant) and \
                v.slice.upper.value == len(t.elts) and \
                _stable_path(v.value) and not any(
                    isinstance(n, ast.Name) and n.id in
                    {e.id for e in t.elts} for n in ast.walk(v.value)):
            # `a, b = xs[:2]` is `a = xs[0]; b = xs[1]`
            self.count += 1
            return [ast.copy_location(ast.Assign(
                targets=[ast.Name(id=e.id, ctx=ast.Store())],
                value=ast.Subscript(value=copy.deepcopy(v.value),
                                    slice=ast.Constant(value=i),
                                    ctx=ast.Load()),
                lineno=node.lineno), node) for i, e in enumerate(t.elts)]
        if not (isinstance(t, ast.Tuple) and self.loaded and
                _stable_path(node.value) and
                sum(isinstance(e, ast.Starred) for e in t.elts) == 1 and
                all(isinstance(e, ast.Name) or (
                    isinstance(e, ast.Starred) and
                    isinstance(e.value, ast.Name)) for e in t.elts)):
            return node
        star = [i for i, e in enumerate(t.elts)
                if isinstance(e, ast.Starred)][0]
        out = []
        for i, e in enumerate(t.elts):
            if i == star:
                if e.value.id in self.loaded[-1]:
                    # the rest, when it is read: `rest = list(xs[i:j])`
                    after = len(t.elts) - 1 - i
                    sl = ast.Slice(
                        lower=ast.Constant(value=i) if i else None,
                        upper=ast.UnaryOp(op=ast.USub(), operand=ast.Constant(
                            value=after)) if after else None, step=None)
                    out.append(ast.copy_location(ast.Assign(
                        targets=[ast.Name(id=e.value.id, ctx=ast.Store())],
                        value=ast.Call(
                            func=ast.Name(id='list', ctx=ast.Load()),
                            args=[ast.Subscript(
                                value=copy.deepcopy(node.value), slice=sl,
                                ctx=ast.Load())], keywords=[]),
                        lineno=node.lineno), node))
                continue
            idx = i if i < star else i - len(t.elts)
            out.append(ast.copy_location(ast.Assign(
                targets=[ast.Name(id=e.id, ctx=ast.Store())],
                value=ast.Subscript(value=copy.deepcopy(node.value),
                                    slice=ast.Constant(value=idx),
                                    ctx=ast.Load()),
                lineno=node.lineno), node))
        if not out:
            return node
        self.count += 1
        return out

    def _elements(self, it):
        if isinstance(it, ast.Name):
            it = self.tuples[-1].get(it.id)
        if isinstance(it, ast.Call) and isinstance(it.func, ast.Name) and \
                it.func.id == 'map' and len(it.args) == 2 and \
                not it.keywords and \
                isinstance(it.args[0], (ast.Name, ast.Attribute,
                                        ast.Lambda)) and \
                isinstance(it.args[1], (ast.Tuple, ast.List)) and \
                1 <= len(it.args[1].elts) <= 6 and all(
                    isinstance(e, ast.Constant) for e in it.args[1].elts):
            # map(f, ('a', 'b')) iterated once: (f('a'), f('b'))
            it = ast.Tuple(elts=[self.visit(ast.copy_location(ast.Call(
                func=copy.deepcopy(it.args[0]), args=[e], keywords=[]), it))
                for e in it.args[1].elts], ctx=ast.Load())
        if isinstance(it, (ast.Tuple, ast.List)) and \
                1 <= len(it.elts) <= 6 and all(
                    _stable_path(e) or (isinstance(e, ast.Lambda) and not any(
                        isinstance(x, (ast.Call, ast.Yield, ast.NamedExpr))
                        for x in ast.walk(e.body)))
                    for e in it.elts):
            return list(it.elts)
        if isinstance(it, ast.Call) and isinstance(it.func, ast.Name) and \
                it.func.id == 'zip' and it.args and not it.keywords:
            cols = [self._elements(a) for a in it.args]
            if all(c is not None for c in cols) and \
                    len({len(c) for c in cols}) == 1:
                return [ast.Tuple(elts=list(row), ctx=ast.Load())
                        for row in zip(*cols)]
        return None

    def visit_Call(self, node):
        self.generic_visit(node)
        f = node.func
        if isinstance(f, ast.Name) and f.id == 'getattr' and \
                len(node.args) == 2 and not node.keywords and \
                isinstance(node.args[1], (ast.BinOp, ast.JoinedStr)):
            node.args[1] = _fold_strings(node.args[1])
        if isinstance(f, ast.Name) and f.id == 'getattr' and \
                len(node.args) == 2 and not node.keywords and \
                isinstance(node.args[1], ast.Constant) and \
                isinstance(node.args[1].value, str) and \
                node.args[1].value.isidentifier():
            # getattr(obj, 'name') is obj.name
            self.count += 1
            return ast.copy_location(ast.Attribute(
                value=node.args[0], attr=node.args[1].value,
                ctx=ast.Load()), node)
        if isinstance(f, ast.Call) and _memoised_pure(f) is not None:
            self.count += 1
            node.func = _memoised_pure(f)
            return self.visit_Call(node)
        g = _getter(node)
        if g is not None:
            # itemgetter('k') / attrgetter('a') written in place: the
            # function it stands for
            self.count += 1
            return ast.copy_location(ast.Lambda(
                args=ast.arguments(
                    posonlyargs=[], args=[ast.arg(arg='elem')],
                    kwonlyargs=[], kw_defaults=[], defaults=[]),
                body=_apply_getter(*g, ast.Name(id='elem', ctx=ast.Load()))),
                node)
        if isinstance(f, ast.Attribute) and isinstance(f.value, ast.Call) \
                and isinstance(f.value.func, ast.Attribute) and \
                isinstance(f.value.func.value, ast.Name) and \
                f.value.func.value.id == 're' and \
                f.value.func.attr == 'compile' and \
                len(f.value.args) == 1 and not f.value.keywords and \
                not node.keywords and (
                    (f.attr in ('match', 'search', 'fullmatch', 'findall',
                                'finditer', 'split') and
                     len(node.args) == 1) or
                    (f.attr in ('sub', 'subn') and
                     2 <= len(node.args) <= 3)):
            self.count += 1
            return ast.copy_location(ast.Call(
                func=ast.Attribute(value=ast.Name(id='re', ctx=ast.Load()),
                                   attr=f.attr, ctx=ast.Load()),
                args=[f.value.args[0]] + node.args, keywords=[]), node)
        if not (isinstance(f, ast.Name) and f.id in ('any', 'all') and
                len(node.args) == 1 and not node.keywords and
                isinstance(node.args[0], (ast.GeneratorExp, ast.ListComp))
                and len(node.args[0].generators) == 1 and
                not node.args[0].generators[0].is_async):
            return node
        g = node.args[0].generators[0]
        elements = self._elements(g.iter)
        if elements is None:
            return node
        names = [n for n in ast.walk(g.target)]
        if not all(isinstance(n, (ast.Name, ast.Tuple)) for n in names
                   if not isinstance(n, ast.expr_context)):
            return node
        terms = []
        for el in elements:
            env = {}
            if not _bind_target(g.target, el, env):
                return node
            parts = [_Subst(env, {}).visit(copy.deepcopy(c))
                     for c in list(g.ifs)]
            body = _Subst(env, {}).visit(copy.deepcopy(node.args[0].elt))
            if f.id == 'any':
                vals = parts + [body]
                terms.append(vals[0] if len(vals) == 1 else
                             ast.BoolOp(op=ast.And(), values=vals))
            else:
                vals = [ast.UnaryOp(op=ast.Not(), operand=p)
                        for p in parts] + [body]
                terms.append(vals[0] if len(vals) == 1 else
                             ast.BoolOp(op=ast.Or(), values=vals))
        self.count += 1
        out = terms[0] if len(terms) == 1 else ast.BoolOp(
            op=ast.Or() if f.id == 'any' else ast.And(), values=terms)
        if len(terms) == 1:
            out = ast.Call(func=ast.Name(id='bool', ctx=ast.Load()),
                           args=[out], keywords=[])
        return ast.copy_location(_Beta().visit(out), node)


class _Beta(ast.NodeTransformer):
    """(lambda x: BODY)(arg) is BODY with arg for x, for a plain argument."""
    def visit_Call(self, node):
        self.generic_visit(node)
        f = node.func
        if isinstance(f, ast.Lambda) and len(node.args) == 1 and \
                not node.keywords and len(f.args.args) == 1 and \
                not (f.args.vararg or f.args.kwarg or f.args.kwonlyargs or
                     f.args.defaults or f.args.posonlyargs) and \
                _dup_safe_arg(node.args[0]):
            return ast.copy_location(_Subst(
                {f.args.args[0].arg: node.args[0]}, {}).visit(
                    copy.deepcopy(f.body)), node)
        return node


def _bind_target(target, value, env):
    if isinstance(target, ast.Name):
        env[target.id] = value
        return True
    if isinstance(target, ast.Tuple) and isinstance(value, ast.Tuple) and \
            len(target.elts) == len(value.elts):
        return all(_bind_target(t, v, env)
                   for t, v in zip(target.elts, value.elts))
    return False


class _Partials(ast.NodeTransformer):
    """fn = partial(g, a, b); ... fn(x)   ->   fn_0 = a; fn_1 = b; ... g(fn_0,
    fn_1, x)   for a local bound once to a functools.partial that is only
    ever called (arguments that are names or constants are written in
    place)."""
    def __init__(self):
        self.count = 0

    def _scope(self, node):
        self.generic_visit(node)
        stores, loads, callees = {}, {}, {}
        for x in ast.walk(node):
            if isinstance(x, ast.Name):
                d = stores if isinstance(x.ctx, (ast.Store, ast.Del)) \
                    else loads
                d[x.id] = d.get(x.id, 0) + 1
            if isinstance(x, ast.Call) and isinstance(x.func, ast.Name):
                callees[x.func.id] = callees.get(x.func.id, 0) + 1
        cands = {}
        for st in ast.walk(node):
            if isinstance(st, ast.Assign) and len(st.targets) == 1 and \
                    isinstance(st.targets[0], ast.Name) and \
                    isinstance(st.value, ast.Call) and \
                    ast.unparse(st.value.func) in ('partial',
                                                   'functools.partial') and \
                    st.value.args and not st.value.keywords and \
                    not any(isinstance(a, ast.Starred)
                            for a in st.value.args) and \
                    isinstance(st.value.args[0], (ast.Name, ast.Attribute)):
                name = st.targets[0].id
                if stores.get(name) == 1 and loads.get(name, 0) > 0 and \
                        loads.get(name) == callees.get(name):
                    cands[name] = st
        if not cands:
            return node

        class B(ast.NodeTransformer):
            def visit_Call(self2, call):
                self2.generic_visit(call)
                if isinstance(call.func, ast.Name) and \
                        call.func.id in cands:
                    st = cands[call.func.id]
                    pre = [copy.deepcopy(a) if isinstance(a, (
                        ast.Name, ast.Constant)) else ast.Name(
                            id='%s_%d' % (call.func.id, i), ctx=ast.Load())
                        for i, a in enumerate(st.value.args[1:])]
                    call.func = copy.deepcopy(st.value.args[0])
                    call.args = pre + call.args
                return call
        B().visit(node)

        class A(ast.NodeTransformer):
            def visit_Assign(self2, st):
                for name, c in cands.items():
                    if st is c:
                        out = [ast.copy_location(ast.Assign(
                            targets=[ast.Name(id='%s_%d' % (name, i),
                                              ctx=ast.Store())],
                            value=a, lineno=st.lineno), st)
                            for i, a in enumerate(st.value.args[1:])
                            if not isinstance(a, (ast.Name, ast.Constant))]
                        return out or ast.copy_location(ast.Pass(), st)
                return st
        A().visit(node)
        self.count += len(cands)
        return node

    visit_FunctionDef = _scope
    visit_AsyncFunctionDef = _scope


def _fuse_projections(tree):
    """vals = [g(e) for e in X]                (a local bound once)
       ... all(P(v) for v in vals)     ->  all(P(g(e)) for e in X)
       ... K in vals / K not in vals   ->  any(g(e) == K ..) / all(g(e) != K)
    (`is` / `is not` for None): a quantifier over a projection of X is a
    quantifier over X.  The projection goes away when nothing else reads
    it."""
    count = 0
    for fn in ast.walk(tree):
        if not isinstance(fn, (ast.FunctionDef, ast.AsyncFunctionDef)):
            continue
        stores = {}
        for x in ast.walk(fn):
            if isinstance(x, ast.Name) and isinstance(
                    x.ctx, (ast.Store, ast.Del)):
                stores[x.id] = stores.get(x.id, 0) + 1
            elif isinstance(x, ast.arg):
                stores[x.arg] = stores.get(x.arg, 0) + 1
            elif isinstance(x, (ast.Global, ast.Nonlocal)):
                for nm in x.names:
                    stores[nm] = stores.get(nm, 0) + 2
        pm = {}
        for x in ast.walk(fn):
            for ch in ast.iter_child_nodes(x):
                pm[ch] = x
        for st in [x for x in ast.walk(fn) if isinstance(x, ast.Assign)]:
            if not (len(st.targets) == 1 and
                    isinstance(st.targets[0], ast.Name) and
                    isinstance(st.value, ast.ListComp) and
                    len(st.value.generators) == 1):
                continue
            g = st.value.generators[0]
            v = st.targets[0].id
            if g.ifs or g.is_async or not isinstance(g.target, ast.Name) or \
                    stores.get(v) != 1 or stores.get(g.target.id) != 1:
                continue
            e = g.target.id
            if any(isinstance(n, ast.Name) and n.id != e and
                   stores.get(n.id, 0) > 1 for n in ast.walk(st.value)) or \
                    any(isinstance(n, (ast.Call, ast.Yield, ast.Await,
                                       ast.NamedExpr))
                        for n in ast.walk(st.value.elt)):
                continue
            uses = [n for n in ast.walk(fn) if isinstance(n, ast.Name) and
                    n.id == v and isinstance(n.ctx, ast.Load)]
            todo = []
            for u in uses:
                par = pm.get(u)
                if isinstance(par, ast.comprehension) and par.iter is u and \
                        isinstance(par.target, ast.Name) and \
                        not par.is_async:
                    comp = pm.get(par)
                    call = pm.get(comp)
                    if isinstance(comp, (ast.GeneratorExp, ast.ListComp)) \
                            and len(comp.generators) == 1 and \
                            isinstance(call, ast.Call) and \
                            isinstance(call.func, ast.Name) and \
                            call.func.id in ('all', 'any') and \
                            call.args == [comp] and not call.keywords:
                        inner = {n.id for n in ast.walk(comp.elt)
                                 if isinstance(n, ast.Name)} | {
                            n.id for i_ in par.ifs for n in ast.walk(i_)
                            if isinstance(n, ast.Name)}
                        if e not in inner - {par.target.id} and \
                                e != par.target.id:
                            todo.append(('quant', u, par, comp))
                            continue
                        if e == par.target.id:
                            todo.append(('quant', u, par, comp))
                            continue
                if isinstance(par, ast.Compare) and len(par.ops) == 1 and \
                        isinstance(par.ops[0], (ast.In, ast.NotIn)) and \
                        par.comparators[0] is u and \
                        isinstance(par.left, ast.Constant):
                    todo.append(('member', u, par, None))
            if not todo:
                continue
            for kind, u, par, comp in todo:
                if kind == 'quant':
                    sub = _Subst({par.target.id: st.value.elt}, {})
                    if e != par.target.id:
                        comp.elt = sub.visit(comp.elt)
                        par.ifs = [sub.visit(i_) for i_ in par.ifs]
                    else:
                        comp.elt = sub.visit(comp.elt)
                        par.ifs = [sub.visit(i_) for i_ in par.ifs]
                    par.target = ast.Name(id=e, ctx=ast.Store())
                    par.iter = copy.deepcopy(g.iter)
                else:
                    none = par.left.value is None
                    neg = isinstance(par.ops[0], ast.NotIn)
                    op = (ast.IsNot() if neg else ast.Is()) if none else \
                        (ast.NotEq() if neg else ast.Eq())
                    new = ast.Call(
                        func=ast.Name(id='all' if neg else 'any',
                                      ctx=ast.Load()),
                        args=[ast.GeneratorExp(
                            elt=ast.Compare(
                                left=copy.deepcopy(st.value.elt), ops=[op],
                                comparators=[par.left]),
                            generators=[ast.comprehension(
                                target=ast.Name(id=e, ctx=ast.Store()),
                                iter=copy.deepcopy(g.iter), ifs=[],
                                is_async=0)])], keywords=[])
                    _Replace(par, ast.copy_location(new, par)).visit(fn)
                count += 1
            if len(todo) == len(uses):
                for blk in ast.walk(fn):
                    for name in _BLOCKS:
                        lst = getattr(blk, name, None)
                        if isinstance(lst, list) and st in lst:
                            lst.remove(st)
                            if not lst:
                                lst.append(_pass(st))
            ast.fix_missing_locations(fn)
            # one projection per function and pass: the parent map is stale
            break
    return count


def _record_types(trees):
    """{name: (fields, {field: default expr})} of the tuple-like record types
    of the program: NAME = namedtuple('NAME', ...) and class NAME(NamedTuple)
    at module level (a name defined twice is dropped)."""
    out, twice = {}, set()
    for t in trees.values():
        for st in t.body:
            rec = None
            if isinstance(st, ast.Assign) and len(st.targets) == 1 and \
                    isinstance(st.targets[0], ast.Name) and \
                    isinstance(st.value, ast.Call) and \
                    ast.unparse(st.value.func) in (
                        'namedtuple', 'collections.namedtuple') and \
                    len(st.value.args) == 2:
                spec = st.value.args[1]
                fields = None
                if isinstance(spec, ast.Constant) and \
                        isinstance(spec.value, str):
                    fields = spec.value.replace(',', ' ').split()
                elif isinstance(spec, (ast.Tuple, ast.List)) and all(
                        isinstance(e, ast.Constant) for e in spec.elts):
                    fields = [e.value for e in spec.elts]
                dflt = []
                for kw_ in st.value.keywords:
                    if kw_.arg == 'defaults' and isinstance(
                            kw_.value, (ast.Tuple, ast.List)):
                        dflt = list(kw_.value.elts)
                    else:
                        fields = None
                if fields:
                    rec = (st.targets[0].id, fields, dict(zip(
                        reversed(fields), reversed(dflt))))
            elif isinstance(st, ast.ClassDef) and any(
                    ast.unparse(b) in ('NamedTuple', 'typing.NamedTuple')
                    for b in st.bases) and not st.decorator_list:
                fields, dflt = [], {}
                for b in st.body:
                    if isinstance(b, ast.AnnAssign) and \
                            isinstance(b.target, ast.Name):
                        fields.append(b.target.id)
                        if b.value is not None:
                            dflt[b.target.id] = b.value
                if fields and not any(
                        isinstance(b, ast.FunctionDef) and
                        b.name in ('__new__', '__init__') for b in st.body):
                    rec = (st.name, fields, dflt)
            if rec is not None:
                if rec[0] in out:
                    twice.add(rec[0])
                out[rec[0]] = (rec[1], rec[2])
    for nm in twice:
        out.pop(nm, None)
    return out


def _local_records(trees):
    """r = Rec(a=x, b=y)           (a local bound once to a record built in
       ... r.a ... f(*r) ... r[1]   place, x and y not re-bound meanwhile)
    ->  ... x ... f(x, y) ... y"""
    recs = _record_types(trees)
    if not recs:
        return 0
    n = 0
    for t in trees.values():
        for fn in ast.walk(t):
            if not isinstance(fn, (ast.FunctionDef, ast.AsyncFunctionDef)):
                continue
            stores = {}
            for x in ast.walk(fn):
                if isinstance(x, ast.Name) and isinstance(
                        x.ctx, (ast.Store, ast.Del)):
                    stores[x.id] = stores.get(x.id, 0) + 1
            done_one = True
            while done_one:
                done_one = False
                pm = {}
                for x in ast.walk(fn):
                    for ch in ast.iter_child_nodes(x):
                        pm[ch] = x
                for st in [x for x in ast.walk(fn)
                           if isinstance(x, ast.Assign)]:
                    if not (len(st.targets) == 1 and
                            isinstance(st.targets[0], ast.Name) and
                            isinstance(st.value, ast.Call) and
                            isinstance(st.value.func, ast.Name) and
                            st.value.func.id in recs):
                        continue
                    fields, dflt = recs[st.value.func.id]
                    c = st.value
                    if any(isinstance(a, ast.Starred) for a in c.args) or \
                            any(k.arg is None for k in c.keywords) or \
                            len(c.args) > len(fields):
                        continue
                    row = dict(zip(fields, c.args))
                    bad = False
                    for k in c.keywords:
                        if k.arg not in fields or k.arg in row:
                            bad = True
                        row[k.arg] = k.value
                    for f_ in fields:
                        if f_ not in row and f_ in dflt:
                            row[f_] = dflt[f_]
                    if bad or set(row) != set(fields) or any(
                            isinstance(x, (ast.Call, ast.Yield, ast.Await,
                                           ast.NamedExpr))
                            and not (isinstance(x, ast.Call) and
                                     isinstance(x.func, ast.Attribute) and
                                     x.func.attr in ('startswith', 'get',
                                                     'endswith', 'lower'))
                            for v in row.values() for x in ast.walk(v)):
                        continue
                    var = st.targets[0].id
                    # the uses this binding reaches: those after it in its
                    # own block, when no other binding of the name is there
                    blk_ = None
                    for b_ in ast.walk(fn):
                        for name in _BLOCKS:
                            lst = getattr(b_, name, None)
                            if isinstance(lst, list) and st in lst:
                                blk_ = lst
                        for h_ in getattr(b_, 'handlers', []) or []:
                            if st in h_.body:
                                blk_ = h_.body
                    if blk_ is None:
                        continue
                    after = blk_[blk_.index(st) + 1:]
                    if any(isinstance(x, ast.Name) and x.id == var and
                           isinstance(x.ctx, (ast.Store, ast.Del))
                           for s2 in after for x in ast.walk(s2)):
                        continue
                    uses = [x for s2 in after for x in ast.walk(s2)
                            if isinstance(x, ast.Name) and x.id == var and
                            isinstance(x.ctx, ast.Load)]
                    if stores.get(var) != 1:
                        # several bindings: every use must be after a
                        # binding in that binding's own block
                        every = [x for x in ast.walk(fn)
                                 if isinstance(x, ast.Name) and x.id == var
                                 and isinstance(x.ctx, ast.Load)]
                        owners = 0
                        for b_ in ast.walk(fn):
                            for name in list(_BLOCKS) + ['hbody']:
                                lst = getattr(b_, name, None) \
                                    if name != 'hbody' else (
                                        b_.body if isinstance(
                                            b_, ast.ExceptHandler) else None)
                                if not isinstance(lst, list):
                                    continue
                                for i_, s2 in enumerate(lst):
                                    if isinstance(s2, ast.Assign) and \
                                            len(s2.targets) == 1 and \
                                            isinstance(s2.targets[0],
                                                       ast.Name) and \
                                            s2.targets[0].id == var:
                                        owners += sum(
                                            1 for s3 in lst[i_ + 1:]
                                            for x in ast.walk(s3)
                                            if isinstance(x, ast.Name) and
                                            x.id == var and
                                            isinstance(x.ctx, ast.Load))
                        if owners != len(every):
                            continue
                    todo = []
                    for u in uses:
                        par = pm.get(u)
                        if isinstance(par, ast.Attribute) and \
                                par.value is u and par.attr in row and \
                                isinstance(par.ctx, ast.Load):
                            todo.append((par, [row[par.attr]]))
                        elif isinstance(par, ast.Starred) and \
                                isinstance(pm.get(par), ast.Call) and \
                                par in pm[par].args:
                            todo.append((par, [row[f_] for f_ in fields]))
                        elif isinstance(par, ast.Subscript) and \
                                par.value is u and \
                                isinstance(par.slice, ast.Constant) and \
                                isinstance(par.slice.value, int) and \
                                0 <= par.slice.value < len(fields):
                            todo.append((par,
                                         [row[fields[par.slice.value]]]))
                    if not todo or len(todo) != len(uses):
                        continue
                    for node, repl in todo:
                        if isinstance(node, ast.Starred):
                            call = pm[node]
                            i = call.args.index(node)
                            call.args[i:i + 1] = [copy.deepcopy(r)
                                                  for r in repl]
                        else:
                            _Replace(node, copy.deepcopy(repl[0])).visit(fn)
                    for blk in ast.walk(fn):
                        for name in _BLOCKS:
                            lst = getattr(blk, name, None)
                            if isinstance(lst, list) and st in lst:
                                lst.remove(st)
                                if not lst:
                                    lst.append(_pass(st))
                    ast.fix_missing_locations(fn)
                    stores[var] = stores.get(var, 1) - 1 or 1
                    n += 1
                    done_one = True
                    break
    return n


def _as_dict_literal(e):
    """{..} for a dict display or dict(a=x, b=y)."""
    if isinstance(e, ast.Dict):
        return e
    if isinstance(e, ast.Call) and isinstance(e.func, ast.Name) and \
            e.func.id == 'dict' and not e.args and e.keywords and \
            all(k.arg is not None for k in e.keywords):
        return ast.Dict(keys=[ast.Constant(value=k.arg) for k in e.keywords],
                        values=[k.value for k in e.keywords])
    return None


def _local_dict_fields(trees):
    """q = {'key': key, 'revision': revision}     (bound once, never written)
       ... q['key'] ...                     ->   ... key ...
    for values that are plain access paths nothing re-binds."""
    n = 0
    for t in trees.values():
        for fn in ast.walk(t):
            if not isinstance(fn, (ast.FunctionDef, ast.AsyncFunctionDef)):
                continue
            stores = {}
            for x in ast.walk(fn):
                if isinstance(x, ast.Name) and isinstance(
                        x.ctx, (ast.Store, ast.Del)):
                    stores[x.id] = stores.get(x.id, 0) + 1
            pm = None
            for st in [x for x in ast.walk(fn) if isinstance(x, ast.Assign)]:
                if not (len(st.targets) == 1 and
                        isinstance(st.targets[0], ast.Name) and
                        stores.get(st.targets[0].id) == 1 and
                        isinstance(_as_dict_literal(st.value), ast.Dict)):
                    continue
                st_value = _as_dict_literal(st.value)
                if not (st_value.keys and
                        all(isinstance(k, ast.Constant) and
                            isinstance(k.value, str) for k in st_value.keys)
                        and all(_stable_path(v) and all(
                            stores.get(x.id, 0) <= 1 for x in ast.walk(v)
                            if isinstance(x, ast.Name))
                            for v in st_value.values)):
                    continue
                var = st.targets[0].id
                if pm is None:
                    pm = {}
                    for x in ast.walk(fn):
                        for ch in ast.iter_child_nodes(x):
                            pm[ch] = x
                row = {k.value: v for k, v in zip(st_value.keys,
                                                  st_value.values)}
                uses = [x for x in ast.walk(fn) if isinstance(x, ast.Name)
                        and x.id == var and isinstance(x.ctx, ast.Load)]
                subs, ok = [], True
                for u in uses:
                    par = pm.get(u)
                    if isinstance(par, ast.Subscript) and par.value is u:
                        if isinstance(par.ctx, ast.Load) and \
                                isinstance(par.slice, ast.Constant) and \
                                par.slice.value in row:
                            subs.append(par)
                        else:
                            ok = False
                    elif isinstance(par, ast.keyword) and par.arg is None:
                        pass            # **q: reads the dict
                    elif isinstance(par, ast.Attribute) and \
                            par.attr in ('get', 'items', 'keys', 'values',
                                         'copy'):
                        pass
                    else:
                        ok = False      # handed out or written: not ours
                if not ok or not subs:
                    continue
                for sb in subs:
                    _Replace(sb, copy.deepcopy(row[sb.slice.value])).visit(fn)
                ast.fix_missing_locations(fn)
                pm = None
                n += 1
    return n


def _memo_own_attribute(trees):
    """@classmethod
       def m(cls):
           if vars(cls).get('_a') is None:      (the class's OWN attribute)
               cls._a = E
           return cls._a
    with E made of re.compile and attributes of cls, and `_a` stored
    nowhere else: m() is E, computed once per class.  -> return E
    (a test on `cls._a`, which also sees the parent's value, is not this
    idiom: a subclass would get its parent's E)."""
    n = 0
    stored = {}
    for t in trees.values():
        for x in ast.walk(t):
            if isinstance(x, ast.Attribute) and \
                    isinstance(x.ctx, (ast.Store, ast.Del)):
                stored[x.attr] = stored.get(x.attr, 0) + 1
            elif isinstance(x, ast.Call) and isinstance(x.func, ast.Name) \
                    and x.func.id in ('setattr', 'delattr') and \
                    len(x.args) >= 2 and \
                    isinstance(x.args[1], ast.Constant):
                stored[x.args[1].value] = stored.get(x.args[1].value, 0) + 1
    for t in trees.values():
        for k in ast.walk(t):
            if not isinstance(k, ast.ClassDef):
                continue
            for fn in k.body:
                if not (isinstance(fn, ast.FunctionDef) and any(
                        isinstance(d, ast.Name) and d.id == 'classmethod'
                        for d in fn.decorator_list) and
                        len(fn.args.args) == 1):
                    continue
                cls = fn.args.args[0].arg
                body = _body_wo_doc(fn)
                if len(body) != 2 or not isinstance(body[0], ast.If) or \
                        body[0].orelse or \
                        not isinstance(body[1], ast.Return):
                    continue
                ret = body[1].value
                if not (isinstance(ret, ast.Attribute) and
                        isinstance(ret.value, ast.Name) and
                        ret.value.id == cls):
                    continue
                attr = ret.attr
                t_ = body[0].test
                own = isinstance(t_, ast.Compare) and len(t_.ops) == 1 and \
                    isinstance(t_.ops[0], ast.Is) and \
                    isinstance(t_.comparators[0], ast.Constant) and \
                    t_.comparators[0].value is None and \
                    isinstance(t_.left, ast.Call) and \
                    isinstance(t_.left.func, ast.Attribute) and \
                    t_.left.func.attr == 'get' and \
                    len(t_.left.args) in (1, 2) and \
                    isinstance(t_.left.args[0], ast.Constant) and \
                    t_.left.args[0].value == attr and (
                        len(t_.left.args) == 1 or (
                            isinstance(t_.left.args[1], ast.Constant) and
                            t_.left.args[1].value is None)) and \
                    ast.unparse(t_.left.func.value) in (
                        'vars(%s)' % cls, '%s.__dict__' % cls)
                if not own or stored.get(attr) != 1:
                    continue
                sets = [st for st in body[0].body
                        if isinstance(st, ast.Assign)]
                others = [st for st in body[0].body
                          if not isinstance(st, ast.Assign)]
                if len(sets) != 1 or len(sets[0].targets) != 1 or \
                        ast.unparse(sets[0].targets[0]) != \
                        '%s.%s' % (cls, attr) or any(
                            not (isinstance(st, ast.Expr) and
                                 isinstance(st.value, ast.Call) and
                                 ast.unparse(st.value.func).startswith(
                                     'LOG.')) for st in others):
                    continue
                e = sets[0].value
                pure = all(
                    not isinstance(x, ast.Call) or
                    ast.unparse(x.func) == 're.compile'
                    for x in ast.walk(e)) and all(
                    not isinstance(x, ast.Name) or x.id in (cls, 're')
                    for x in ast.walk(e))
                if not pure:
                    continue
                new_body = [ast.copy_location(ast.Return(value=e), body[1])]
                fn.body = fn.body[:len(fn.body) - len(body)] + new_body
                ast.fix_missing_locations(fn)
                n += 1
    return n


class _DictFlows(ast.NodeTransformer):
    """{k: f(v) for k, v in {a: g(b) for a, b in Y}.items()}
           -> {a: f(g(b)) for a, b in Y}
       D.update({k: v for t in I if c})    (a statement)
           -> for t in I: if c: D[k] = v"""
    def __init__(self):
        self.count = 0

    def visit_DictComp(self, node):
        self.generic_visit(node)
        if len(node.generators) != 1:
            return node
        g = node.generators[0]
        it = g.iter
        if isinstance(it, ast.Call) and not it.args and not it.keywords and \
                isinstance(it.func, ast.Attribute) and \
                it.func.attr == 'items' and \
                isinstance(it.func.value, ast.DictComp) and \
                len(it.func.value.generators) == 1 and \
                isinstance(g.target, ast.Tuple) and \
                len(g.target.elts) == 2 and all(
                    isinstance(e, ast.Name) for e in g.target.elts) and \
                not g.is_async:
            inner = it.func.value
            ig = inner.generators[0]
            k, v = (e.id for e in g.target.elts)
            bound = {x.id for x in ast.walk(ig.target)
                     if isinstance(x, ast.Name)}
            outer_names = {x.id for x in ast.walk(node.key)
                           if isinstance(x, ast.Name)} | {
                x.id for x in ast.walk(node.value)
                if isinstance(x, ast.Name)} | {
                x.id for i_ in g.ifs for x in ast.walk(i_)
                if isinstance(x, ast.Name)}
            if bound & (outer_names - {k, v}) or any(
                    isinstance(x, (ast.Call, ast.Yield, ast.NamedExpr))
                    for x in ast.walk(inner.key)):
                return node
            sub = _Subst({k: inner.key, v: inner.value}, {})
            self.count += 1
            return ast.copy_location(ast.DictComp(
                key=sub.visit(node.key), value=sub.visit(node.value),
                generators=[ast.comprehension(
                    target=ig.target, iter=ig.iter,
                    ifs=list(ig.ifs) + [sub.visit(i_) for i_ in g.ifs],
                    is_async=0)]), node)
        return node

    def visit_Assign(self, node):
        """a, b = (E1, E2)  ->  a = E1; b = E2   when neither expression
        reads a or b (what a written-out `for a, b in gen()` leaves)."""
        self.generic_visit(node)
        if len(node.targets) == 1 and \
                isinstance(node.targets[0], ast.Tuple) and \
                isinstance(node.value, ast.Tuple) and \
                len(node.targets[0].elts) == len(node.value.elts) >= 2 and \
                all(isinstance(t, ast.Name) for t in node.targets[0].elts) \
                and not any(isinstance(v, ast.Starred)
                            for v in node.value.elts):
            names = {t.id for t in node.targets[0].elts}
            if len(names) == len(node.targets[0].elts) and not (names & {
                    x.id for v in node.value.elts for x in ast.walk(v)
                    if isinstance(x, ast.Name)}):
                self.count += 1
                return [ast.copy_location(ast.Assign(
                    targets=[t], value=v, lineno=node.lineno), node)
                    for t, v in zip(node.targets[0].elts, node.value.elts)]
        return node

    def visit_For(self, node):
        """for k, v in {a: g(b) for a, b in Y}.items(): body
               -> for a, b in Y: body[k := a, v := g(b)]"""
        self.generic_visit(node)
        it = node.iter
        if isinstance(it, ast.Call) and not it.args and not it.keywords and \
                isinstance(it.func, ast.Attribute) and \
                it.func.attr == 'items' and \
                isinstance(it.func.value, ast.DictComp) and \
                len(it.func.value.generators) == 1 and \
                not it.func.value.generators[0].is_async and \
                isinstance(node.target, ast.Tuple) and \
                len(node.target.elts) == 2 and all(
                    isinstance(e, ast.Name) for e in node.target.elts) and \
                not node.orelse:
            inner = it.func.value
            ig = inner.generators[0]
            k, v = (e.id for e in node.target.elts)
            bound = {x.id for x in ast.walk(ig.target)
                     if isinstance(x, ast.Name)}
            body_names = {x.id for st in node.body for x in ast.walk(st)
                          if isinstance(x, ast.Name)}
            restored = {x.id for st in node.body for x in ast.walk(st)
                        if isinstance(x, ast.Name) and
                        isinstance(x.ctx, (ast.Store, ast.Del))}
            if bound & (body_names - {k, v}) or {k, v} & restored or \
                    not (_dup_safe_arg(inner.key) and
                         _dup_safe_arg(inner.value)):
                return node
            sub = _Subst({k: inner.key, v: inner.value}, {})
            body = [sub.visit(st) for st in node.body]
            for i_ in reversed(ig.ifs):
                body = [ast.copy_location(
                    ast.If(test=i_, body=body, orelse=[]), node)]
            tgt = copy.deepcopy(ig.target)
            for x in ast.walk(tgt):
                if isinstance(x, (ast.Name, ast.Tuple, ast.List)):
                    x.ctx = ast.Store()
            self.count += 1
            return ast.copy_location(ast.For(
                target=tgt, iter=ig.iter, body=body, orelse=[],
                lineno=node.lineno), node)
        return node

    def visit_Expr(self, node):
        self.generic_visit(node)
        c = node.value
        if isinstance(c, ast.Call) and isinstance(c.func, ast.Attribute) \
                and c.func.attr == 'update' and len(c.args) == 1 and \
                not c.keywords and isinstance(c.args[0], ast.DictComp) and \
                len(c.args[0].generators) == 1 and \
                not c.args[0].generators[0].is_async and \
                _stable_path(c.func.value):
            d = c.args[0]
            g = d.generators[0]
            store = ast.Assign(targets=[ast.Subscript(
                value=c.func.value, slice=d.key, ctx=ast.Store())],
                value=d.value, lineno=node.lineno)
            body = [ast.copy_location(store, node)]
            for i_ in reversed(g.ifs):
                body = [ast.copy_location(
                    ast.If(test=i_, body=body, orelse=[]), node)]
            tgt = copy.deepcopy(g.target)
            for x in ast.walk(tgt):
                if isinstance(x, (ast.Name, ast.Tuple, ast.List)):
                    x.ctx = ast.Store()
            self.count += 1
            return ast.copy_location(ast.For(
                target=tgt, iter=g.iter, body=body, orelse=[],
                lineno=node.lineno), node)
        return node


def _loops_over_generators(tree):
    """g = (E for x in XS)  (a local bound once, read once)
       for v in g: BODY        ->   for x in XS: v = E; BODY
    (also with the generator written in the loop header): a lazy generator
    computes E when the loop asks for it."""
    n = 0
    for fn in ast.walk(tree):
        if not isinstance(fn, (ast.FunctionDef, ast.AsyncFunctionDef)):
            continue
        changed = True
        while changed:
            changed = False
            stores, loads = {}, {}
            for x in ast.walk(fn):
                if isinstance(x, ast.Name):
                    d = stores if isinstance(x.ctx, (ast.Store, ast.Del)) \
                        else loads
                    d[x.id] = d.get(x.id, 0) + 1
            gens = {}
            for st in ast.walk(fn):
                if isinstance(st, ast.Assign) and len(st.targets) == 1 and \
                        isinstance(st.targets[0], ast.Name) and \
                        isinstance(st.value, ast.GeneratorExp) and \
                        stores.get(st.targets[0].id) == 1 and \
                        loads.get(st.targets[0].id) == 1:
                    gens[st.targets[0].id] = st
            for lp in ast.walk(fn):
                if not isinstance(lp, ast.For) or lp.orelse:
                    continue
                g, holder = None, None
                if isinstance(lp.iter, ast.GeneratorExp):
                    g = lp.iter
                elif isinstance(lp.iter, ast.Name) and lp.iter.id in gens:
                    holder = gens[lp.iter.id]
                    g = holder.value
                if g is None or len(g.generators) != 1 or \
                        g.generators[0].is_async:
                    continue
                c = g.generators[0]
                inner = {x.id for x in ast.walk(c.target)
                         if isinstance(x, ast.Name)}
                body_names = {x.id for b in lp.body for x in ast.walk(b)
                              if isinstance(x, ast.Name)} | {
                    x.id for x in ast.walk(lp.target)
                    if isinstance(x, ast.Name)}
                if inner & body_names or any(
                        stores.get(nm, 0) > 1 for nm in inner):
                    continue
                if holder is not None:
                    # nothing between the definition and the loop may
                    # change what the generator reads: same block, adjacent
                    ok = False
                    for blk in ast.walk(fn):
                        for name in _BLOCKS:
                            lst = getattr(blk, name, None)
                            if isinstance(lst, list) and holder in lst and \
                                    lp in lst and \
                                    lst.index(lp) == lst.index(holder) + 1:
                                lst.remove(holder)
                                ok = True
                    if not ok:
                        continue
                head = ast.copy_location(ast.Assign(
                    targets=[lp.target], value=g.elt, lineno=lp.lineno), lp)
                body = [head] + lp.body
                for i_ in reversed(c.ifs):
                    body = [ast.copy_location(
                        ast.If(test=i_, body=body, orelse=[]), lp)]
                tgt = copy.deepcopy(c.target)
                for x in ast.walk(tgt):
                    if isinstance(x, (ast.Name, ast.Tuple, ast.List)):
                        x.ctx = ast.Store()
                lp.target, lp.iter, lp.body = tgt, c.iter, body
                ast.fix_missing_locations(fn)
                n += 1
                changed = True
                break
    return n


class _BoolInTests(ast.NodeTransformer):
    """`if bool(x) and y:` is `if x and y:` -- bool() says nothing where
    only the truth of the value is looked at."""
    def __init__(self):
        self.count = 0

    def _strip(self, e):
        if isinstance(e, ast.Call) and isinstance(e.func, ast.Name) and \
                e.func.id == 'bool' and len(e.args) == 1 and \
                not e.keywords and not isinstance(e.args[0], ast.Starred):
            self.count += 1
            return self._strip(e.args[0])
        if isinstance(e, ast.Call) and isinstance(e.func, ast.Name) and \
                e.func.id == 'len' and len(e.args) == 1 and \
                not e.keywords and isinstance(e.args[0], (ast.Name,
                                                          ast.Attribute)):
            self.count += 1         # `if len(xs):` is `if xs:`
            return e.args[0]
        if isinstance(e, ast.BoolOp):
            e.values = [self._strip(v) for v in e.values]
        elif isinstance(e, ast.UnaryOp) and isinstance(e.op, ast.Not):
            e.operand = self._strip(e.operand)
        return e

    def _test(self, node):
        self.generic_visit(node)
        node.test = self._strip(node.test)
        return node
    visit_If = _test
    visit_While = _test
    visit_IfExp = _test
    visit_Assert = _test


def desugar(trees):
    n = _memo_own_attribute(trees)
    n += _local_records(trees)
    n += _local_dict_fields(trees)
    for t in trees.values():
        n += _loops_over_generators(t)
        b = _BoolInTests()
        b.visit(t)
        n += b.count
    for t in trees.values():
        df = _DictFlows()
        df.visit(t)
        if df.count:
            ast.fix_missing_locations(t)
        n += df.count
        while True:
            k = _fuse_projections(t)
            n += k
            if not k:
                break
        pp = _Partials()
        pp.visit(t)
        if pp.count:
            ast.fix_missing_locations(t)
        n += pp.count
        q = _Quantifiers()
        q.visit(t)
        if q.count:
            ast.fix_missing_locations(t)
        n += q.count
        # module-level names bound exactly once to a literal tuple / list
        bound = {}
        for st in t.body:
            for x in ast.walk(st) if not isinstance(
                    st, (ast.FunctionDef, ast.AsyncFunctionDef,
                         ast.ClassDef)) else ():
                if isinstance(x, ast.Name) and isinstance(x.ctx, ast.Store):
                    bound[x.id] = bound.get(x.id, 0) + 1
        consts = {}
        for st in t.body:
            if isinstance(st, ast.Assign) and len(st.targets) == 1 and \
                    isinstance(st.targets[0], ast.Name) and \
                    bound.get(st.targets[0].id) == 1 and \
                    isinstance(st.value, (ast.Tuple, ast.List)):
                consts[st.targets[0].id] = st.value
        for x in ast.walk(t):
            if isinstance(x, (ast.Global, ast.Nonlocal)):
                for name in x.names:
                    consts.pop(name, None)
        d = _Desugar(consts)
        # record types: NAME = namedtuple('NAME', 'a b c', defaults=(..))
        for st in t.body:
            if isinstance(st, ast.Assign) and len(st.targets) == 1 and \
                    isinstance(st.targets[0], ast.Name) and \
                    bound.get(st.targets[0].id) == 1 and \
                    isinstance(st.value, ast.Call) and \
                    ast.unparse(st.value.func) in (
                        'namedtuple', 'collections.namedtuple') and \
                    len(st.value.args) == 2:
                spec = st.value.args[1]
                fields = None
                if isinstance(spec, ast.Constant) and \
                        isinstance(spec.value, str):
                    fields = spec.value.replace(',', ' ').split()
                elif isinstance(spec, (ast.Tuple, ast.List)) and all(
                        isinstance(e, ast.Constant) for e in spec.elts):
                    fields = [e.value for e in spec.elts]
                dflt = []
                for kw_ in st.value.keywords:
                    if kw_.arg == 'defaults' and isinstance(
                            kw_.value, (ast.Tuple, ast.List)):
                        dflt = list(kw_.value.elts)
                    elif kw_.arg != 'defaults':
                        fields = None
                if fields:
                    d.records[st.targets[0].id] = (fields, dflt)
        d.visit(t)
        if d.count:
            ast.fix_missing_locations(t)
        n += d.count
    return n


def _fold_strings(e):
    """e with its string-building sub-expressions over constants
    ('..{a}..'.format(a='x'), '%s' % 'x', 'a' + 'b', f-strings of
    constants, ''.join of a literal list) replaced by the string."""
    from .analysis import const_value
    from .program import AnalysisError

    class T(ast.NodeTransformer):
        def generic_visit(self, node):
            super().generic_visit(node)
            if isinstance(node, (ast.BinOp, ast.JoinedStr)) or (
                    isinstance(node, ast.Call) and
                    isinstance(node.func, ast.Attribute) and
                    node.func.attr in ('format', 'join') and
                    isinstance(node.func.value, ast.Constant)):
                try:
                    v = const_value(node)
                except (AnalysisError, TypeError, ValueError, KeyError,
                        IndexError):
                    return node
                if isinstance(v, str):
                    return ast.copy_location(ast.Constant(value=v), node)
            return node
    return T().visit(e)


def module_constants(tree, others=()):
    """{name: value} of module-level names bound exactly once (anywhere in
    the module, including `global` rebinding) to a literal: constants,
    tuples / lists / sets of literals or plain names (classes), string
    concatenation and %-formatting of literals."""
    def literal(e):
        if isinstance(e, ast.Constant):
            return True
        if isinstance(e, ast.UnaryOp) and isinstance(e.op, ast.USub) and \
                isinstance(e.operand, ast.Constant) and \
                isinstance(e.operand.value, (int, float)):
            return True
        if isinstance(e, ast.Tuple):
            # (immutable values only: a module-level list / dict / set is
            # one shared object, writing it out at its uses would not be
            # the same program)
            return all(literal(x) or isinstance(x, (ast.Name, ast.Attribute))
                       for x in e.elts)
        if isinstance(e, ast.BinOp) and isinstance(e.op, (ast.Add, ast.Mod)):
            return literal(e.left) and literal(e.right)
        if isinstance(e, ast.JoinedStr):
            return all(isinstance(v, ast.Constant) for v in e.values)
        if isinstance(e, ast.Call) and isinstance(e.func, ast.Attribute) and \
                isinstance(e.func.value, ast.Name) and \
                e.func.value.id == 're' and e.func.attr == 'compile' and \
                e.args and all(literal(a) or isinstance(a, ast.Attribute)
                               for a in e.args) and not e.keywords:
            return True         # a compiled pattern is as good as its text
        if _memoised_pure(e) is not None:
            return True         # lru_cache(...)(re.compile): re.compile
        if _getter(e) is not None:
            return True         # itemgetter('k'): the function x -> x['k']
        if isinstance(e, ast.Call) and isinstance(e.func, ast.Name) and \
                e.func.id == 'float' and len(e.args) == 1 and \
                not e.keywords and isinstance(e.args[0], ast.Constant) and \
                e.args[0].value in ('inf', '-inf', '+inf'):
            return True
        return False

    def container(e):
        """A list / set / dict of literals: one shared object, so it is a
        constant only when the module never does anything but read it."""
        def item(x):
            return literal(x) or isinstance(x, (ast.Name, ast.Attribute))
        if isinstance(e, (ast.List, ast.Set)):
            return all(item(x) for x in e.elts)
        if isinstance(e, ast.Dict):
            return all(k is not None and literal(k) and item(v)
                       for k, v in zip(e.keys, e.values))
        return False
    count = {}
    for st in tree.body:
        if isinstance(st, (ast.FunctionDef, ast.AsyncFunctionDef,
                           ast.ClassDef)):
            count[st.name] = count.get(st.name, 0) + 1
            continue
        for x in ast.walk(st):
            if isinstance(x, ast.Name) and isinstance(x.ctx, (ast.Store,
                                                              ast.Del)):
                count[x.id] = count.get(x.id, 0) + 1
            elif isinstance(x, ast.alias):
                nm = (x.asname or x.name).split('.')[0]
                count[nm] = count.get(nm, 0) + 1
    for x in ast.walk(tree):
        if isinstance(x, (ast.Global, ast.Nonlocal)):
            for nm in x.names:
                count[nm] = count.get(nm, 0) + 2
    out = {}
    for st in tree.body:
        if isinstance(st, ast.Assign) and len(st.targets) == 1 and \
                isinstance(st.targets[0], ast.Name) and \
                count.get(st.targets[0].id) == 1 and (
                    literal(st.value) or (
                        container(st.value) and
                        _only_read(tree, st.targets[0].id, others))):
            out[st.targets[0].id] = st.value
    # a literal built from other constants (a pattern with a shared
    # character class spliced in): the same literal with those written out
    while True:
        more = False
        for st in tree.body:
            if isinstance(st, ast.Assign) and len(st.targets) == 1 and \
                    isinstance(st.targets[0], ast.Name) and \
                    st.targets[0].id not in out and \
                    count.get(st.targets[0].id) == 1 and \
                    not isinstance(st.value, (ast.Name, ast.Tuple)) and any(
                        isinstance(x, ast.Name) and x.id in out and
                        isinstance(out[x.id], (ast.Constant, ast.BinOp,
                                               ast.JoinedStr))
                        for x in ast.walk(st.value)):
                sub = _Subst({k_: v_ for k_, v_ in out.items()
                              if isinstance(v_, (ast.Constant, ast.BinOp,
                                                 ast.JoinedStr))}, {})
                val = sub.visit(copy.deepcopy(st.value))
                val = _fold_strings(val)
                if literal(val):
                    out[st.targets[0].id] = val
                    more = True
        if not more:
            break
    # a table computed from other constants ({s: i for i, s in
    # enumerate(ORDER)}): its value, when it folds and is only read
    for st in tree.body:
        if isinstance(st, ast.Assign) and len(st.targets) == 1 and \
                isinstance(st.targets[0], ast.Name) and \
                st.targets[0].id not in out and \
                count.get(st.targets[0].id) == 1 and \
                isinstance(st.value, (ast.DictComp, ast.ListComp,
                                      ast.SetComp, ast.Call)) and \
                _only_read(tree, st.targets[0].id, others):
            folded = _fold(st.value, out)
            if folded is not None:
                out[st.targets[0].id] = folded
    return out


def _fold(e, consts):
    """The literal e evaluates to (strings, numbers, None, tuples / lists /
    dicts of those), folding other constants of the module; else None."""
    from .analysis import const_value, MISSING
    from .program import AnalysisError
    if isinstance(e, ast.Call) and not (
            isinstance(e.func, ast.Name) and
            e.func.id in ('dict', 'tuple', 'list', 'frozenset', 'sorted')):
        return None

    def env(d):
        v = consts.get(d)
        return v if v is not None else MISSING
    try:
        v = const_value(e, env)
    except (AnalysisError, TypeError, ValueError, KeyError):
        return None

    def plain(x, depth=0):
        if depth > 4:
            return False
        if x is None or isinstance(x, (str, int, float, bool)):
            return True
        if isinstance(x, (tuple, list)):
            return all(plain(y, depth + 1) for y in x)
        if isinstance(x, dict):
            return all(plain(k, depth + 1) and plain(y, depth + 1)
                       for k, y in x.items())
        return False
    if not plain(v) or not v:
        return None
    try:
        return ast.parse(repr(v), mode='eval').body
    except SyntaxError:
        return None


_READ_METHODS = ('get', 'keys', 'values', 'items', 'index', 'count', 'copy')
_READ_FUNCS = ('len', 'sorted', 'list', 'tuple', 'set', 'dict', 'frozenset',
               'enumerate', 'any', 'all', 'iter', 'reversed', 'max', 'min',
               'sum')


_INDEX = {}


def _mentions(tree):
    """Names a module mentions as an imported name or as an attribute."""
    key = ('m', id(tree))
    if key not in _INDEX:
        out = set()
        for x in ast.walk(tree):
            if isinstance(x, ast.alias):
                out.add(x.name)
                if x.asname:
                    out.add(x.asname)
            elif isinstance(x, ast.Attribute):
                out.add(x.attr)
        _INDEX[key] = (tree, out)
    return _INDEX[key][1]


def _tree_index(tree):
    """(parent map, {name: [Name nodes loaded]}) of a module, computed once
    per tree object (the tree is kept alive by the cache entry)."""
    key = ('t', id(tree))
    if key not in _INDEX:
        pm, loads = {}, {}
        for x in ast.walk(tree):
            for ch in ast.iter_child_nodes(x):
                pm[ch] = x
            if isinstance(x, ast.Name) and isinstance(x.ctx, ast.Load):
                loads.setdefault(x.id, []).append(x)
        _INDEX[key] = (tree, pm, loads)
    return _INDEX[key][1], _INDEX[key][2]


def _only_read(tree, name, others=()):
    """Every use of the module-level `name` reads it (subscript, membership,
    iteration, read-only methods, pure builtins) and no other module
    mentions it."""
    for t in others:
        if name in _mentions(t):
            return False
    pm, loads = _tree_index(tree)
    for x in loads.get(name, ()):
        p = pm.get(x)
        if isinstance(p, ast.Subscript) and p.value is x and \
                isinstance(p.ctx, ast.Load):
            continue
        if isinstance(p, ast.Compare) and x in p.comparators and all(
                isinstance(o, (ast.In, ast.NotIn)) for o in p.ops):
            continue
        if isinstance(p, ast.Attribute) and p.attr in _READ_METHODS and \
                isinstance(pm.get(p), ast.Call) and pm[p].func is p:
            continue
        if isinstance(p, (ast.For, ast.comprehension)) and p.iter is x:
            continue
        if isinstance(p, ast.Call) and isinstance(p.func, ast.Name) and \
                p.func.id in _READ_FUNCS and x in p.args:
            continue
        return False
    return True


_PURE_FUNCTIONS = ('re.compile',)


def _memoised_pure(e):
    """F for `lru_cache(...)(F)`, `functools.lru_cache(...)(F)`,
    `functools.cache(F)` with F a function whose result only depends on its
    arguments and is immutable (re.compile): memoising it changes nothing."""
    if isinstance(e, ast.Call) and len(e.args) == 1 and not e.keywords and \
            isinstance(e.args[0], (ast.Name, ast.Attribute)) and \
            ast.unparse(e.args[0]) in _PURE_FUNCTIONS:
        f = e.func
        if isinstance(f, ast.Call) and ast.unparse(f.func) in (
                'lru_cache', 'functools.lru_cache'):
            return e.args[0]
        if ast.unparse(f) in ('cache', 'functools.cache', 'lru_cache',
                              'functools.lru_cache'):
            return e.args[0]
    return None


def _getter(e):
    """('item', key) for itemgetter(<constant>), ('attr', name) for
    attrgetter('<identifier>'), else None."""
    if isinstance(e, ast.Call) and len(e.args) == 1 and not e.keywords and \
            isinstance(e.args[0], ast.Constant):
        fn = e.func.attr if isinstance(e.func, ast.Attribute) and \
            isinstance(e.func.value, ast.Name) and \
            e.func.value.id == 'operator' else \
            e.func.id if isinstance(e.func, ast.Name) else None
        if fn == 'itemgetter':
            return ('item', e.args[0].value)
        if fn == 'attrgetter' and isinstance(e.args[0].value, str) and \
                e.args[0].value and all(
                    part.isidentifier()
                    for part in e.args[0].value.split('.')):
            return ('attr', e.args[0].value)
    return None


def _apply_getter(kind, key, arg):
    if kind == 'item':
        return ast.Subscript(value=arg, slice=ast.Constant(value=key),
                             ctx=ast.Load())
    for part in key.split('.'):         # attrgetter('a.b'): x.a.b
        arg = ast.Attribute(value=arg, attr=part, ctx=ast.Load())
    return arg


def class_constants(tree):
    """{(class name, attribute): value} of class-level names bound once in
    the class body to an immutable literal (constants, tuples of constants,
    string operations on them)."""
    def literal(e):
        if isinstance(e, ast.Constant):
            return True
        if isinstance(e, ast.Tuple):
            return all(literal(x) for x in e.elts)
        if isinstance(e, ast.BinOp) and isinstance(e.op, (ast.Add, ast.Mod)):
            return literal(e.left) and literal(e.right)
        return False
    def container(e):
        return (isinstance(e, (ast.List, ast.Set)) and
                all(literal(x) for x in e.elts)) or \
            (isinstance(e, ast.Dict) and all(
                k_ is not None and literal(k_) and literal(v_)
                for k_, v_ in zip(e.keys, e.values)))
    out = {}
    for k in ast.walk(tree):
        if not isinstance(k, ast.ClassDef):
            continue
        seen = {}
        for st in k.body:
            if isinstance(st, (ast.FunctionDef, ast.AsyncFunctionDef,
                               ast.ClassDef)):
                continue
            for x in ast.walk(st):
                if isinstance(x, ast.Name) and isinstance(x.ctx, ast.Store):
                    seen[x.id] = seen.get(x.id, 0) + 1
        for st in k.body:
            if isinstance(st, ast.Assign) and len(st.targets) == 1 and \
                    isinstance(st.targets[0], ast.Name) and \
                    seen.get(st.targets[0].id) == 1 and (
                        literal(st.value) or (
                            container(st.value) and
                            _attr_only_read(tree, st.targets[0].id))):
                out[(k.name, st.targets[0].id)] = st.value
    return out


def _attr_only_read(tree, attr):
    """Every `<obj>.attr` of the module reads the container (subscript,
    membership, iteration, read-only methods), directly or through a local
    that is bound to it once and only read the same way."""
    pm, _ = _tree_index(tree)

    def reading(x):
        p = pm.get(x)
        if isinstance(p, ast.Subscript) and p.value is x and \
                isinstance(p.ctx, ast.Load):
            return True
        if isinstance(p, ast.Compare) and x in p.comparators and all(
                isinstance(o, (ast.In, ast.NotIn)) for o in p.ops):
            return True
        if isinstance(p, ast.Attribute) and p.attr in _READ_METHODS and \
                isinstance(pm.get(p), ast.Call) and pm[p].func is p:
            return True
        if isinstance(p, (ast.For, ast.comprehension)) and p.iter is x:
            return True
        if isinstance(p, ast.Call) and isinstance(p.func, ast.Name) and \
                p.func.id in _READ_FUNCS and x in p.args:
            return True
        return False
    for x in ast.walk(tree):
        if not (isinstance(x, ast.Attribute) and x.attr == attr):
            continue
        if not isinstance(x.ctx, ast.Load):
            return False
        if reading(x):
            continue
        p = pm.get(x)
        if isinstance(p, ast.Assign) and p.value is x and \
                len(p.targets) == 1 and isinstance(p.targets[0], ast.Name):
            fn = p
            while fn in pm and not isinstance(fn, (ast.FunctionDef,
                                                   ast.AsyncFunctionDef)):
                fn = pm[fn]
            name = p.targets[0].id
            uses = [n for n in ast.walk(fn) if isinstance(n, ast.Name) and
                    n.id == name]
            if sum(isinstance(n.ctx, ast.Store) for n in uses) == 1 and \
                    all(reading(n) for n in uses
                        if isinstance(n.ctx, ast.Load)):
                continue
        return False
    return True


def inline_new_class_constants(trees, known):
    """A literal hoisted into a class-level constant the census does not
    know, read as self.NAME / cls.NAME / Class.NAME: written back (when no
    other class binds the name and nothing assigns the attribute)."""
    done = []
    bound_elsewhere = {}
    stored_attrs = set()
    for tree in trees.values():
        for k in ast.walk(tree):
            if isinstance(k, ast.ClassDef):
                for st in k.body:
                    for x in ast.walk(st) if not isinstance(
                            st, (ast.FunctionDef, ast.AsyncFunctionDef)) \
                            else ():
                        if isinstance(x, ast.Name) and \
                                isinstance(x.ctx, ast.Store):
                            bound_elsewhere.setdefault(x.id, set()).add(
                                k.name)
            if isinstance(k, ast.Attribute) and \
                    isinstance(k.ctx, (ast.Store, ast.Del)):
                stored_attrs.add(k.attr)
            if isinstance(k, ast.Call) and isinstance(k.func, ast.Name) and \
                    k.func.id in ('setattr', 'getattr', 'hasattr') and \
                    len(k.args) >= 2 and isinstance(k.args[1], ast.Constant):
                stored_attrs.add(k.args[1].value)
    for path, tree in trees.items():
        mod = modname_of(path)
        if not any(kk.startswith(mod + '.') for kk in known):
            continue
        consts = {key: v for key, v in class_constants(tree).items()
                  if 'const:%s.%s.%s' % (mod, key[0], key[1]) not in known
                  and not key[1].startswith('__') and
                  bound_elsewhere.get(key[1]) == {key[0]} and
                  key[1] not in stored_attrs}
        if not consts:
            continue
        used = set()
        for k in ast.walk(tree):
            if not isinstance(k, ast.ClassDef):
                continue
            mine = {a: v for (c_, a), v in consts.items() if c_ == k.name}
            if not mine:
                continue

            class T(ast.NodeTransformer):
                def visit_Attribute(self, node):
                    self.generic_visit(node)
                    if isinstance(node.ctx, ast.Load) and \
                            node.attr in mine and \
                            isinstance(node.value, ast.Name) and \
                            node.value.id in ('self', 'cls', k.name):
                        used.add((k.name, node.attr))
                        return ast.copy_location(
                            copy.deepcopy(mine[node.attr]), node)
                    return node
            for st in k.body:
                if isinstance(st, (ast.FunctionDef, ast.AsyncFunctionDef)):
                    T().visit(st)
        ast.fix_missing_locations(tree)
        for c_, a in sorted(used):
            done.append(('const:%s.%s.%s' % (mod, c_, a), 1, False))
    return done


def explicit_class_constants(trees, known):
    """`Class.NAME`, with the class written by name (what a parameter bound
    to a class leaves behind once a helper is written out): the literal the
    class itself binds NAME to, when the census does not know it and nothing
    assigns the attribute."""
    stored = set()
    for tree in trees.values():
        for k in ast.walk(tree):
            if isinstance(k, ast.Attribute) and \
                    isinstance(k.ctx, (ast.Store, ast.Del)):
                stored.add(k.attr)
            if isinstance(k, ast.Call) and isinstance(k.func, ast.Name) and \
                    k.func.id in ('setattr', 'delattr') and \
                    len(k.args) >= 2 and isinstance(k.args[1], ast.Constant):
                stored.add(k.args[1].value)
    done = []
    for path, tree in trees.items():
        mod = modname_of(path)
        consts = {key: v for key, v in class_constants(tree).items()
                  if 'const:%s.%s.%s' % (mod, key[0], key[1]) not in known
                  and not key[1].startswith('__') and key[1] not in stored}
        if not consts:
            continue
        top = {st.name for st in tree.body if isinstance(st, ast.ClassDef)}
        used = set()

        class T(ast.NodeTransformer):
            def __init__(self):
                self.shadow = [set()]

            def _scope(self, node):
                bound = {a.arg for a in ast.walk(node.args)
                         if isinstance(a, ast.arg)}
                for x in ast.walk(node):
                    if isinstance(x, ast.Name) and isinstance(
                            x.ctx, (ast.Store, ast.Del)):
                        bound.add(x.id)
                self.shadow.append(self.shadow[-1] | bound)
                self.generic_visit(node)
                self.shadow.pop()
                return node
            visit_FunctionDef = _scope
            visit_AsyncFunctionDef = _scope
            visit_Lambda = _scope

            def visit_Attribute(self, node):
                self.generic_visit(node)
                if isinstance(node.ctx, ast.Load) and \
                        isinstance(node.value, ast.Name) and \
                        node.value.id in top and \
                        node.value.id not in self.shadow[-1] and \
                        (node.value.id, node.attr) in consts:
                    used.add((node.value.id, node.attr))
                    return ast.copy_location(copy.deepcopy(
                        consts[(node.value.id, node.attr)]), node)
                return node
        T().visit(tree)
        if used:
            ast.fix_missing_locations(tree)
        for c_, a in sorted(used):
            done.append(('const:%s.%s.%s' % (mod, c_, a), 1, False))
    return done


def census_constants(trees):
    out = set()
    for path, tree in trees.items():
        mod = modname_of(path)
        for (c_, a) in class_constants(tree):
            out.add('const:%s.%s.%s' % (mod, c_, a))
        others = [t for p_, t in trees.items() if p_ != path]
        for name in module_constants(tree, others):
            out.add('const:%s.%s' % (mod, name))
    return out


def inline_new_constants(trees, known):
    """A literal moved to a module-level constant that the reference census
    does not know is written back where it is used (same module only)."""
    done = []
    for path, tree in trees.items():
        mod = modname_of(path)
        if not any(k.startswith(mod + '.') for k in known):
            continue
        others = [t for p_, t in trees.items() if p_ != path]
        consts = {n: v for n, v in module_constants(tree, others).items()
                  if 'const:%s.%s' % (mod, n) not in known and
                  not n.startswith('__')}
        if not consts:
            continue

        class T(ast.NodeTransformer):
            def __init__(self):
                self.shadow = [set()]

            def _scope(self, node):
                bound = {a.arg for a in ast.walk(node.args)
                         if isinstance(a, ast.arg)}
                for x in ast.walk(node):
                    if isinstance(x, ast.Name) and isinstance(
                            x.ctx, (ast.Store, ast.Del)):
                        bound.add(x.id)
                self.shadow.append(self.shadow[-1] | bound)
                self.generic_visit(node)
                self.shadow.pop()
                return node

            visit_FunctionDef = _scope
            visit_AsyncFunctionDef = _scope
            visit_Lambda = _scope

            def visit_Call(self, node):
                f_ = node.func
                if isinstance(f_, ast.Name) and f_.id in consts and \
                        f_.id not in self.shadow[-1] and \
                        _getter(consts[f_.id]) is not None and \
                        len(node.args) == 1 and not node.keywords and \
                        not isinstance(node.args[0], ast.Starred):
                    used.add(f_.id)
                    arg = self.visit(node.args[0])
                    return ast.copy_location(_apply_getter(
                        *_getter(consts[f_.id]), arg), node)
                return self.generic_visit(node)

            def visit_Name(self, node):
                if isinstance(node.ctx, ast.Load) and node.id in consts \
                        and node.id not in self.shadow[-1]:
                    used.add(node.id)
                    g = _getter(consts[node.id])
                    if g is not None:
                        # as a value: the function itself, written out
                        return ast.copy_location(ast.Lambda(
                            args=ast.arguments(
                                posonlyargs=[], args=[ast.arg(arg='elem')],
                                kwonlyargs=[], kw_defaults=[], defaults=[]),
                            body=_apply_getter(*g, ast.Name(
                                id='elem', ctx=ast.Load()))), node)
                    return ast.copy_location(copy.deepcopy(consts[node.id]),
                                             node)
                return node
        used = set()
        T().visit(tree)
        # a definition nothing reads any more goes away (so that the
        # functions it names are no longer "used as values")
        still = {x.id for x in ast.walk(tree) if isinstance(x, ast.Name) and
                 isinstance(x.ctx, ast.Load)}
        exported = set()
        for st in tree.body:
            if isinstance(st, ast.Assign) and any(
                    isinstance(t, ast.Name) and t.id == '__all__'
                    for t in st.targets):
                exported |= {c.value for c in ast.walk(st.value)
                             if isinstance(c, ast.Constant)}
        tree.body = [st for st in tree.body if not (
            isinstance(st, ast.Assign) and len(st.targets) == 1 and
            isinstance(st.targets[0], ast.Name) and
            st.targets[0].id in used and st.targets[0].id not in still and
            st.targets[0].id not in exported and
            st.targets[0].id.startswith('_'))]
        ast.fix_missing_locations(tree)
        for n in sorted(used):
            done.append(('const:%s.%s' % (mod, n), 1, False))
    return done


def is_replace_if_present(e):
    """`x.replace(p, c) if p else x`: one value, with p blanked when there
    is a p (the masking idiom); stays an expression."""
    def encoded(x):
        # p / p.encode(), '***' / '***'.encode()  (str and bytes variants)
        if isinstance(x, ast.Call) and isinstance(x.func, ast.Attribute) \
                and x.func.attr == 'encode' and not x.args and \
                not x.keywords:
            return x.func.value
        return x
    return isinstance(e, ast.IfExp) and isinstance(e.test, ast.Name) and \
        isinstance(e.body, ast.Call) and \
        isinstance(e.body.func, ast.Attribute) and \
        e.body.func.attr == 'replace' and len(e.body.args) == 2 and \
        isinstance(encoded(e.body.args[0]), ast.Name) and \
        encoded(e.body.args[0]).id == e.test.id and \
        isinstance(encoded(e.body.args[1]), ast.Constant) and \
        ast.dump(e.body.func.value) == ast.dump(e.orelse)


class _Thread(ast.NodeTransformer):
    """    if c: r = False                     if c: B
           else: (stmts; r = E)        ->      else: (stmts; if E: A else: B)
           if r: A  else: B
    when r is a local stored only at the ends of the first statement and
    read only by the second: the decision is threaded to where it is made
    (what a helper inlined as statements leaves behind)."""
    LIMIT = 250

    def __init__(self):
        self.count = 0
        self.uses = [{}]

    def _scope(self, node):
        loads, stores = {}, {}
        for x in ast.walk(node):
            if isinstance(x, ast.Name):
                d = loads if isinstance(x.ctx, ast.Load) else stores
                d[x.id] = d.get(x.id, 0) + 1
            elif isinstance(x, (ast.Global, ast.Nonlocal)):
                for nm in x.names:
                    loads[nm] = loads.get(nm, 0) + 9
        for a in ast.walk(node.args):
            if isinstance(a, ast.arg):
                stores[a.arg] = stores.get(a.arg, 0) + 9
        self.uses.append((loads, stores))
        self.generic_visit(node)
        self.uses.pop()
        return node

    visit_FunctionDef = _scope
    visit_AsyncFunctionDef = _scope

    def generic_visit(self, node):
        super().generic_visit(node)
        if len(self.uses) > 1:
            for name in _BLOCKS:
                lst = getattr(node, name, None)
                if isinstance(lst, list) and lst and \
                        isinstance(lst[0], ast.stmt):
                    setattr(node, name, self._block(lst))
            for h in getattr(node, 'handlers', []) or []:
                h.body = self._block(h.body)
        return node

    def _leaves(self, st, r):
        """The `r = X` statements that end every path of st, or None."""
        if isinstance(st, ast.Assign) and len(st.targets) == 1 and \
                isinstance(st.targets[0], ast.Name) and \
                st.targets[0].id == r:
            return [st]
        if isinstance(st, ast.If) and st.body and st.orelse:
            a = self._leaves(st.body[-1], r)
            b = self._leaves(st.orelse[-1], r)
            if a is not None and b is not None:
                return a + b
        return None

    def _block(self, stmts):
        out = list(stmts)
        i = 0
        while i + 1 < len(out):
            first, second = out[i], out[i + 1]
            i += 1
            if isinstance(second, ast.Raise) and isinstance(first, ast.If):
                if self._sink(out, i, first, second):
                    i = max(i - 1, 0)
                continue
            if not isinstance(second, ast.If):
                continue
            split = self._split_lead(first, second)
            if split is not None:
                out[i] = second = split
            t, neg = second.test, False
            if isinstance(t, ast.UnaryOp) and isinstance(t.op, ast.Not):
                t, neg = t.operand, True
            if isinstance(t, ast.Compare) and len(t.ops) == 1 and \
                    isinstance(t.ops[0], (ast.Is, ast.IsNot)) and \
                    isinstance(t.left, ast.Name) and \
                    isinstance(t.comparators[0], ast.Constant) and \
                    t.comparators[0].value is None:
                done = self._thread_none(out, i, first, second, t, neg)
                if done:
                    i = max(i - 1, 0)
                continue
            if not isinstance(t, ast.Name):
                continue
            r = t.id
            loads, stores = self.uses[-1]
            leaves = self._leaves(first, r)
            if leaves is None or loads.get(r) != 1 or \
                    stores.get(r) != len(leaves) or len(leaves) > 4:
                continue
            if any(isinstance(n, ast.Name) and n.id == r
                   for lf in leaves for n in ast.walk(lf.value)):
                continue
            size = sum(1 for b in second.body + second.orelse
                       for _ in ast.walk(b))
            if size * len(leaves) > self.LIMIT and len(leaves) > 1:
                continue
            yes, no = (second.orelse, second.body) if neg else \
                (second.body, second.orelse)
            repl = {}
            for lf in leaves:
                v = lf.value
                if isinstance(v, ast.Constant):
                    new = copy.deepcopy(yes if v.value else no)
                    if not new:
                        new = [ast.copy_location(ast.Pass(), lf)]
                else:
                    body, orelse = copy.deepcopy(yes), copy.deepcopy(no)
                    test = v
                    if not body:
                        body, orelse = orelse, []
                        test = ast.UnaryOp(op=ast.Not(), operand=v)
                    new = [ast.copy_location(ast.If(
                        test=test, body=body, orelse=orelse), second)]
                repl[id(lf)] = new
            out[i - 1] = self._replace(first, repl)
            flat = out[i - 1] if isinstance(out[i - 1], list) \
                else [out[i - 1]]
            out[i - 1:i + 1] = flat
            self.count += 1
            i = max(i - 1, 0)
        return out

    def _split_lead(self, first, second):
        """`if r or X: A else: B` (r / not r the variable the previous
        statement ends on) is `if r: A else: (if X: A else: B)`; dually for
        `and`: the lead test can then be threaded."""
        t = second.test
        if not (isinstance(t, ast.BoolOp) and len(t.values) >= 2):
            return None
        lead = t.values[0]
        name = lead.operand if isinstance(lead, ast.UnaryOp) and \
            isinstance(lead.op, ast.Not) else lead
        if not isinstance(name, ast.Name) or \
                self._leaves(first, name.id) is None:
            return None
        loads, _ = self.uses[-1]
        if loads.get(name.id) != 1:
            return None
        rest = t.values[1] if len(t.values) == 2 else ast.BoolOp(
            op=t.op, values=t.values[1:])
        size = sum(1 for b in second.body + second.orelse
                   for _ in ast.walk(b))
        if size > 120:
            return None
        if isinstance(t.op, ast.Or):
            inner = ast.copy_location(ast.If(
                test=rest, body=copy.deepcopy(second.body),
                orelse=copy.deepcopy(second.orelse)), second)
            return ast.copy_location(ast.If(
                test=lead, body=second.body, orelse=[inner]), second)
        inner = ast.copy_location(ast.If(
            test=rest, body=second.body,
            orelse=copy.deepcopy(second.orelse)), second)
        return ast.copy_location(ast.If(
            test=lead, body=[inner], orelse=second.orelse), second)

    def _never_none(self, fname, depth):
        """The module-level function fname always returns something that is
        not None: every path ends with `return <tuple / string / number /
        call of such a function>`."""
        defs = getattr(self, 'module_defs', {})
        fn = defs.get(fname)
        if fn is None or depth > 3:
            return False
        if not _ends_abrupt(fn.body):
            return False
        for r in ast.walk(fn):
            if isinstance(r, ast.Return):
                v = r.value
                if isinstance(v, (ast.Tuple, ast.JoinedStr, ast.List,
                                  ast.Dict)):
                    continue
                if isinstance(v, ast.Constant) and v.value is not None:
                    continue
                if isinstance(v, ast.Call) and \
                        isinstance(v.func, ast.Name) and \
                        self._never_none(v.func.id, depth + 1):
                    continue
                return False
        return True

    def _sink(self, out, i, first, second):
        """    if c: r = X                 if c: raise X from e
               else: r = Y          ->     else: raise Y from e
               raise r from e
        (likewise `return r`): r is bound at the ends of the first statement
        only and read by the second one only."""
        names = [n for n in ast.walk(second) if isinstance(n, ast.Name) and
                 isinstance(n.ctx, ast.Load)]
        loads, stores = self.uses[-1]
        for cand in {n.id for n in names}:
            leaves = self._leaves(first, cand)
            if leaves is None or len(leaves) > 4 or \
                    loads.get(cand) != 1 or stores.get(cand) != len(leaves):
                continue
            if any(isinstance(n, ast.Name) and n.id == cand
                   for lf in leaves for n in ast.walk(lf.value)):
                continue
            repl = {id(lf): [_Subst({cand: lf.value}, {}).visit(
                copy.deepcopy(second))] for lf in leaves}
            out[i - 1] = self._replace(first, repl)
            flat = out[i - 1] if isinstance(out[i - 1], list) \
                else [out[i - 1]]
            out[i - 1:i + 1] = flat
            self.count += 1
            return True
        return False

    def _thread_none(self, out, i, first, second, t, neg):
        """    if c: r = Error(a)                if c: use(Error(a))
               else: r = None             ->
               if r is not None: use(r)
        Every end of the first statement binds r to None or to a newly
        built object (a call of a CapWords name: never None); r is read
        once more at most, inside the branch taken when it is not None."""
        r = t.left.id
        loads, stores = self.uses[-1]
        leaves = self._leaves(first, r)
        plain = leaves is not None and all(
            isinstance(lf.value, ast.Name) or (
                isinstance(lf.value, ast.Constant) and
                lf.value.value is None) for lf in leaves)
        if leaves is None or stores.get(r) != len(leaves) or \
                len(leaves) > 4 or (loads.get(r, 0) > 2 and not plain):
            return False
        some = isinstance(t.ops[0], ast.IsNot) != neg
        yes, no = (second.body, second.orelse) if some else \
            (second.orelse, second.body)
        uses = [n for b in yes for n in ast.walk(b)
                if isinstance(n, ast.Name) and n.id == r]
        if len(uses) != loads.get(r, 0) - 1 or any(
                isinstance(n, ast.Name) and n.id == r
                for b in no for n in ast.walk(b)):
            return False

        def asserted(v):
            """v is a name the arm it stands in has just tested truthy:
            `if v and ...: r = v`."""
            if not (isinstance(v, ast.Name) and isinstance(first, ast.If)):
                return False
            conj = first.test.values if isinstance(
                first.test, ast.BoolOp) and isinstance(
                first.test.op, ast.And) else [first.test]
            for c_ in conj:
                if isinstance(c_, ast.Call) and \
                        isinstance(c_.func, ast.Name) and \
                        c_.func.id == 'bool' and len(c_.args) == 1:
                    c_ = c_.args[0]
                if isinstance(c_, ast.Name) and c_.id == v.id:
                    return any(lf.value is v for lf in leaves
                               if any(lf is x for b in first.body
                                      for x in ast.walk(b)))
                if isinstance(c_, ast.Compare) and len(c_.ops) == 1 and \
                        isinstance(c_.ops[0], ast.IsNot) and \
                        isinstance(c_.left, ast.Name) and \
                        c_.left.id == v.id and \
                        isinstance(c_.comparators[0], ast.Constant) and \
                        c_.comparators[0].value is None:
                    return any(lf.value is v for lf in leaves
                               if any(lf is x for b in first.body
                                      for x in ast.walk(b)))
            return False

        def built(v):
            if asserted(v):
                return True
            if not isinstance(v, ast.Call):
                return False
            fn = v.func
            name = fn.attr if isinstance(fn, ast.Attribute) else \
                getattr(fn, 'id', '')
            if name[:1].isupper() and not name.isupper():
                return True
            return isinstance(fn, ast.Name) and \
                self._never_none(fn.id, 0)
        repl = {}
        for lf in leaves:
            v = lf.value
            if isinstance(v, ast.Constant) and v.value is None:
                new = copy.deepcopy(no) or [ast.copy_location(ast.Pass(),
                                                              lf)]
            elif built(v):
                new = [_Subst({r: v}, {}).visit(b)
                       for b in copy.deepcopy(yes)] or \
                    [ast.copy_location(ast.Expr(value=v), lf)]
            else:
                return False
            repl[id(lf)] = new
        out[i - 1] = self._replace(first, repl)
        flat = out[i - 1] if isinstance(out[i - 1], list) else [out[i - 1]]
        out[i - 1:i + 1] = flat
        self.count += 1
        return True

    def _replace(self, st, repl):
        if id(st) in repl:
            return repl[id(st)]
        for name in ('body', 'orelse'):
            blk = getattr(st, name)
            last = self._replace(blk[-1], repl)
            blk[-1:] = last if isinstance(last, list) else [last]
        return st


class _TableLookup(ast.NodeTransformer):
    """class K:  TABLE = {2: 'a/%s', 3: 'b/%s'}
           ... name = self.TABLE[key] % args        (or without `% args`)
       ->  if key == 2: name = 'a/%s' % args
           elif key == 3: name = 'b/%s' % args
           else: raise KeyError(key)
    for a class-level dict of constants that is bound once, only ever read
    as `self.TABLE[...]`, defined by no other class, with at most 6 keys and
    a key expression that can be written out several times."""
    def __init__(self, tree):
        self.count = 0
        self.tree = tree
        self.tables = []

    def visit_ClassDef(self, node):
        tables = {}
        seen = {}
        for st in node.body:
            for x in ast.walk(st) if not isinstance(
                    st, (ast.FunctionDef, ast.AsyncFunctionDef)) else ():
                if isinstance(x, ast.Name) and isinstance(x.ctx, ast.Store):
                    seen[x.id] = seen.get(x.id, 0) + 1
        for st in node.body:
            if isinstance(st, ast.Assign) and len(st.targets) == 1 and \
                    isinstance(st.targets[0], ast.Name) and \
                    seen.get(st.targets[0].id) == 1 and \
                    isinstance(st.value, ast.Dict) and \
                    1 <= len(st.value.keys) <= 6 and all(
                        isinstance(k, ast.Constant) and
                        isinstance(v, ast.Constant)
                        for k, v in zip(st.value.keys, st.value.values)) \
                    and self._read_only(node, st.targets[0].id):
                tables[st.targets[0].id] = st.value
        self.tables.append(tables)
        self.generic_visit(node)
        self.tables.pop()
        return node

    def _read_only(self, owner, name):
        pm = {}
        for x in ast.walk(self.tree):
            for ch in ast.iter_child_nodes(x):
                pm[ch] = x
        inside = {id(x) for x in ast.walk(owner)}
        for x in ast.walk(self.tree):
            if isinstance(x, ast.ClassDef) and x is not owner and any(
                    isinstance(t, ast.Name) and t.id == name
                    for st in x.body if isinstance(st, ast.Assign)
                    for t in st.targets):
                return False
            if isinstance(x, ast.Constant) and x.value == name:
                return False
            if isinstance(x, ast.Attribute) and x.attr == name:
                p = pm.get(x)
                if not (id(x) in inside and isinstance(x.value, ast.Name) and
                        x.value.id == 'self' and
                        isinstance(x.ctx, ast.Load) and
                        isinstance(p, ast.Subscript) and p.value is x and
                        isinstance(p.ctx, ast.Load)):
                    return False
            if isinstance(x, ast.Name) and x.id == name and \
                    isinstance(x.ctx, ast.Load) and id(x) in inside:
                return False
        return True

    def _lookup(self, e):
        """(table dict, key expr) when e is self.TABLE[key]."""
        if isinstance(e, ast.Subscript) and \
                isinstance(e.value, ast.Attribute) and \
                isinstance(e.value.value, ast.Name) and \
                e.value.value.id == 'self' and self.tables and \
                e.value.attr in self.tables[-1] and \
                not isinstance(e.slice, ast.Slice) and \
                _dup_safe_arg(e.slice):
            return self.tables[-1][e.value.attr], e.slice
        # the table written in place (a class constant already written back)
        if isinstance(e, ast.Subscript) and isinstance(e.value, ast.Dict) \
                and 1 <= len(e.value.keys) <= 6 and all(
                    isinstance(k, ast.Constant) and
                    isinstance(v, ast.Constant)
                    for k, v in zip(e.value.keys, e.value.values)) and \
                not isinstance(e.slice, ast.Slice) and \
                _dup_safe_arg(e.slice):
            return e.value, e.slice
        return None

    def visit_Assign(self, node):
        if not (len(node.targets) == 1 and
                isinstance(node.targets[0], ast.Name)):
            return node
        v = node.value
        hit = self._lookup(v)
        rest = None
        if hit is None and isinstance(v, ast.BinOp) and \
                isinstance(v.op, ast.Mod):
            hit, rest = self._lookup(v.left), v.right
        if hit is None:
            return node
        table, key = hit
        chain = [ast.copy_location(ast.Raise(exc=ast.Call(
            func=ast.Name(id='KeyError', ctx=ast.Load()),
            args=[copy.deepcopy(key)], keywords=[]), cause=None), node)]
        for k, val in reversed(list(zip(table.keys, table.values))):
            value = copy.deepcopy(val) if rest is None else ast.BinOp(
                left=copy.deepcopy(val), op=ast.Mod(),
                right=copy.deepcopy(rest))
            body = [ast.copy_location(ast.Assign(
                targets=[ast.Name(id=node.targets[0].id, ctx=ast.Store())],
                value=value, lineno=node.lineno), node)]
            test = ast.Compare(left=copy.deepcopy(key), ops=[ast.Eq()],
                               comparators=[copy.deepcopy(k)])
            chain = [ast.copy_location(ast.If(test=test, body=body,
                                              orelse=chain), node)]
        self.count += 1
        return chain


def thread_decisions(trees):
    n = 0
    for t in trees.values():
        th = _Thread()
        th.module_defs = {st.name: st for st in t.body
                          if isinstance(st, ast.FunctionDef)}
        th.visit(t)
        if th.count:
            ast.fix_missing_locations(t)
        n += th.count
    return n


def _split_selector_calls(trees, known):
    """`select(job)(a, b)` as a statement, `select` a helper the census does
    not know: `fn = select(job); fn(a, b)` - the helper is then inlined as
    any other and the call through the local written out per branch."""
    n = 0
    for path, tree in trees.items():
        mod = modname_of(path)
        if not any(k.startswith(mod + '.') for k in known):
            continue
        helpers = {st.name for st in tree.body
                   if isinstance(st, ast.FunctionDef) and
                   '%s.%s' % (mod, st.name) not in known}
        if not helpers:
            continue
        for node in ast.walk(tree):
            for name in _BLOCKS:
                lst = getattr(node, name, None)
                if not (isinstance(lst, list) and lst and
                        isinstance(lst[0], ast.stmt)):
                    continue
                out = []
                for st in lst:
                    v = st.value if isinstance(st, ast.Expr) else None
                    if isinstance(v, ast.Call) and \
                            isinstance(v.func, ast.Call) and \
                            isinstance(v.func.func, ast.Name) and \
                            v.func.func.id in helpers:
                        tmp = '%s_selected' % v.func.func.id.strip('_')
                        out.append(ast.copy_location(ast.Assign(
                            targets=[ast.Name(id=tmp, ctx=ast.Store())],
                            value=v.func, lineno=st.lineno), st))
                        v.func = ast.copy_location(
                            ast.Name(id=tmp, ctx=ast.Load()), v.func)
                        n += 1
                    out.append(st)
                setattr(node, name, out)
        ast.fix_missing_locations(tree)
    return n


def _with_contextmanagers(trees, known):
    """@contextmanager
       def translating(exc_class, *args):
           try:
               yield
           except CommandError as err:
               raise exc_class(*args) from err
       ...
       with translating(PushFailed, name):  BODY
    ->
       try:  BODY
       except CommandError as err:  raise PushFailed(name) from err
    for a module-level generator context manager the census does not know,
    with one bare `yield` statement (in its body or in the body of a `try`
    of its body), used only as the single item of `with` statements of its
    own module, with plain arguments."""
    n = 0
    for path, tree in trees.items():
        if '/_verif_' in path:
            continue
        mod = modname_of(path)
        for fn in [st for st in tree.body
                   if isinstance(st, ast.FunctionDef)]:
            if '%s.%s' % (mod, fn.name) in known or \
                    len(fn.decorator_list) != 1 or \
                    ast.unparse(fn.decorator_list[0]) not in (
                        'contextmanager', 'contextlib.contextmanager'):
                continue
            yields = [x for x in ast.walk(fn)
                      if isinstance(x, (ast.Yield, ast.YieldFrom))]
            if len(yields) != 1 or not isinstance(yields[0], ast.Yield) or \
                    yields[0].value is not None or any(
                        isinstance(x, (ast.Return, ast.Global, ast.Nonlocal,
                                       ast.FunctionDef, ast.Lambda))
                        for x in ast.walk(fn) if x is not fn):
                continue
            body = _body_wo_doc(fn)

            def is_yield(st):
                return isinstance(st, ast.Expr) and st.value is yields[0]
            where = None
            for i, st in enumerate(body):
                if is_yield(st):
                    where = ('top', i)
                elif isinstance(st, ast.Try):
                    for j, s2 in enumerate(st.body):
                        if is_yield(s2):
                            where = ('try', i, j)
            if where is None:
                continue
            a = fn.args
            if a.kwarg or a.posonlyargs:
                continue
            # every use of the name, in every module
            ok = True
            sites = []
            for p2, t2 in trees.items():
                for x in ast.walk(t2):
                    if isinstance(x, ast.alias) and fn.name in (x.name,
                                                                x.asname):
                        ok = False
                    if isinstance(x, ast.Attribute) and x.attr == fn.name:
                        ok = False
            uses = {id(x) for x in ast.walk(tree) if isinstance(x, ast.Name)
                    and x.id == fn.name}
            for w in ast.walk(tree):
                if isinstance(w, ast.With) and len(w.items) == 1 and \
                        w.items[0].optional_vars is None and \
                        isinstance(w.items[0].context_expr, ast.Call) and \
                        isinstance(w.items[0].context_expr.func, ast.Name) \
                        and w.items[0].context_expr.func.id == fn.name:
                    sites.append(w)
                    uses.discard(id(w.items[0].context_expr.func))
            if not ok or uses or not sites:
                continue
            params = [x.arg for x in a.args]
            defaults = dict(zip(reversed(params), reversed(a.defaults)))
            for k_, d_ in zip(a.kwonlyargs, a.kw_defaults):
                if d_ is not None:
                    defaults[k_.arg] = d_
            names = params + [x.arg for x in a.kwonlyargs]
            own = {x.id for x in ast.walk(fn) if isinstance(x, ast.Name)
                   and isinstance(x.ctx, (ast.Store, ast.Del))} | {
                h.name for h in ast.walk(fn)
                if isinstance(h, ast.ExceptHandler) and h.name}
            plans = []
            for w in sites:
                call = w.items[0].context_expr
                if any(isinstance(x, ast.Starred) for x in call.args) or \
                        any(k_.arg is None for k_ in call.keywords):
                    plans = None
                    break
                env = {}
                extra = []
                for i, v in enumerate(call.args):
                    if i < len(params):
                        env[params[i]] = v
                    else:
                        extra.append(v)
                if extra and not a.vararg:
                    plans = None
                    break
                for k_ in call.keywords:
                    if k_.arg not in names or k_.arg in env:
                        plans = None
                        break
                    env[k_.arg] = k_.value
                if plans is None:
                    break
                for nm in names:
                    if nm not in env:
                        if nm not in defaults:
                            plans = None
                            break
                        env[nm] = defaults[nm]
                if plans is None:
                    break
                if a.vararg:
                    env[a.vararg.arg] = ast.Tuple(elts=extra, ctx=ast.Load())
                inner = {x.id for b in w.body for x in ast.walk(b)
                         if isinstance(x, ast.Name)}
                if not all(_dup_safe_arg(v) or isinstance(v, ast.Tuple)
                           for v in env.values()) or own & inner or \
                        own & set(env):
                    plans = None
                    break
                plans.append((w, env))
            if not plans:
                continue
            for w, env in plans:
                new = [_Subst(env, {}).visit(copy.deepcopy(st))
                       for st in body]
                new = [_SplatFold().visit(st)
                       for st in _fold_constant_tests(new)]
                # find the yield again in the copy
                done = [False]

                def put(stmts):
                    out = []
                    for st in stmts:
                        if isinstance(st, ast.Expr) and \
                                isinstance(st.value, ast.Yield):
                            out.extend(w.body)
                            done[0] = True
                        else:
                            if isinstance(st, ast.Try):
                                st.body = put(st.body)
                            out.append(st)
                    return out
                new = put(new)
                if not done[0]:
                    continue
                for x in new:
                    ast.copy_location(x, w)
                _replace_stmt(tree, w, new)
            tree.body = [st for st in tree.body if st is not fn]
            ast.fix_missing_locations(tree)
            n += 1
    return n


def _replace_stmt(tree, old, new):
    for blk in ast.walk(tree):
        for name in _BLOCKS:
            lst = getattr(blk, name, None)
            if isinstance(lst, list) and old in lst:
                i = lst.index(old)
                lst[i:i + 1] = new
                return True
        for h in getattr(blk, 'handlers', []) or []:
            if old in h.body:
                i = h.body.index(old)
                h.body[i:i + 1] = new
                return True
    return False


def _function_factories(trees, known):
    """def make(p, q=False):              x = make(a, q=True)
           def inner(d): ... p ... q  ->  becomes a local function
           return inner                       def x(d): ... a ... True
    for a module-level factory the census does not know whose body is one
    nested def and the return of it, called only as `<local> = make(...)`
    in its own module.  An argument that is not a plain path is bound to a
    local first (it is evaluated once, where the factory was called)."""
    n = 0
    for path, tree in trees.items():
        if '/_verif_' in path:
            continue
        mod = modname_of(path)
        for fn in [st for st in tree.body if isinstance(st, ast.FunctionDef)]:
            if '%s.%s' % (mod, fn.name) in known or fn.decorator_list:
                continue
            body = _body_wo_doc(fn)
            if len(body) != 2 or not isinstance(body[0], ast.FunctionDef) or \
                    not isinstance(body[1], ast.Return) or \
                    not isinstance(body[1].value, ast.Name) or \
                    body[1].value.id != body[0].name or \
                    body[0].decorator_list:
                continue
            inner = body[0]
            a = fn.args
            if a.vararg or a.kwarg or a.posonlyargs or a.kwonlyargs:
                continue
            params = [x.arg for x in a.args]
            defaults = dict(zip(reversed(params), reversed(a.defaults)))
            if any(isinstance(x, ast.Name) and x.id in params and
                   isinstance(x.ctx, (ast.Store, ast.Del))
                   for x in ast.walk(inner)) or any(
                    isinstance(x, (ast.Global, ast.Nonlocal))
                    for x in ast.walk(inner)):
                continue
            # uses: only `<name> = factory(...)` statements of this module
            ok = True
            for t2 in trees.values():
                for x in ast.walk(t2):
                    if isinstance(x, ast.alias) and fn.name in (x.name,
                                                                x.asname):
                        ok = False
                    if isinstance(x, ast.Attribute) and x.attr == fn.name:
                        ok = False
            uses = {id(x) for x in ast.walk(tree) if isinstance(x, ast.Name)
                    and x.id == fn.name}
            sites = []
            for st in ast.walk(tree):
                if isinstance(st, ast.Assign) and len(st.targets) == 1 and \
                        isinstance(st.targets[0], ast.Name) and \
                        isinstance(st.value, ast.Call) and \
                        isinstance(st.value.func, ast.Name) and \
                        st.value.func.id == fn.name:
                    sites.append(st)
                    uses.discard(id(st.value.func))
            if not ok or uses or not sites:
                continue
            plans = []
            for st in sites:
                call = st.value
                if any(isinstance(x, ast.Starred) for x in call.args) or \
                        any(k.arg is None for k in call.keywords) or \
                        len(call.args) > len(params):
                    plans = None
                    break
                env = dict(zip(params, call.args))
                for k in call.keywords:
                    if k.arg not in params or k.arg in env:
                        plans = None
                        break
                    env[k.arg] = k.value
                if plans is None:
                    break
                for p_ in params:
                    if p_ not in env:
                        if p_ not in defaults:
                            plans = None
                            break
                        env[p_] = defaults[p_]
                if plans is None:
                    break
                plans.append((st, env))
            if not plans:
                continue
            for st, env in plans:
                name = st.targets[0].id
                pre = []
                sub = {}
                for p_, v in env.items():
                    if isinstance(v, ast.Constant) or _stable_path(v):
                        sub[p_] = v
                    else:
                        tmp = '%s_%s' % (p_, name)
                        pre.append(ast.copy_location(ast.Assign(
                            targets=[ast.Name(id=tmp, ctx=ast.Store())],
                            value=v, lineno=st.lineno), st))
                        sub[p_] = ast.Name(id=tmp, ctx=ast.Load())
                new = copy.deepcopy(inner)
                new.name = name
                new.body = [_Subst(sub, {}).visit(b) for b in new.body]
                new.body = _fold_constant_tests(new.body) or \
                    [_pass(st)]
                ast.copy_location(new, st)
                _replace_stmt(tree, st, pre + [new])
            tree.body = [x for x in tree.body if x is not fn]
            ast.fix_missing_locations(tree)
            n += 1
    return n


def _properties_as_methods(trees, known):
    """A read-only property the census does not know, only ever read as
    `self.<name>`: the same program with a plain method and `self.<name>()`,
    which the inliner then writes out like any helper."""
    n = 0
    for path, tree in trees.items():
        if '/_verif_' in path:
            continue
        mod = modname_of(path)
        for kind, owner, node in list(_defs(tree)):
            if owner is None or len(node.decorator_list) != 1 or \
                    not isinstance(node.decorator_list[0], ast.Name) or \
                    node.decorator_list[0].id != 'property' or \
                    '%s.%s.%s' % (mod, owner.name, node.name) in known or \
                    len(node.args.args) != 1 or node.args.vararg or \
                    node.args.kwarg or node.args.kwonlyargs or \
                    node.args.args[0].arg != 'self':
                continue
            name = node.name
            uses = []
            ok = True
            for t in trees.values():
                callfuncs = {id(x.func) for x in ast.walk(t)
                             if isinstance(x, ast.Call)}
                for x in ast.walk(t):
                    if isinstance(x, ast.Attribute) and x.attr == name:
                        if isinstance(x.ctx, ast.Load) and \
                                isinstance(x.value, ast.Name) and \
                                x.value.id == 'self' and \
                                id(x) not in callfuncs:
                            uses.append((t, x))
                        else:
                            ok = False
                    elif isinstance(x, ast.Attribute) and isinstance(
                            x.value, ast.Name) and x.value.id == name and \
                            x.attr in ('setter', 'deleter', 'getter'):
                        ok = False
                    elif isinstance(x, ast.Constant) and x.value == name:
                        ok = False
                    elif isinstance(x, ast.ClassDef) and x is not owner and \
                            any(isinstance(b, (ast.FunctionDef, ast.Assign))
                                and (getattr(b, 'name', None) == name or any(
                                    isinstance(tg, ast.Name) and
                                    tg.id == name for tg in
                                    getattr(b, 'targets', [])))
                                for b in x.body):
                        ok = False
            if not ok or not uses:
                continue
            node.decorator_list = []
            for t, x in uses:
                _Replace(x, ast.copy_location(ast.Call(
                    func=x, args=[], keywords=[]), x)).visit(t)
                ast.fix_missing_locations(t)
            n += 1
    return n


def normalise(trees, known=None):
    """Inline the helpers that are not in the census; mutates `trees`
    ({path: ast.Module}); returns the log [(qname, sites, removed)]."""
    if known is None:
        known = baseline()
    _INDEX.clear()
    clog = inline_new_constants(trees, known)
    clog += inline_new_class_constants(trees, known)
    n = desugar(trees)
    n += _split_selector_calls(trees, known)
    _properties_as_methods(trees, known)
    n += _with_contextmanagers(trees, known)
    n += _function_factories(trees, known)
    ilog = Inliner(trees, known).run()
    if ilog:
        # constants whose value was built by a helper that is now written
        # out (a pattern assembled by a small function)
        _INDEX.clear()
        for t in trees.values():
            for st in t.body:
                if isinstance(st, ast.Assign):
                    st.value = _fold_strings(st.value)
                elif isinstance(st, ast.ClassDef):
                    for s2 in st.body:
                        if isinstance(s2, ast.Assign):
                            s2.value = _fold_strings(s2.value)
        ilog += inline_new_constants(trees, known)
    ilog += explicit_class_constants(trees, known)
    log = clog + ilog
    n += thread_decisions(trees)
    if ilog or clog:
        # what the written-out helpers and constants left behind is brought
        # to the same spellings (nothing to do on a tree where nothing was
        # written out)
        n += desugar(trees)
        n += thread_decisions(trees)
    for t in trees.values():
        tl = _TableLookup(t)
        tl.visit(t)
        if tl.count:
            ast.fix_missing_locations(t)
        n += tl.count
    if n:
        log.append(('<return any/all as loop, calls through a local>', n, False))
    return log
