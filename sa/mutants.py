"""Seed edits for the checker self-validation (DESIGN.md section 8).

MUTANTS: one-site edits that break a property while still compiling; the
property's check must report a violation.  EQUIVALENTS: behaviour-preserving
edits on which the listed checks must stay silent.  Edits are textual with
an exact-occurrence count, applied to the in-memory source map; an edit
whose anchor text has disappeared is reported as inapplicable, not as a
miss."""

GWF = 'bert_e/workflow/gitwaterflow/__init__.py'
INTEG = 'bert_e/workflow/gitwaterflow/integration.py'
QUEUE = 'bert_e/workflow/gitwaterflow/queueing.py'
BRANCHES = 'bert_e/workflow/gitwaterflow/branches.py'
COMMANDS = 'bert_e/workflow/gitwaterflow/commands.py'
UTILS = 'bert_e/workflow/gitwaterflow/utils.py'
JIRA = 'bert_e/workflow/gitwaterflow/jira.py'
GITUTILS = 'bert_e/workflow/git_utils.py'
PRUTILS = 'bert_e/workflow/pr_utils.py'
GIT = 'bert_e/lib/git.py'
SIMPLECMD = 'bert_e/lib/simplecmd.py'
BERTE = 'bert_e/bert_e.py'
JOB = 'bert_e/job.py'
REACTOR = 'bert_e/reactor.py'
EXC = 'bert_e/exceptions.py'
SETTINGS = 'bert_e/settings.py'
GITHUB = 'bert_e/git_host/github/__init__.py'
BITBUCKET = 'bert_e/git_host/bitbucket/__init__.py'
WEBHOOK = 'bert_e/server/webhook.py'
AUTH = 'bert_e/server/auth.py'
APIBASE = 'bert_e/server/api/base.py'
APIINIT = 'bert_e/server/api/__init__.py'
APIBR = 'bert_e/server/api/gwf/branches.py'
APIQ = 'bert_e/server/api/gwf/queues.py'
APIPR = 'bert_e/server/api/pull_requests.py'
MANAGE = 'bert_e/server/manage.py'
SERVER = 'bert_e/server/__init__.py'
CREATE = 'bert_e/jobs/create_branch.py'
DELETE = 'bert_e/jobs/delete_branch.py'
DELQ = 'bert_e/jobs/delete_queues.py'
REBUILD = 'bert_e/jobs/rebuild_queues.py'
FORCE = 'bert_e/jobs/force_merge_queues.py'
LRU = 'bert_e/lib/lru_cache.py'

MUTANTS = []
EQUIVALENTS = []


def mut(pid, name, path, old, new, count=1):
    MUTANTS.append({'pid': pid, 'name': name, 'path': path, 'old': old,
                    'new': new, 'count': count})


def mut2(pid, name, edits):
    MUTANTS.append({'pid': pid, 'name': name, 'edits': [
        {'path': p, 'old': o, 'new': n} for p, o, n in edits]})


def eq(pids, name, path, old, new, count=1):
    EQUIVALENTS.append({'pids': pids, 'name': name, 'path': path,
                        'old': old, 'new': new, 'count': count})


# ------------------------------------------------------------------- C06
mut('C06', 'ranking-success-not-min', GWF,
    "('SUCCESSFUL', 'INPROGRESS', 'NOTSTARTED', 'STOPPED', 'FAILED')",
    "('INPROGRESS', 'SUCCESSFUL', 'NOTSTARTED', 'STOPPED', 'FAILED')")
mut('C06', 'max-to-min', GWF,
    "worst = max(wbranches, key=", "worst = min(wbranches, key=")
mut('C06', 'stopped-not-failure', GWF,
    "if worst_status in ('FAILED', 'STOPPED'):",
    "if worst_status in ('FAILED',):")
mut('C06', 'skip-first-branch', GWF,
    "statuses = {b.name: status(b) for b in wbranches}\n"
    "    worst = max(wbranches, key=",
    "statuses = {b.name: status(b) for b in wbranches[1:]}\n"
    "    worst = max(wbranches[1:], key=")
mut('C06', 'filter-lookup', GWF,
    "statuses = {b.name: status(b) for b in wbranches}",
    "statuses = {b.name: status(b) if b.newly_created else 'SUCCESSFUL' "
    "for b in wbranches}")
mut('C06', 'name-instead-of-tip', GWF,
    "            branch.get_latest_commit(), key)\n\n    statuses",
    "            branch.name, key)\n\n    statuses")
mut('C06', 'notstarted-templated', EXC,
    "class BuildNotStarted(SilentException):",
    "class BuildNotStarted(TemplateException):")
mut('C06', 'early-return-interactive', GWF,
    "    key = job.settings.build_key\n    if not key:\n        return\n",
    "    key = job.settings.build_key\n    if not key:\n        return\n"
    "    if job.settings.interactive:\n        return\n")
mut('C06', 'gate-removed', GWF,
    "    check_build_status(job, wbranches)\n", "")
mut('C06', 'gate-after-queue', GWF,
    "    check_approvals(job)\n    check_build_status(job, wbranches)\n",
    "    check_approvals(job)\n")
mut('C06', 'gate-on-slice', GWF,
    "    check_build_status(job, wbranches)\n",
    "    check_build_status(job, wbranches[1:])\n")
mut('C06', 'inprogress-passes', GWF,
    "    elif worst_status == 'INPROGRESS':\n"
    "        raise messages.BuildInProgress()\n"
    "    assert worst_status == 'SUCCESSFUL'",
    "    assert worst_status in ('SUCCESSFUL', 'INPROGRESS')")
mut('C06', 'bypass-helper-wrong-key', UTILS,
    "    return (job.settings.bypass_build_status or\n"
    "            job.author_bypass.get('bypass_build_status', False))",
    "    return (job.settings.bypass_build_status or\n"
    "            job.author_bypass.get('bypass_jira_check', False))")
mut('C06', 'key-from-other-setting', GWF,
    "    key = job.settings.build_key\n    if not key:",
    "    key = job.settings.get('queue_build_key', 'pre-merge')\n"
    "    if not key:")
mut('C06', 'push-after-gate', GWF,
    "                branch.reset(ignore_missing=True)\n"
    "        push(job.git.repo, wbranches[1:])\n",
    "                branch.reset(ignore_missing=True)\n")
mut('C06', 'ghost-not-yielded', INTEG,
    "    branch.src_branch, branch.dst_branch = src, "
    "job.git.cascade.dst_branches[0]\n    yield branch\n",
    "    branch.src_branch, branch.dst_branch = src, "
    "job.git.cascade.dst_branches[0]\n")
eq(['C06', 'C03', 'C04'], 'rename-local-worst', GWF,
   "worst_status", "the_worst", count=5)
eq(['C06'], 'loop-instead-of-comprehension', GWF,
   "    statuses = {b.name: status(b) for b in wbranches}\n",
   "    statuses = {}\n    for b in wbranches:\n"
   "        statuses[b.name] = status(b)\n")
eq(['C06'], 'ranking-reversed-with-min', GWF,
   "            ('SUCCESSFUL', 'INPROGRESS', 'NOTSTARTED', 'STOPPED', "
   "'FAILED'))\n    }\n\n    def status(branch):\n"
   "        return job.project_repo.get_build_status(\n"
   "            branch.get_latest_commit(), key)\n\n"
   "    statuses = {b.name: status(b) for b in wbranches}\n"
   "    worst = max(",
   "            ('FAILED', 'STOPPED', 'NOTSTARTED', 'INPROGRESS', "
   "'SUCCESSFUL'))\n    }\n\n    def status(branch):\n"
   "        return job.project_repo.get_build_status(\n"
   "            branch.get_latest_commit(), key)\n\n"
   "    statuses = {b.name: status(b) for b in wbranches}\n"
   "    worst = min(")
