"""Seed edits for the checker self-validation (DESIGN.md section 8).

MUTANTS: one-site edits that break a property while still compiling; the
property's check must report a violation.  EQUIVALENTS: behaviour-preserving
edits on which the listed checks must stay silent.  Edits are textual with
an exact-occurrence count, applied to the in-memory source map; an edit
whose anchor text has disappeared is reported as inapplicable, not as a
miss."""

GWF = 'bert_e/workflow/gitwaterflow/__init__.py'
INTEG = 'bert_e/workflow/gitwaterflow/integration.py'
QUEUE = 'bert_e/workflow/gitwaterflow/queueing.py'
BRANCHES = 'bert_e/workflow/gitwaterflow/branches.py'
COMMANDS = 'bert_e/workflow/gitwaterflow/commands.py'
UTILS = 'bert_e/workflow/gitwaterflow/utils.py'
JIRA = 'bert_e/workflow/gitwaterflow/jira.py'
GITUTILS = 'bert_e/workflow/git_utils.py'
PRUTILS = 'bert_e/workflow/pr_utils.py'
GIT = 'bert_e/lib/git.py'
SIMPLECMD = 'bert_e/lib/simplecmd.py'
BERTE = 'bert_e/bert_e.py'
JOB = 'bert_e/job.py'
REACTOR = 'bert_e/reactor.py'
EXC = 'bert_e/exceptions.py'
SETTINGS = 'bert_e/settings.py'
GITHUB = 'bert_e/git_host/github/__init__.py'
BITBUCKET = 'bert_e/git_host/bitbucket/__init__.py'
WEBHOOK = 'bert_e/server/webhook.py'
AUTH = 'bert_e/server/auth.py'
APIBASE = 'bert_e/server/api/base.py'
APIINIT = 'bert_e/server/api/__init__.py'
APIBR = 'bert_e/server/api/gwf/branches.py'
APIQ = 'bert_e/server/api/gwf/queues.py'
APIPR = 'bert_e/server/api/pull_requests.py'
MANAGE = 'bert_e/server/manage.py'
SERVER = 'bert_e/server/__init__.py'
CREATE = 'bert_e/jobs/create_branch.py'
DELETE = 'bert_e/jobs/delete_branch.py'
DELQ = 'bert_e/jobs/delete_queues.py'
REBUILD = 'bert_e/jobs/rebuild_queues.py'
FORCE = 'bert_e/jobs/force_merge_queues.py'
LRU = 'bert_e/lib/lru_cache.py'

MUTANTS = []
EQUIVALENTS = []


def mut(pid, name, path, old, new, count=1):
    MUTANTS.append({'pid': pid, 'name': name, 'path': path, 'old': old,
                    'new': new, 'count': count})


def mut2(pid, name, edits):
    MUTANTS.append({'pid': pid, 'name': name, 'edits': [
        {'path': p, 'old': o, 'new': n} for p, o, n in edits]})


def eq(pids, name, path, old, new, count=1):
    EQUIVALENTS.append({'pids': pids, 'name': name, 'path': path,
                        'old': old, 'new': new, 'count': count})


# ------------------------------------------------------------------- C06
mut('C06', 'ranking-success-not-min', GWF,
    "('SUCCESSFUL', 'INPROGRESS', 'NOTSTARTED', 'STOPPED', 'FAILED')",
    "('INPROGRESS', 'SUCCESSFUL', 'NOTSTARTED', 'STOPPED', 'FAILED')")
mut('C06', 'waiting-verdict-inside-the-lookup-loop', GWF,
    "    statuses = {b.name: status(b) for b in wbranches}\n",
    "    for b in wbranches:\n        if status(b) == 'INPROGRESS':\n            raise messages.BuildInProgress()\n    statuses = {b.name: status(b) for b in wbranches}\n")
mut('C06', 'max-to-min', GWF,
    "worst = max(wbranches, key=", "worst = min(wbranches, key=")
mut('C06', 'stopped-not-failure', GWF,
    "if worst_status in ('FAILED', 'STOPPED'):",
    "if worst_status in ('FAILED',):")
mut('C06', 'skip-first-branch', GWF,
    "statuses = {b.name: status(b) for b in wbranches}\n"
    "    worst = max(wbranches, key=",
    "statuses = {b.name: status(b) for b in wbranches[1:]}\n"
    "    worst = max(wbranches[1:], key=")
mut('C06', 'filter-lookup', GWF,
    "statuses = {b.name: status(b) for b in wbranches}",
    "statuses = {b.name: status(b) if b.newly_created else 'SUCCESSFUL' "
    "for b in wbranches}")
mut('C06', 'name-instead-of-tip', GWF,
    "            branch.get_latest_commit(), key)\n\n    statuses",
    "            branch.name, key)\n\n    statuses")
mut('C06', 'notstarted-templated', EXC,
    "class BuildNotStarted(SilentException):",
    "class BuildNotStarted(TemplateException):")
mut('C06', 'early-return-interactive', GWF,
    "    key = job.settings.build_key\n    if not key:\n        return\n",
    "    key = job.settings.build_key\n    if not key:\n        return\n"
    "    if job.settings.interactive:\n        return\n")
mut('C06', 'gate-removed', GWF,
    "    check_build_status(job, wbranches)\n", "")
mut('C06', 'gate-after-queue', GWF,
    "    check_approvals(job)\n    check_build_status(job, wbranches)\n",
    "    check_approvals(job)\n")
mut('C06', 'gate-on-slice', GWF,
    "    check_build_status(job, wbranches)\n",
    "    check_build_status(job, wbranches[1:])\n")
mut('C06', 'inprogress-passes', GWF,
    "    elif worst_status == 'INPROGRESS':\n"
    "        raise messages.BuildInProgress()\n"
    "    assert worst_status == 'SUCCESSFUL'",
    "    assert worst_status in ('SUCCESSFUL', 'INPROGRESS')")
mut('C06', 'bypass-helper-wrong-key', UTILS,
    "    return (job.settings.bypass_build_status or\n"
    "            job.author_bypass.get('bypass_build_status', False))",
    "    return (job.settings.bypass_build_status or\n"
    "            job.author_bypass.get('bypass_jira_check', False))")
mut('C06', 'key-from-other-setting', GWF,
    "    key = job.settings.build_key\n    if not key:",
    "    key = job.settings.get('queue_build_key', 'pre-merge')\n"
    "    if not key:")
mut('C06', 'push-after-gate', GWF,
    "                branch.reset(ignore_missing=True)\n"
    "        push(job.git.repo, wbranches[1:])\n",
    "                branch.reset(ignore_missing=True)\n")
mut('C06', 'ghost-not-yielded', INTEG,
    "    branch.src_branch, branch.dst_branch = src, "
    "job.git.cascade.dst_branches[0]\n    yield branch\n",
    "    branch.src_branch, branch.dst_branch = src, "
    "job.git.cascade.dst_branches[0]\n")
eq(['C06', 'C03', 'C04'], 'rename-local-worst', GWF,
   "worst_status", "the_worst", count=5)
eq(['C06'], 'loop-instead-of-comprehension', GWF,
   "    statuses = {b.name: status(b) for b in wbranches}\n",
   "    statuses = {}\n    for b in wbranches:\n"
   "        statuses[b.name] = status(b)\n")
eq(['C06'], 'ranking-reversed-with-min', GWF,
   "            ('SUCCESSFUL', 'INPROGRESS', 'NOTSTARTED', 'STOPPED', "
   "'FAILED'))\n    }\n\n    def status(branch):\n"
   "        return job.project_repo.get_build_status(\n"
   "            branch.get_latest_commit(), key)\n\n"
   "    statuses = {b.name: status(b) for b in wbranches}\n"
   "    worst = max(",
   "            ('FAILED', 'STOPPED', 'NOTSTARTED', 'INPROGRESS', "
   "'SUCCESSFUL'))\n    }\n\n    def status(branch):\n"
   "        return job.project_repo.get_build_status(\n"
   "            branch.get_latest_commit(), key)\n\n"
   "    statuses = {b.name: status(b) for b in wbranches}\n"
   "    worst = min(")

# ------------------------------------------------------------------- C03
mut('C03', 'lookup-only-failed', BRANCHES,
    "                if status != 'SUCCESSFUL':\n"
    "                    first_failed_pr = qint.pr_id",
    "                if status == 'FAILED':\n"
    "                    first_failed_pr = qint.pr_id")
mut('C03', 'lookup-accepts-inprogress', BRANCHES,
    "                if status != 'SUCCESSFUL':\n"
    "                    first_failed_pr = qint.pr_id",
    "                if status not in ('SUCCESSFUL', 'INPROGRESS'):\n"
    "                    first_failed_pr = qint.pr_id")
mut('C03', 'gate-moved-after-merge-block', GWF,
    "    check_approvals(job)\n    check_build_status(job, wbranches)\n\n"
    "    interactive = job.settings.interactive",
    "    check_approvals(job)\n\n"
    "    interactive = job.settings.interactive")
mut('C03', 'gate-only-when-not-queue', GWF,
    "    check_build_status(job, wbranches)\n",
    "    if not job.settings.use_queue:\n"
    "        check_build_status(job, wbranches)\n")
mut('C03', 'force-merge-default-true', JOB,
    "def __init__(self, force_merge=False, **kwargs):",
    "def __init__(self, force_merge=True, **kwargs):")
mut('C03', 'force-merge-from-commit-handler', GWF,
    "            return queueing.handle_merge_queues("
    "QueuesJob(bert_e=job.bert_e))",
    "            return queueing.handle_merge_queues("
    "QueuesJob(bert_e=job.bert_e,\n"
    "                force_merge=job.settings.get('force', True)))")
mut('C03', 'collection-force-default-true', BRANCHES,
    "getattr(job, 'force_merge', False))",
    "getattr(job, 'force_merge', True))")
mut('C03', 'process-skips-lookup', BRANCHES,
    "                self._recursive_lookup(stack)\n"
    "                path_mergeable_prs",
    "                path_mergeable_prs")
mut('C03', 'process-extract-before-lookup', BRANCHES,
    "                self._recursive_lookup(stack)\n"
    "                path_mergeable_prs = self._extract_pr_ids(stack)\n",
    "                path_mergeable_prs = self._extract_pr_ids(stack)\n"
    "                self._recursive_lookup(stack)\n")
mut('C03', 'process-keeps-larger', BRANCHES,
    "if len(path_mergeable_prs) < len(mergeable_prs):",
    "if len(path_mergeable_prs) > len(mergeable_prs):")
mut('C03', 'process-force-inverted', BRANCHES,
    "        if not self.force_merge:\n            for merge_path",
    "        if self.force_merge:\n            for merge_path")
mut('C03', 'isneeded-drop-src-check', QUEUE,
    "    if not job.git.src_branch.includes_commit(\n"
    "            job.git.dst_branch.get_latest_commit()):\n"
    "        return True\n", "")
mut('C03', 'isneeded-drop-loop-check', QUEUE,
    "        if not branch.includes_commit(dst_branch.get_latest_commit()):\n"
    "            return True\n",
    "        if not branch.exists():\n            return True\n")
mut('C03', 'isneeded-ignore-queued', QUEUE,
    "            already_in_queue(job, wbranches) or\n"
    "            len(queues.queued_prs) > 0):",
    "            already_in_queue(job, wbranches)):")
mut('C03', 'merge-queues-oldest', QUEUE,
    "latest = branches[QueueIntegrationBranch][0]",
    "latest = branches[QueueIntegrationBranch][-1]")
mut('C03', 'key-hardcoded', BRANCHES,
    "                status = self.bbrepo.get_build_status(\n"
    "                    qint.get_latest_commit(),\n"
    "                    self.build_key\n                )\n"
    "                if status != 'SUCCESSFUL':",
    "                status = self.bbrepo.get_build_status(\n"
    "                    qint.get_latest_commit(),\n"
    "                    'pre-merge'\n                )\n"
    "                if status != 'SUCCESSFUL':")
mut('C03', 'endpoint-not-admin', APIQ,
    "    method = 'PATCH'\n    admin = True", "    method = 'PATCH'\n    admin = False")
eq(['C03'], 'lookup-eq-form', BRANCHES,
   "                if status != 'SUCCESSFUL':\n"
   "                    first_failed_pr = qint.pr_id\n"
   "                    break",
   "                if status == 'SUCCESSFUL':\n"
   "                    continue\n"
   "                first_failed_pr = qint.pr_id\n"
   "                break")

# ------------------------------------------------------------------- C04
mut('C04', 'leader-helper-reads-peer', UTILS,
    "    return (job.settings.bypass_leader_approval or\n"
    "            job.author_bypass.get('bypass_leader_approval', False))",
    "    return (job.settings.bypass_peer_approval or\n"
    "            job.author_bypass.get('bypass_leader_approval', False))")
mut('C04', 'author-bypass-dropped', GWF,
    "        not job.settings.need_author_approval or\n"
    "        bypass_author_approval(job) or\n"
    "        job.settings.approve\n",
    "        not job.settings.need_author_approval or\n"
    "        job.settings.approve\n")
mut('C04', 'change-requests-dropped', GWF,
    "            (requires_unanimity and not is_unanimous) or \\\n"
    "            len(change_requests) > 0:",
    "            (requires_unanimity and not is_unanimous):")
mut('C04', 'approve-unconditional', GWF,
    "    if job.settings.approve:\n"
    "        approvals.add(job.pull_request.author)\n\n"
    "    # Exclude Bert-E",
    "    approvals.add(job.pull_request.author)\n\n"
    "    # Exclude Bert-E")
mut('C04', 'peer-ge-to-gt', GWF,
    "(current_peer_approvals >= required_peer_approvals) and",
    "(current_peer_approvals > required_peer_approvals) and")
mut('C04', 'missing-leader-ge', GWF,
    "            missing_leader_approvals > 0 or \\",
    "            missing_leader_approvals >= 0 or \\")
mut('C04', 'gate-removed', GWF,
    "    check_approvals(job)\n    check_build_status(job, wbranches)",
    "    check_build_status(job, wbranches)")
mut('C04', 'gate-after-isneeded', GWF,
    "    check_approvals(job)\n    check_build_status(job, wbranches)\n",
    "    check_build_status(job, wbranches)\n")
mut('C04', 'shortcut-on-wait', GWF,
    "            not requires_unanimity):\n        return",
    "            not requires_unanimity) or job.settings.wait:\n"
    "        return")
mut('C04', 'unanimity-not-dropped', GWF,
    "            (requires_unanimity and not is_unanimous) or \\",
    "            (requires_unanimity and is_unanimous) or \\")
mut('C04', 'robot-not-excluded', GWF,
    "    participants -= {username}\n", "")
mut('C04', 'leader-author-increment-unconditional', GWF,
    "    if (job.pull_request.author in leaders and\n"
    "            job.pull_request.author not in approvals):",
    "    if job.pull_request.author not in approvals:")
mut('C04', 'author-bypass-keyed-by-robot', JOB,
    "            self.pull_request.author, {}\n",
    "            self.settings.robot, {}\n")
mut('C04', 'settings-validation-dropped', SETTINGS,
    "        if (data['required_leader_approvals'] >\n"
    "                len(data['project_leaders'])):",
    "        if (data['required_leader_approvals'] >\n"
    "                len(data['project_leaders']) + 1):")
mut('C04', 'settings-validation-never-raises', SETTINGS,
    "        if errors:\n            raise ValidationError(errors)",
    "        if errors and kwargs.get('strict'):\n"
    "            raise ValidationError(errors)")
mut('C04', 'early-unconditional-return', GWF,
    "    requires_unanimity = job.settings.unanimity\n    is_unanimous = True\n",
    "    requires_unanimity = job.settings.unanimity\n    is_unanimous = True\n"
    "    if job.settings.no_octopus:\n        return\n")
mut('C04', 'peers-include-author', GWF,
    "    peer_approvals = approvals - {job.pull_request.author}\n",
    "    peer_approvals = approvals\n")
eq(['C04'], 'reorder-guard-terms', GWF,
   "    if not approved_by_author or \\\n"
   "            missing_leader_approvals > 0 or \\\n"
   "            missing_peer_approvals > 0 or \\",
   "    if missing_peer_approvals > 0 or \\\n"
   "            missing_leader_approvals > 0 or \\\n"
   "            not approved_by_author or \\")
eq(['C04'], 'rename-username', GWF,
   "    username = job.settings.robot\n\n    participants",
   "    username = job.settings.robot\n    LOG.debug('x')\n\n    participants")

# ------------------------------------------------------------------- C12
mut('C12', 'dependencies-after-clone', GWF,
    "    check_dependencies(job)\n\n    # Now we're actually going to work on the repository. Let's clone it.\n    clone_git_repo(job)\n",
    "    # Now we're actually going to work on the repository. Let's clone it.\n    clone_git_repo(job)\n    check_dependencies(job)\n")
mut('C12', 'dependencies-after-branches', GWF,
    "    check_dependencies(job)\n\n    # Now",
    "    # Now")
mut('C12', 'greetings-before-early-checks', GWF,
    "    early_checks(job)\n    send_greetings(job)\n",
    "    send_greetings(job)\n    early_checks(job)\n")
mut('C12', 'notmyjob-templated', EXC,
    "class NotMyJob(SilentException):", "class NotMyJob(InitMessage):")
mut('C12', 'user-branch-producer', BRANCHES,
    "class UserBranch(GWFBranch):\n    pattern = r'^user/(?P<label>.+)$'\n",
    "class UserBranch(GWFBranch):\n    pattern = r'^user/(?P<label>.+)$'\n"
    "    cascade_producer = True\n")
mut('C12', 'release-consumer', BRANCHES,
    "              r'(?P<version>(?P<major>\\d+)\\.(?P<minor>\\d+))$'\n\n\nclass FeatureBranch",
    "              r'(?P<version>(?P<major>\\d+)\\.(?P<minor>\\d+))$'\n"
    "    cascade_consumer = True\n\n\nclass FeatureBranch")
mut('C12', 'merged-accepted', GWF,
    "    if status not in ('OPEN', 'DECLINED'):",
    "    if status not in ('OPEN', 'DECLINED', 'MERGED'):")
mut('C12', 'dep-count-gt', GWF,
    "    if len(after_prs) != len(merged):",
    "    if len(after_prs) > len(merged) + len(declined):")
mut('C12', 'dep-declined-counts', GWF,
    "        merged = [p for p in prs if p.status == 'MERGED']",
    "        merged = [p for p in prs if p.status != 'OPEN']")
mut('C12', 'wait-ignored-for-admin', GWF,
    "    if job.settings.wait:\n        raise messages.NothingToDo('wait option is set')",
    "    if job.settings.wait and not job.settings.approve:\n"
    "        raise messages.NothingToDo('wait option is set')")
mut('C12', 'producer-or-consumer', GWF,
    "    if not is_cascade_producer(src) or not is_cascade_consumer(dst):",
    "    if not is_cascade_producer(src) and not is_cascade_consumer(dst):")
mut('C12', 'consumer-on-src', GWF,
    "not is_cascade_consumer(dst):", "not is_cascade_consumer(src):")
mut('C12', 'comments-after-dependencies', GWF,
    "    handle_comments(job)\n    LOG.debug(\"Running with active options: %r\", job.active_options)\n\n    check_dependencies(job)\n",
    "    check_dependencies(job)\n    handle_comments(job)\n")
mut('C12', 'unknown-dep-swallowed', GWF,
    "        except Exception as err:\n            raise messages.IncorrectPullRequestNumber(\n                pr_id=pr_id, active_options=job.active_options\n            ) from err\n",
    "        except Exception as err:\n            LOG.debug(err)\n            continue\n")
mut('C12', 'non-integer-dep-recorded', COMMANDS,
    "    try:\n        int(pr_id)\n    except ValueError:\n        return\n\n    job.settings.after_pull_request.add(pr_id)",
    "    job.settings.after_pull_request.add(pr_id)")
mut('C12', 'command-creates-branches', COMMANDS,
    "    raise StatusReport(status={}, active_options=job.active_options)",
    "    from .integration import create_integration_branches\n"
    "    list(create_integration_branches(job))\n"
    "    raise StatusReport(status={}, active_options=job.active_options)")
mut('C12', 'early-checks-pushes', GWF,
    "    src, dst = job.pull_request.src_branch, job.pull_request.dst_branch\n",
    "    src, dst = job.pull_request.src_branch, job.pull_request.dst_branch\n"
    "    push(job.git.repo)\n")
EQUIVALENTS.append({
    'pids': ['C12', 'C11', 'C06', 'C03', 'C04'],
    'name': 'extract-gates-helper', 'edits': [
        {'path': GWF, 'old': "    early_checks(job)\n    send_greetings(job)\n",
         'new': "    _pre(job)\n    send_greetings(job)\n"},
        {'path': GWF, 'old': "def early_checks(job):\n",
         'new': "def _pre(job):\n    early_checks(job)\n\n\n"
                "def early_checks(job):\n"}]})

# ------------------------------------------------------------------- C11
mut('C11', 'jira-after-branches', GWF,
    "    check_branch_compatibility(job)\n    jira_checks(job)\n\n    check_integration_branches(job)\n    wbranches = list(create_integration_branches(job))\n",
    "    check_branch_compatibility(job)\n\n    check_integration_branches(job)\n    wbranches = list(create_integration_branches(job))\n    jira_checks(job)\n")
mut('C11', 'jira-removed', GWF, "    jira_checks(job)\n", "")
mut('C11', 'extra-early-return', JIRA,
    "    if not check_issue_reference(job):\n        return\n",
    "    if not check_issue_reference(job):\n        return\n"
    "    if job.settings.approve:\n        return\n")
mut('C11', 'issue-type-dropped', JIRA,
    "    check_project(job, issue)\n    check_issue_type(job, issue)\n",
    "    check_project(job, issue)\n")
mut('C11', 'version-check-inverted', JIRA,
    "    if not job.settings.disable_version_checks:\n        check_fix_versions(job, issue)",
    "    if job.settings.disable_version_checks:\n        check_fix_versions(job, issue)")
mut('C11', 'shared-exception', JIRA,
    "        raise exceptions.IssueTypeNotSupported(\n            issue=issue, pairs=prefixes, active_options=job.active_options\n        )",
    "        raise exceptions.IncorrectJiraProject(\n            issue=issue, expected_project='', active_options=job.active_options\n        )")
mut('C11', 'project-not-upper', BRANCHES,
    "            self.jira_project = self.jira_project.upper()",
    "            self.jira_project = self.jira_project")
mut('C11', 'config-any-instead-of-all', JIRA,
    "    if not all([job.settings.jira_keys,", "    if not any([job.settings.jira_keys,")
mut('C11', 'config-only-keys', JIRA,
    "    if not all([job.settings.jira_keys,\n                job.settings.jira_email,\n                job.settings.jira_account_url]):",
    "    if not all([job.settings.jira_keys]):")
mut('C11', 'ticketless-first-target-only', JIRA,
    "        for dst_branch in job.git.cascade.dst_branches:\n            if not dst_branch.allow_ticketless_pr:",
    "        for dst_branch in job.git.cascade.dst_branches[:1]:\n            if not dst_branch.allow_ticketless_pr:")
mut('C11', 'ticketless-return-in-loop', JIRA,
    "                    active_options=job.active_options\n                )\n        return False\n    return True",
    "                    active_options=job.active_options\n                )\n            return False\n        return False\n    return True")
mut('C11', 'dev-allows-ticketless', BRANCHES,
    "    has_stabilization = False\n    latest_minor = -1\n",
    "    has_stabilization = False\n    latest_minor = -1\n    allow_ticketless_pr = True\n")
mut('C11', 'filter-accepts-suffix', JIRA,
    "r'^\\d+\\.\\d+\\.\\d+(\\.0|)$'", "r'^\\d+\\.\\d+\\.\\d+(\\.0|)'")
mut('C11', 'filter-accepts-any-hf', JIRA,
    "r'^\\d+\\.\\d+\\.\\d+(\\.0|)$'", "r'^\\d+\\.\\d+\\.\\d+(\\.\\d+|)$'")
mut('C11', 'hf-filter-three-numbers', JIRA,
    "r'^\\d+\\.\\d+\\.\\d+\\.\\d+$'", "r'^\\d+\\.\\d+\\.\\d+$'")
mut('C11', 'versions-subset', JIRA,
    "    elif checked_versions != expected_versions:",
    "    elif not checked_versions >= expected_versions:")
mut('C11', 'hf-target-in-checked', JIRA,
    "        if hf_target not in issue_versions:",
    "        if hf_target not in checked_versions:")
mut('C11', 'not-found-for-all-errors', JIRA,
    "        if err.status_code == 404:\n            raise exceptions.JiraIssueNotFound(",
    "        if err.status_code >= 400:\n            raise exceptions.JiraIssueNotFound(")
mut('C11', 'jira-error-swallowed', JIRA,
    "            ) from err\n        raise\n", "            ) from err\n        return None\n")
mut('C11', 'bypass-prefix-on-dst', JIRA,
    "    if job.git.src_branch.prefix in job.settings.bypass_prefixes:",
    "    if job.git.dst_branch.prefix in job.settings.bypass_prefixes:")
mut('C11', 'jira-checks-comments', JIRA,
    "    issue = get_jira_issue(job)\n",
    "    issue = get_jira_issue(job)\n    job.pull_request.add_comment('checking %s' % issue.key)\n")
mut('C11', 'wrong-issue-passed', JIRA,
    "    check_project(job, issue)\n",
    "    check_project(job, None)\n")
mut('C11', 'duplicate-code', EXC,
    "class IncorrectFixVersion(TemplateException):\n    code = 112",
    "class IncorrectFixVersion(TemplateException):\n    code = 110")
mut('C11', 'missing-template', EXC,
    "    template = 'incorrect_jira_project.md'", "    template = 'incorrect_project.md'")

# ------------------------------------------------------------------- C07
mut('C07', 'bypass-unprivileged', COMMANDS,
    '        "Bypass the Jira issue check",\n        privileged=True,',
    '        "Bypass the Jira issue check",\n        privileged=False,')
mut('C07', 'bypass-flag-dropped', COMMANDS,
    '        "Bypass the pull request peers\' approval",\n        privileged=True,\n',
    '        "Bypass the pull request peers\' approval",\n')
mut('C07', 'approve-not-authored', COMMANDS,
    '        authored=True,\n        default=defaults.get("approve", False)',
    '        default=defaults.get("approve", False)')
mut('C07', 'priv-check-after-handler', REACTOR,
    "            if option.privileged and not privileged:\n                raise NotPrivileged(key)\n\n            if option.authored and not authored:\n                raise NotAuthored(key)\n\n            # Everything is okay, apply the option\n            option.handler(job, *args)\n",
    "            if option.authored and not authored:\n                raise NotAuthored(key)\n\n            # Everything is okay, apply the option\n            option.handler(job, *args)\n            if option.privileged and not privileged:\n                raise NotPrivileged(key)\n")
mut('C07', 'priv-check-or', REACTOR,
    "            if option.privileged and not privileged:\n                raise NotPrivileged(key)\n\n            if option.authored",
    "            if option.privileged and not (privileged or authored):\n                raise NotPrivileged(key)\n\n            if option.authored")
mut('C07', 'authored-check-dropped', REACTOR,
    "            if option.authored and not authored:\n                raise NotAuthored(key)\n\n", "")
mut('C07', 'command-priv-dropped', REACTOR,
    "        if command.privileged and not privileged:\n            raise NotPrivileged(key)\n\n", "")
mut('C07', 'unknown-option-ignored', REACTOR,
    "            if option is None:\n                raise NotFound(key)\n            if not isinstance(option, Option):",
    "            if option is None:\n                continue\n            if not isinstance(option, Option):")
mut('C07', 'author-may-bypass', GWF,
    "        privileged = author in admins and author != pr_author\n        authored = author == pr_author",
    "        privileged = author in admins\n        authored = author == pr_author")
mut('C07', 'authored-is-admin', GWF,
    "        authored = author == pr_author\n",
    "        authored = author in admins\n")
mut('C07', 'commands-priv-any-admin', GWF,
    "        privileged = author in admins and author != pr_author\n        text = comment.text\n        try:\n            reactor.handle_commands",
    "        privileged = author in admins or author == pr_author\n        text = comment.text\n        try:\n            reactor.handle_commands")
mut('C07', 'notprivileged-swallowed', GWF,
    "        except NotPrivileged as err:\n            raise messages.NotEnoughCredentials(\n                active_options=job.active_options, command=err.keyword,\n                author=author, self_pr=(author == pr_author), comment=text\n            ) from err\n        except NotAuthored",
    "        except NotPrivileged as err:\n            LOG.debug(err)\n        except NotAuthored")
mut('C07', 'direct-option-write', GWF,
    "    LOG.debug(\"Running with active options: %r\", job.active_options)\n",
    "    LOG.debug(\"Running with active options: %r\", job.active_options)\n"
    "    if job.pull_request.author in admins_of(job):\n"
    "        job.settings['bypass_build_status'] = True\n")
mut('C07', 'slash-regex-loses-slash', REACTOR,
    "r'^/[\\w=]+([\\s,.\\-:;|+]+/[\\w=]+)*\\s*$'", "r'^/?[\\w=]+([\\s,.\\-:;|+]+/[\\w=]+)*\\s*$'")
mut('C07', 'prefix-test-dropped', REACTOR,
    "        if raw.startswith(prefix):\n            canonical_raw = raw\n            canonical_prefix = prefix\n        elif re.match(r'^/[\\w=]+",
    "        if prefix in raw:\n            canonical_raw = raw\n            canonical_prefix = prefix\n        elif re.match(r'^/[\\w=]+")
mut('C07', 'cmdline-default-crossed', COMMANDS,
    'default=defaults.get("bypass_peer_approval", False))',
    'default=defaults.get("create_pull_requests", False))')
mut('C07', 'option-default-true', COMMANDS,
    'default=defaults.get("bypass_commit_size", False))',
    'default=defaults.get("bypass_commit_size", True))')
mut('C07', 'option-tuple-swapped', REACTOR,
    "        cls.set_callback(key, Option(set_option, default, help_, privileged,\n                                     authored))",
    "        cls.set_callback(key, Option(set_option, default, help_, authored,\n                                     privileged))")
mut('C07', 'job-with-preset-options', GWF,
    "        PullRequestJob(\n            bert_e=job.bert_e,\n            pull_request=job.project_repo.get_pull_request(int(parent_id))\n        )",
    "        PullRequestJob(\n            bert_e=job.bert_e, settings=dict(job.settings.maps[0]),\n            pull_request=job.project_repo.get_pull_request(int(parent_id))\n        )")
mut('C07', 'options-from-other-pr-text', GWF,
    "        text = comment.text\n        try:\n            reactor.handle_options(job, text, prefix, privileged, authored)",
    "        text = job.pull_request.description\n        try:\n            reactor.handle_options(job, text, prefix, privileged, authored)")
eq(['C07'], 'inline-flags', GWF,
   "        privileged = author in admins and author != pr_author\n        authored = author == pr_author\n        text = comment.text\n        try:\n            reactor.handle_options(job, text, prefix, privileged, authored)",
   "        text = comment.text\n        try:\n            reactor.handle_options(job, text, prefix,\n                                   author != pr_author and author in admins,\n                                   pr_author == author)")

# ------------------------------------------------------------------- C10
mut('C10', 'defaults-not-copied', REACTOR,
    "            job.settings[key] = copy(option.default)",
    "            job.settings[key] = option.default")
mut('C10', 'command-returns', COMMANDS,
    "    raise ResetComplete(couldnt_decline=error_prs,\n                        active_options=job.active_options)",
    "    LOG = None\n    return error_prs")
mut('C10', 'command-silent', COMMANDS,
    "    raise StatusReport(status={}, active_options=job.active_options)",
    "    from bert_e.exceptions import NothingToDo\n    raise NothingToDo()")
mut('C10', 'shield-removed', GWF,
    "        if author == job.settings.robot:\n            return\n        privileged",
    "        privileged")
mut('C10', 'shield-continue', GWF,
    "        if author == job.settings.robot:\n            return\n        privileged",
    "        if author == job.settings.robot:\n            continue\n        privileged")
mut('C10', 'commands-oldest-first', GWF,
    "    for comment in reversed(job.pull_request.comments):",
    "    for comment in job.pull_request.comments:")
mut('C10', 'direct-comment', QUEUE,
    "        notify_user(\n            job.settings, pull_request, exceptions.QueueBuildFailedMessage(\n                active_options=job.active_options,\n                frontend_url=job.bert_e.settings.frontend_url)\n        )",
    "        pull_request.add_comment(str(exceptions.QueueBuildFailedMessage(\n                active_options=job.active_options,\n                frontend_url=job.bert_e.settings.frontend_url)))")
mut('C10', 'queued-repeatable', EXC,
    "    template = 'queued.md'\n    status = \"in_progress\"",
    "    template = 'queued.md'\n    status = \"in_progress\"\n    dont_repeat_if_in_history = 0")
mut('C10', 'default-policy-zero', EXC,
    "    # whether to re-publish if the message is already in the history\n    dont_repeat_if_in_history = -1",
    "    # whether to re-publish if the message is already in the history\n    dont_repeat_if_in_history = 0")
mut('C10', 'dedup-skipped', PRUTILS,
    "        if find_comment(pull_request, settings.robot, msg,\n                        dont_repeat_if_in_history):\n            raise exceptions.CommentAlreadyExists(",
    "        if settings.interactive and find_comment(pull_request, settings.robot, msg,\n                        dont_repeat_if_in_history):\n            raise exceptions.CommentAlreadyExists(")
mut('C10', 'dedup-wrong-user', PRUTILS,
    "        if find_comment(pull_request, settings.robot, msg,",
    "        if find_comment(pull_request, pull_request.author, msg,")
mut('C10', 'find-comment-skips-different', PRUTILS,
    "            if max_history == -1:\n                return\n            continue",
    "            continue")
mut('C10', 'find-comment-oldest-first', PRUTILS,
    "    comments = reversed(pull_request.comments)", "    comments = iter(pull_request.comments)")
mut('C10', 'cascade-cache-global', BRANCHES,
    "def build_branch_cascade(job):\n    \"\"\"Initialize the job's branch cascade.\"\"\"\n    cascade = job.git.cascade\n",
    "_CASCADES = {}\n\n\ndef build_branch_cascade(job):\n    \"\"\"Initialize the job's branch cascade.\"\"\"\n    cascade = _CASCADES.setdefault(job.git.dst_branch.name, job.git.cascade)\n    job.git.cascade = cascade\n")
mut('C10', 'cascade-on-berte', BRANCHES,
    "    cascade.build(job.git.repo, job.git.dst_branch)\n    LOG.debug(cascade.dst_branches)",
    "    cascade.build(job.git.repo, job.git.dst_branch)\n    job.bert_e.last_cascade = cascade\n    LOG.debug(cascade.dst_branches)")
mut('C10', 'no-reset-before-dispatch', BERTE,
    "        self.git_repo.reset()\n        try:\n            return self.dispatch(job)",
    "        try:\n            return self.dispatch(job)")
mut('C10', 'reset-keeps-caches', GIT,
    "        self.cmd_directory = self.tmp_directory\n        self._remote_heads = defaultdict(set)\n        self._remote_branches = dict()\n\n    def delete",
    "        self.cmd_directory = self.tmp_directory\n\n    def delete")
mut('C10', 'init-settings-after-options', GWF,
    "    reactor.init_settings(job)\n\n    prefix = '@{}'.format(job.settings.robot)",
    "    prefix = '@{}'.format(job.settings.robot)")
mut('C10', 'memoised-build-status', GITHUB,
    "    def get_build_status(self, revision: str, key: str) -> str:\n        status = cache",
    "    @lru_cache()\n    def get_build_status(self, revision: str, key: str) -> str:\n        status = cache")
mut('C10', 'wrong-policy-forwarded', PRUTILS,
    "        _send_comment(settings, pull_request, str(comment),\n                      comment.dont_repeat_if_in_history)",
    "        _send_comment(settings, pull_request, str(comment), 0)")

# ------------------------------------------------------------------- C08
mut('C08', 'mirror-refresh-failure-absorbed', GIT,
    "            self.cmd('git fetch --prune', cwd=git_cache)\n",
    "            try:\n                self.cmd('git fetch --prune', cwd=git_cache)\n            except CommandError:\n                LOG.warning('stale cache')\n")
mut('C08', 'force-push', GIT,
    "            self.cmd('git push --set-upstream origin ' + name)",
    "            self.cmd('git push --force --set-upstream origin ' + name)")
mut('C08', 'push-all-force', GIT,
    "            self.cmd('git push --all --atomic %s' % prune)",
    "            self.cmd('git push --all --atomic --force-with-lease %s' % prune)")
mut('C08', 'guard-widened', GIT,
    "                 self.name.startswith('tmp/')) and not force):",
    "                 self.name.startswith('tmp/') or\n                 self.name.startswith('feature/')) and not force):")
mut('C08', 'guard-raise-removed', GIT,
    "            raise ForbiddenOperation('cannot delete branch %s' %\n                                     self.name)",
    "            LOG.warning('deleting foreign branch %s', self.name)")
mut('C08', 'guard-or-force', GIT,
    "                 self.name.startswith('tmp/')) and not force):",
    "                 self.name.startswith('tmp/')) and force):")
mut('C08', 'force-default-true', GIT,
    "    def remove(self, del_local=True, force=False, do_push=False):",
    "    def remove(self, del_local=True, force=True, do_push=False):")
mut('C08', 'force-from-delete-queues', DELQ,
    "        branch.remove(do_push=False)", "        branch.remove(force=True, do_push=False)")
mut('C08', 'tag-after-delete', DELETE,
    "    archive_tag = del_branch.version\n    if isinstance(del_branch, HotfixBranch):\n        archive_tag = archive_tag + '.archived_hotfix_branch'\n    try:\n        del_branch.checkout()\n        repo.cmd('git tag %s' % archive_tag)\n        repo.cmd('git push origin %s' % archive_tag)\n    except CommandError:\n        raise exceptions.JobFailure('Unable to push new tag, '\n                                    'keep pushing.')\n\n    do_delete(del_branch, force=True)\n",
    "    archive_tag = del_branch.version\n    if isinstance(del_branch, HotfixBranch):\n        archive_tag = archive_tag + '.archived_hotfix_branch'\n    do_delete(del_branch, force=True)\n    try:\n        del_branch.checkout()\n        repo.cmd('git tag %s' % archive_tag)\n        repo.cmd('git push origin %s' % archive_tag)\n    except CommandError:\n        raise exceptions.JobFailure('Unable to push new tag, '\n                                    'keep pushing.')\n")
mut('C08', 'tag-not-pushed', DELETE,
    "        repo.cmd('git push origin %s' % archive_tag)\n", "")
mut('C08', 'raw-delete-refspec', INTEG,
    "    push(job.git.repo, prune=True)\n",
    "    push(job.git.repo, prune=True)\n    job.git.repo.push(':' + job.git.src_branch.name)\n")
mut('C08', 'raw-delete-cmd', QUEUE,
    "    dst.checkout()\n    for wbranch in wbranches:",
    "    dst.checkout()\n    repo.cmd('git push origin --delete %s', src.name)\n    for wbranch in wbranches:")
mut('C08', 'ghost-remove-deleted', BRANCHES,
    "    def remove(self, do_push=False):\n        pass  # Never delete the source branch\n", "")
mut('C08', 'ghost-remove-real', BRANCHES,
    "        pass  # Never delete the source branch",
    "        super().remove(do_push=do_push)")
mut('C08', 'integration-remove-forced', BRANCHES,
    "        super().remove(do_push=do_push)\n\n\nclass GhostIntegrationBranch",
    "        super().remove(do_push=do_push, force=True)\n\n\nclass GhostIntegrationBranch")
mut('C08', 'hard-reset-destination', INTEG,
    "    first, *children = wbranches\n    first.dst_branch.merge(first)",
    "    first, *children = wbranches\n    first.dst_branch.reset()\n    first.dst_branch.merge(first)")
mut('C08', 'tmp-not-removed', GITUTILS,
    "    tmp_oct.remove()\n    tmp_cns.remove()\n", "    tmp_oct.remove()\n")
mut('C08', 'tmp-foreign-name', GITUTILS,
    "git.Branch(dst.repo, 'tmp/normal/{}'.format(dst))",
    "git.Branch(dst.repo, 'normal/{}'.format(dst))")
mut('C08', 'seventh-prune-caller', QUEUE,
    "    push(job.git.repo, to_push)\n", "    push(job.git.repo, to_push)\n    push(job.git.repo, prune=True)\n")
mut('C08', 'prune-in-named-push', GIT,
    "            self.cmd('git push --set-upstream origin ' + name)",
    "            self.cmd('git push --prune --set-upstream origin ' + name)")
mut('C08', 'update-ref', GIT,
    "            self.repo.cmd('git reset --hard %s',\n                          'origin/' + self.name if origin else self.name)",
    "            self.repo.cmd('git update-ref refs/heads/%s %s', self.name,\n                          'origin/' + self.name if origin else self.name)")
mut('C08', 'subprocess-elsewhere', DELQ,
    "    LOG.debug('Queues deleted')",
    "    import subprocess\n    subprocess.call('git push origin :refs/heads/old', shell=True)\n    LOG.debug('Queues deleted')")
mut('C08', 'checkout-B', GIT,
    "            self.repo.cmd('git checkout -b %s %s', self.name,",
    "            self.repo.cmd('git checkout -B %s %s', self.name,")

# ------------------------------------------------------------------- C02
mut('C02', 'atomic-dropped', GIT,
    "            self.cmd('git push --all --atomic %s' % prune)",
    "            self.cmd('git push --all %s' % prune)")
mut('C02', 'dest-merge-pushes', INTEG,
    "    first.dst_branch.merge(first)\n    prev = first",
    "    first.dst_branch.merge(first, do_push=True)\n    prev = first")
mut('C02', 'helper-merge-pushes', GITUTILS,
    "        dst.merge(src1)\n        dst.merge(src2)\n    except",
    "        dst.merge(src1)\n        dst.merge(src2, do_push=True)\n    except")
mut('C02', 'push-includes-source', GWF,
    "        push(job.git.repo, wbranches[1:])\n\n    # create integration pull requests",
    "        push(job.git.repo, wbranches)\n\n    # create integration pull requests")
mut('C02', 'push-destinations-named', INTEG,
    "    push(job.git.repo, prune=True)\n",
    "    push(job.git.repo, [w.dst_branch for w in wbranches])\n    push(job.git.repo, prune=True)\n")
mut('C02', 'queue-push-includes-dst', QUEUE,
    "    to_push = list(qbranches)\n",
    "    to_push = list(qbranches) + [w.dst_branch for w in wbranches]\n")
mut('C02', 'reset-conditional', BERTE,
    "        self.git_repo.reset()\n        try:\n            return self.dispatch(job)",
    "        if not isinstance(job, CommitJob):\n            self.git_repo.reset()\n        try:\n            return self.dispatch(job)")
mut('C02', 'merge-default-push', GIT,
    "        do_push = kwargs.pop('do_push', False)",
    "        do_push = kwargs.pop('do_push', True)")
mut('C02', 'remove-always-pushes', GIT,
    "        if not do_push:\n            return\n        try:\n            self.repo.push(':' + self.name)",
    "        try:\n            self.repo.push(':' + self.name)")
mut('C02', 'merge-queues-pushes-each', QUEUE,
    "            destination.merge(latest)\n",
    "            destination.merge(latest)\n            destination.push()\n")
mut('C02', 'queues-not-validated', GWF,
    "        try:\n            queues.validate()\n        except messages.IncoherentQueues as err:\n            raise messages.QueueOutOfOrder(\n                active_options=job.active_options) from err\n",
    "")
mut('C02', 'incoherent-swallowed', GWF,
    "        except messages.IncoherentQueues as err:\n            raise messages.QueueOutOfOrder(\n                active_options=job.active_options) from err\n",
    "        except messages.IncoherentQueues as err:\n            LOG.warning(err)\n")
mut('C02', 'merge-after-push', INTEG,
    "    push(job.git.repo, prune=True)\n",
    "    push(job.git.repo, prune=True)\n    first.dst_branch.merge(first)\n")
mut('C01', 'first-target-not-merged', INTEG,
    "    first, *children = wbranches\n    first.dst_branch.merge(first)\n    prev = first",
    "    first, *children = wbranches\n    prev = first")
mut('C02', 'no-publication-on-return', INTEG,
    "    push(job.git.repo, prune=True)\n",
    "    if children:\n        push(job.git.repo, prune=True)\n")
mut('C02', 'integration-branch-created-pushed', INTEG,
    "            branch.create(dst, do_push=False)",
    "            branch.create(dst)")
mut('C02', 'wbranches-remove-pushes', INTEG,
    "        try:\n            wbranch.remove()\n        except git.RemoveFailedException:\n            # ignore failures as this is non critical",
    "        try:\n            wbranch.remove(do_push=True)\n        except git.RemoveFailedException:\n            # ignore failures as this is non critical")

# ------------------------------------------------------------------- C01
mut('C01', 'prev-target-dropped', INTEG,
    "            robust_merge(wbranch.dst_branch, prev.dst_branch, wbranch)",
    "            robust_merge(wbranch.dst_branch, wbranch, wbranch)")
mut('C01', 'prev-is-first', INTEG,
    "            consecutive_merge(wbranch.dst_branch, prev.dst_branch, wbranch)\n        else:\n            robust_merge(wbranch.dst_branch, prev.dst_branch, wbranch)",
    "            consecutive_merge(wbranch.dst_branch, first.dst_branch, wbranch)\n        else:\n            robust_merge(wbranch.dst_branch, first.dst_branch, wbranch)")
mut('C01', 'prev-not-advanced', INTEG,
    "            robust_merge(wbranch.dst_branch, prev.dst_branch, wbranch)\n        prev = wbranch\n",
    "            robust_merge(wbranch.dst_branch, prev.dst_branch, wbranch)\n")
mut('C01', 'qint-not-refreshed', QUEUE,
    "            qint = get_queue_integration_branch(job, pr_id, wbranch)\n            qint.create(qbranch, do_push=False)\n            to_push.append(qint)\n    except",
    "            nqint = get_queue_integration_branch(job, pr_id, wbranch)\n            nqint.create(qbranch, do_push=False)\n            to_push.append(nqint)\n    except")
mut('C01', 'qint-cut-before-merge', QUEUE,
    "        qbranch.merge(wbranch)\n        qint = get_queue_integration_branch(job, pr_id, wbranch)\n        qint.create(qbranch, do_push=False)\n",
    "        qint = get_queue_integration_branch(job, pr_id, wbranch)\n        qint.create(qbranch, do_push=False)\n        qbranch.merge(wbranch)\n")
mut('C01', 'queue-merge-without-qint', QUEUE,
    "                robust_merge(qbranch, wbranch, qint)",
    "                robust_merge(qbranch, wbranch, wbranch)")
mut('C01', 'consecutive-retry-one-source', GITUTILS,
    "            dst.reset(False, False)\n            dst.merge(src2)\n            dst.merge(src1)\n        except git.MergeFailedException:\n            raise",
    "            dst.reset(False, False)\n            dst.merge(src2)\n        except git.MergeFailedException:\n            raise")
mut('C01', 'octopus-retry-one-source', GITUTILS,
    "            dst.reset(False, False)\n            dst.merge(src2, src1)",
    "            dst.reset(False, False)\n            dst.merge(src2)")
mut('C01', 'robust-merges-empty-octopus', GITUTILS,
    "    if oct_conflict is not None:\n        dst.merge(tmp_cns)\n    elif",
    "    if oct_conflict is not None:\n        dst.merge(tmp_oct)\n    elif")
mut('C01', 'robust-skips-consecutive', GITUTILS,
    "    consecutive_merge(tmp_cns, src1, src2)\n\n    if oct_conflict",
    "    if oct_conflict is None:\n        consecutive_merge(tmp_cns, src1, src2)\n\n    if oct_conflict")
mut('C01', 'queues-validate-after-merge', QUEUE,
    "    queues = build_queue_collection(job)\n    queues.validate()\n\n    # Update the queue status",
    "    queues = build_queue_collection(job)\n\n    # Update the queue status")
mut('C01', 'create-branch-no-validate', CREATE,
    "        new_cascade.build(job.git.repo)\n        new_cascade.validate()\n",
    "        new_cascade.build(job.git.repo)\n")
mut('C01', 'create-branch-validates-old-cascade', CREATE,
    "        new_cascade = BranchCascade()\n        new_cascade.build(job.git.repo)\n        new_cascade.validate()\n",
    "        cascade.validate()\n")
mut('C01', 'update-merges-into-destination', INTEG,
    "    for idx, branch in enumerate(children):\n        update(branch, prev)\n        prev = branch",
    "    for idx, branch in enumerate(children):\n        update(branch, prev)\n        branch.dst_branch.merge(branch)\n        prev = branch")
mut('C01', 'cascade-validate-drops-prev-check', BRANCHES,
    "            if previous_dev_branch:\n                if not dev_branch.includes_commit(previous_dev_branch):\n                    raise errors.DevBranchesNotSelfContained(\n                        previous_dev_branch, dev_branch)\n\n",
    "")
mut('C01', 'cascade-validate-prev-stale', BRANCHES,
    "            previous_dev_branch = dev_branch\n\n    def _update_major_versions",
    "            if previous_dev_branch is None:\n                previous_dev_branch = dev_branch\n\n    def _update_major_versions")
mut('C01', 'process-ignores-validated', BRANCHES,
    "        if not self._validated:\n            raise errors.QueuesNotValidated()\n\n        mergeable_prs = self._extract_pr_ids(self._queues)",
    "        mergeable_prs = self._extract_pr_ids(self._queues)")
mut('C01', 'validated-despite-errors', BRANCHES,
    "        if errs:\n            raise errors.IncoherentQueues(errs)\n\n        self._validated = True",
    "        self._validated = True\n        if errs:\n            raise errors.IncoherentQueues(errs)\n")
mut('C01', 'destination-recreated', QUEUE,
    "    if not qbranch.exists() and create:\n        qbranch.create(dev_branch)",
    "    if not qbranch.exists() and create:\n        qbranch.create(dev_branch)\n        dev_branch.create(qbranch, do_push=False)")
mut('C01', 'pr-cascade-not-validated', GWF,
    "    build_branch_cascade(job)\n    job.git.cascade.validate()\n\n    check_branch_compatibility(job)",
    "    build_branch_cascade(job)\n\n    check_branch_compatibility(job)")

# ------------------------------------------------------------------- C18
mut('C18', 'hotfix-dollar-dropped', BRANCHES,
    "              r'\\.(?P<micro>\\d+))$'\n    cascade_producer = False",
    "              r'\\.(?P<micro>\\d+))'\n    cascade_producer = False")
eq(['C18'], 'dev-caret-dropped-under-re-match', BRANCHES,
    "pattern = r'^development/(?P<version>(?P<major>\\d+)(\\.(?P<minor>\\d+))?)$'",
    "pattern = r'development/(?P<version>(?P<major>\\d+)(\\.(?P<minor>\\d+))?)$'")
mut('C18', 'version-any', BRANCHES,
    "    pattern = r'^release/' \\\n              r'(?P<version>(?P<major>\\d+)\\.(?P<minor>\\d+))$'",
    "    pattern = r'^release/' \\\n              r'(?P<version>(?P<major>\\d+)\\.(?P<minor>.+))$'")
mut('C18', 'new-prefix-user', BRANCHES,
    "                    'documentation', 'design', 'dependabot', 'epic',\n                    'bug')",
    "                    'documentation', 'design', 'dependabot', 'epic',\n                    'bug', 'user')")
mut('C18', 'new-prefix-q', BRANCHES,
    "                    'documentation', 'design', 'dependabot', 'epic',\n                    'bug')",
    "                    'documentation', 'design', 'dependabot', 'epic',\n                    'bug', 'q')")
mut('C18', 'slice-2', BRANCHES,
    "pattern = r'^q/w/(?P<pr_id>\\d+)/' + IntegrationBranch.pattern[3:]",
    "pattern = r'^q/w/(?P<pr_id>\\d+)/' + IntegrationBranch.pattern[2:]")
mut('C18', 'legacy-before-hotfix', BRANCHES,
    "                FeatureBranch, HotfixBranch, LegacyHotfixBranch,",
    "                FeatureBranch, LegacyHotfixBranch, HotfixBranch,")
mut('C18', 'integration-before-queue', BRANCHES,
    "    for cls in [StabilizationBranch, DevelopmentBranch, ReleaseBranch,\n                QueueBranch, QueueIntegrationBranch,\n                FeatureBranch, HotfixBranch, LegacyHotfixBranch,\n                IntegrationBranch, UserBranch]:",
    "    for cls in [StabilizationBranch, DevelopmentBranch, ReleaseBranch,\n                QueueBranch, QueueIntegrationBranch,\n                FeatureBranch, HotfixBranch, LegacyHotfixBranch,\n                UserBranch]:")
mut('C18', 'w-args-swapped', INTEG,
    "        name = \"w/{}/{}\".format(dst.version, src)\n        branch = branch_factory(job.git.repo, name)\n        branch.src_branch, branch.dst_branch = src, dst\n        if not branch.exists():",
    "        name = \"w/{}/{}\".format(src, dst.version)\n        branch = branch_factory(job.git.repo, name)\n        branch.src_branch, branch.dst_branch = src, dst\n        if not branch.exists():")
mut('C18', 'qint-loses-hfrev', BRANCHES,
    "    pattern = r'^w/(?P<version>(?P<major>\\d+)(\\.(?P<minor>\\d+))?' \\\n              r'(\\.(?P<micro>\\d+)(\\.(?P<hfrev>\\d+))?)?)/' + \\",
    "    pattern = r'^w/(?P<version>(?P<major>\\d+)(\\.(?P<minor>\\d+))?' \\\n              r'(\\.(?P<micro>\\d+))?)/' + \\")
mut('C18', 'version-with-slash', BRANCHES,
    "    pattern = r'^q/(?P<version>(?P<major>\\d+)(\\.(?P<minor>\\d+))?' \\\n              r'(\\.(?P<micro>\\d+)(\\.(?P<hfrev>\\d+))?)?)$'",
    "    pattern = r'^q/(?P<version>(?P<major>\\d+)([./](?P<minor>\\d+))?' \\\n              r'(\\.(?P<micro>\\d+)(\\.(?P<hfrev>\\d+))?)?)$'")
mut('C18', 'release-destination', BRANCHES,
    "              r'(?P<version>(?P<major>\\d+)\\.(?P<minor>\\d+))$'\n\n\nclass FeatureBranch",
    "              r'(?P<version>(?P<major>\\d+)\\.(?P<minor>\\d+))$'\n    can_be_destination = True\n\n\nclass FeatureBranch")
mut('C18', 'add-branch-accepts-all', BRANCHES,
    "        if not branch.can_be_destination:\n            LOG.debug(\"Discard non destination branch: %s\", branch)\n            return\n",
    "        if not branch.can_be_destination:\n            LOG.debug(\"Discard non destination branch: %s\", branch)\n")
mut('C18', 'parent-lookup-name', GWF,
    "        if isinstance(branch, IntegrationBranch):\n            return branch.feature_branch",
    "        if isinstance(branch, IntegrationBranch):\n            return branch.label")
mut('C18', 'qint-name-uses-dst', QUEUE,
    "        pr_id, wbranch_version, job.pull_request.src_branch\n",
    "        pr_id, wbranch_version, job.pull_request.dst_branch\n")
mut('C18', 'ticket-key-anywhere', BRANCHES,
    "    jira_issue_pattern = '(?P<jira_project>[a-zA-Z0-9_]+)-[0-9]+'",
    "    jira_issue_pattern = '(?P<jira_project>[a-zA-Z0-9_/]+)-[0-9]+'")
mut('C18', 'stab-two-numbers', BRANCHES,
    "              r'(?P<version>(?P<major>\\d+)\\.(?P<minor>\\d+)\\.(?P<micro>\\d+))$'\n    allow_prefixes",
    "              r'(?P<version>(?P<major>\\d+)\\.(?P<minor>\\d+)(\\.(?P<micro>\\d+))?)$'\n    allow_prefixes")
mut('C18', 'queue-dest-format', BRANCHES,
    "            dest = branch_factory(repo, 'stabilization/%s' % self.version)",
    "            dest = branch_factory(repo, 'development/%s' % self.version)")

# ------------------------------------------------------------------- C17
mut('C17', 'fix-reverted-unguarded-poll-store', GITHUB,
    "            cached = cache.BUILD_STATUS_CACHE[key].get(combined.commit, None)\n            if not cached or cached.state != 'SUCCESSFUL':\n                cache.BUILD_STATUS_CACHE[key].set(combined.commit, status)",
    "            cache.BUILD_STATUS_CACHE[key].set(combined.commit, status)")
mut('C17', 'webhook-guard-removed', WEBHOOK,
    "    cached = BUILD_STATUS_CACHE[status.key].get(event.commit)\n    if not cached or cached.state != 'SUCCESSFUL':\n        BUILD_STATUS_CACHE[status.key].set(event.commit, status)\n\n    if status.state == 'INPROGRESS':",
    "    BUILD_STATUS_CACHE[status.key].set(event.commit, status)\n\n    if status.state == 'INPROGRESS':")
mut('C17', 'webhook-guard-other-key', WEBHOOK,
    "        cached = BUILD_STATUS_CACHE[key].get(commit_sha1, None)",
    "        cached = BUILD_STATUS_CACHE[build_url].get(commit_sha1, None)")
mut('C17', 'webhook-guard-inverted', WEBHOOK,
    "    cached = BUILD_STATUS_CACHE[status.key].get(event.commit)\n\n    if not cached or cached.state != 'SUCCESSFUL':",
    "    cached = BUILD_STATUS_CACHE[status.key].get(event.commit)\n\n    if cached and cached.state != 'FAILED':")
mut('C17', 'shortcut-accepts-inprogress', GITHUB,
    "        if status and status.state == 'SUCCESSFUL':\n            return status.state",
    "        if status and status.state in ('SUCCESSFUL', 'INPROGRESS'):\n            return status.state")
mut('C17', 'bb-shortcut-any-cached', BITBUCKET,
    "        if cached and cached.state == 'SUCCESSFUL':\n            LOG.debug('Build on %s: cache GET (%s)', revision, cached.state)\n            return cached.state",
    "        if cached:\n            LOG.debug('Build on %s: cache GET (%s)', revision, cached.state)\n            return cached.state")
mut('C17', 'bb-poll-unguarded-after-url', BITBUCKET,
    "        status = cache.BUILD_STATUS_CACHE[key].get(revision, None)\n        if status is not None:\n            return status.url\n",
    "        status = cache.BUILD_STATUS_CACHE[key].get(revision, None)\n        if status is not None and status.url:\n            return status.url\n")
mut('C17', 'empty-after-success', GITHUB,
    "        if branch_workflow_runs.__len__() == 0:\n            return 'NOTSTARTED'\n        elif (self.is_pending(branch_workflow_runs) or\n              self.is_queued(branch_workflow_runs) or not all_complete):\n            return 'INPROGRESS'\n        elif all_complete and all_success:\n            return 'SUCCESSFUL'",
    "        if all_complete and all_success:\n            return 'SUCCESSFUL'\n        elif branch_workflow_runs.__len__() == 0:\n            return 'NOTSTARTED'\n        elif (self.is_pending(branch_workflow_runs) or\n              self.is_queued(branch_workflow_runs) or not all_complete):\n            return 'INPROGRESS'")
mut('C17', 'queued-ignored', GITHUB,
    "        elif (self.is_pending(branch_workflow_runs) or\n              self.is_queued(branch_workflow_runs) or not all_complete):",
    "        elif (self.is_pending(branch_workflow_runs) or not all_complete):")
mut('C17', 'all-success-any', GITHUB,
    "        all_success = all(\n            elem['conclusion'] == 'success'",
    "        all_success = any(\n            elem['conclusion'] == 'success'")
mut('C17', 'dispatch-filter-inverted', GITHUB,
    "            lambda elem: elem['event'] != 'workflow_dispatch',",
    "            lambda elem: elem['event'] == 'workflow_dispatch',")
mut('C17', 'none-above-success', GITHUB,
    "            'success': 4, None: 3, 'failure': 2, 'cancelled': 1",
    "            'success': 3, None: 4, 'failure': 2, 'cancelled': 1")
mut('C17', 'replacement-ge', GITHUB,
    "                    conclusion_ranking[conclusion] >\n                    conclusion_ranking",
    "                    conclusion_ranking[conclusion] <\n                    conclusion_ranking")
mut('C17', 'precedence-failed-first', GITHUB,
    "        if 'SUCCESSFUL' in status:\n            return 'SUCCESSFUL'\n        elif 'INPROGRESS' in status:\n            return 'INPROGRESS'\n        elif 'FAILED' in status:\n            return 'FAILED'",
    "        if 'FAILED' in status:\n            return 'FAILED'\n        elif 'SUCCESSFUL' in status:\n            return 'SUCCESSFUL'\n        elif 'INPROGRESS' in status:\n            return 'INPROGRESS'")
mut('C17', 'no-filter-before-grouping', GITHUB,
    "        self.remove_unwanted_workflows()\n        res = [list(v)",
    "        res = [list(v)")
mut('C17', 'lru-evicts-newest', LRU,
    "            while len(self._dict) > self._size - 1:\n                self._dict.popitem(last=False)",
    "            while len(self._dict) > self._size - 1:\n                self._dict.popitem(last=True)")
mut('C17', 'lru-get-no-refresh', LRU,
    "            self._dict.move_to_end(key)\n            return self._dict[key]",
    "            return self._dict[key]")
mut('C17', 'cache-cleared-per-job', BERTE,
    "        self.git_repo.reset()\n        try:\n            return self.dispatch(job)",
    "        self.git_repo.reset()\n        self.project_repo.invalidate_build_status_cache()\n        try:\n            return self.dispatch(job)")
mut('C17', 'notstarted-for-any-error', BITBUCKET,
    "        except HTTPError as e:\n            if e.response.status_code == 404:\n                return 'NOTSTARTED'\n            raise\n        else:\n            return cache.BUILD_STATUS_CACHE[key].set(revision, status).state",
    "        except HTTPError as e:\n            return 'NOTSTARTED'\n        else:\n            return cache.BUILD_STATUS_CACHE[key].set(revision, status).state")
mut('C17', 'grouping-by-workflow', GITHUB,
    "            lambda elem: elem['head_branch']\n        )]",
    "            lambda elem: elem['workflow_id']\n        )]")

# ------------------------------------------------------------------- C16
mut('C16', 'fix-reverted-print-headers', GITHUB,
    "            'Accept': self.accept_header,\n        }\n        response = self.session.post(url, headers=headers)",
    "            'Accept': self.accept_header,\n        }\n        print(headers)\n        response = self.session.post(url, headers=headers)")
mut('C16', 'fix-reverted-from-err-timeout', SIMPLECMD,
    "                \"Command %s timed out.\" % mask_pwd(command)) from None",
    "                \"Command %s timed out.\" % mask_pwd(command)) from err")
mut('C16', 'fix-reverted-from-err-generic', SIMPLECMD,
    "            raise CommandError(mask_pwd(str(err))) from None",
    "            raise CommandError(mask_pwd(str(err))) from err")
mut('C16', 'implicit-context', SIMPLECMD,
    "            raise CommandError(mask_pwd(str(err))) from None",
    "            raise CommandError(mask_pwd(str(err)))")
mut('C16', 'unmasked-debug-command', SIMPLECMD,
    "        LOG.debug('[%s] %s', kwargs.get('cwd', os.getcwd()), mask_pwd(command))",
    "        LOG.debug('[%s] %s', kwargs.get('cwd', os.getcwd()), command)")
mut('C16', 'unmasked-error-message', SIMPLECMD,
    "                    (mask_pwd(command), proc.returncode, output)",
    "                    (command, proc.returncode, output)")
mut('C16', 'unmasked-output', SIMPLECMD,
    "            output = mask_pwd(output)\n", "")
mut('C16', 'unmasked-generic-error', SIMPLECMD,
    "            raise CommandError(mask_pwd(str(err))) from None",
    "            raise CommandError(str(err)) from None")
mut('C16', 'log-url-in-clone', GIT,
    "        repo_slug = self._url.split('/')[-1].replace('.git', '')\n",
    "        repo_slug = self._url.split('/')[-1].replace('.git', '')\n        LOG.debug('cloning %s', self._url)\n")
mut('C16', 'url-in-exception', GIT,
    "            raise PushFailedException(name) from err",
    "            raise PushFailedException('%s -> %s' % (name, self._url)) from err")
mut('C16', 'log-headers', GITHUB,
    "        url = self._patch_url(url)\n        response = self.session.put(url, **kwargs)",
    "        url = self._patch_url(url)\n        LOG.debug('PUT %s %s', url, self.headers)\n        response = self.session.put(url, **kwargs)")
mut('C16', 'log-token', GITHUB,
    "        response.raise_for_status()\n        return response.json()['token']",
    "        response.raise_for_status()\n        LOG.info('new installation token %s', response.json()['token'])\n        return response.json()['token']")
mut('C16', 'mask-not-passed', GIT,
    "        kwargs.setdefault('mask_pwd', self._mask_pwd)\n", "")
mut('C16', 'quote-mismatch', BERTE,
    "            mask_pwd=quote_plus(settings.robot_password)",
    "            mask_pwd=settings.robot_password")
mut('C16', 'as-dict-all-settings', JOB,
    "            'settings': self.settings.maps[0]",
    "            'settings': dict(self.settings._wrapped)")
mut('C16', 'jira-token-in-error', 'bert_e/workflow/gitwaterflow/jira.py',
    "        raise\n\n\ndef check_issue_reference",
    "        LOG.error('jira lookup failed with token %s', job.settings.jira_token)\n        raise\n\n\ndef check_issue_reference")
mut('C16', 'password-in-job-details', BERTE,
    "                job.details = str(err)\n            elif",
    "                job.details = '%s (%s)' % (err, self.git_repo._url)\n            elif")
mut('C16', 'comment-with-url', INTEG,
    "    if len(wbranches) > 1:\n        notify_user(",
    "    if len(wbranches) > 1:\n        job.pull_request.add_comment('pushed to %s' % job.git.repo._url)\n        notify_user(")
mut('C16', 'mask-is-noop', SIMPLECMD,
    "    def mask_pwd(data):\n        return data.replace(pwd, '***') if pwd else data\n\n    kwargs.update",
    "    def mask_pwd(data):\n        return data\n\n    kwargs.update")
mut('C16', 'basic-auth-logged', AUTH,
    "        auth = request.authorization\n",
    "        auth = request.authorization\n        LOG_ = __import__('logging').getLogger(__name__)\n        LOG_.info('webhook auth %s:%s', auth.username, auth.password)\n")
eq(['C16'], 'log-slug-only', GIT,
   "        top = os.path.expanduser('~/.bert-e/')",
   "        LOG.debug('slug %s', repo_slug)\n        top = os.path.expanduser('~/.bert-e/')")
eq(['C16'], 'log-masked-url', GIT,
   "        top = os.path.expanduser('~/.bert-e/')",
   "        LOG.debug('url %s', self._url.replace(self._mask_pwd, '***'))\n        top = os.path.expanduser('~/.bert-e/')")

# ------------------------------------------------------------------- C13
mut('C13', 'dedupe-against-current', BERTE,
    "        if job not in self.task_queue.queue:",
    "        if job not in list(self.task_queue.queue) + [self.status.get('current job')]:")
mut('C13', 'dedupe-against-done', BERTE,
    "        if job not in self.task_queue.queue:",
    "        if job not in self.task_queue.queue and job not in self.tasks_done:")
mut('C13', 'handler-narrowed', BERTE,
    "            self.process(job)\n        except Exception as err:",
    "            self.process(job)\n        except BertE_Exception as err:")
mut('C13', 'handler-reraises', BERTE,
    "                job.details = str(err)\n            elif",
    "                job.details = str(err)\n                raise\n            elif")
mut('C13', 'pop-outside-finally', BERTE,
    "            self.tasks_done.appendleft(job)\n            self.status.pop('current job')\n        return job",
    "            self.tasks_done.appendleft(job)\n        self.status.pop('current job')\n        return job")
mut('C13', 'task-done-dropped', BERTE,
    "            job.complete()\n            self.task_queue.task_done()\n",
    "            job.complete()\n")
mut('C13', 'status-only-for-unknown', BERTE,
    "            job.status = type(err).__name__\n            job.details = None\n\n            if not isinstance",
    "            job.details = None\n\n            if not isinstance")
mut('C13', 'commit-eq-ignores-sha', JOB,
    "                self.project_repo.full_name == other.project_repo.full_name and\n                self.commit == other.commit)",
    "                self.project_repo.full_name == other.project_repo.full_name)")
mut('C13', 'pr-eq-by-status', JOB,
    "                self.pull_request.id == other.pull_request.id)",
    "                self.pull_request.id == other.pull_request.id and\n                self.status == other.status)")
mut('C13', 'queues-job-deduped', JOB,
    "    def __str__(self):\n        return \"QueuesJob\"",
    "    def __str__(self):\n        return \"QueuesJob\"\n\n    def __eq__(self, other):\n        return isinstance(other, QueuesJob)")
mut('C13', 'sys-exit-in-handler', DELQ,
    "    if not job.settings.use_queue:\n        raise exceptions.NotMyJob()\n\n    repo = clone_git_repo(job)\n\n    # Delete all q/* branches.",
    "    if not job.settings.use_queue:\n        import sys\n        sys.exit(1)\n\n    repo = clone_git_repo(job)\n\n    # Delete all q/* branches.")
mut('C13', 'raise-system-exit', GWF,
    "    if not candidates:\n        raise messages.NothingToDo(\n            'Could not find any branch for commit {}' .format(job.commit)\n        )",
    "    if not candidates:\n        raise SystemExit(0)")
mut('C13', 'worker-loop-breaks', SERVER,
    "        while True:\n            bert_e.process_task()",
    "        while True:\n            if bert_e.process_task().status == 'JobFailure':\n                break")
mut('C13', 'github-202-without-put', WEBHOOK,
    "    current_app.bert_e.put_job(job)\n    return Response('Accepted', 202)",
    "    if not isinstance(job, CommitJob):\n        current_app.bert_e.put_job(job)\n    return Response('Accepted', 202)")
mut('C13', 'api-202-without-put', APIBASE,
    "        current_app.bert_e.put_job(job)\n\n        return Response(job.as_json(), 202",
    "        if not self.admin:\n            current_app.bert_e.put_job(job)\n\n        return Response(job.as_json(), 202")
mut('C13', 'bounded-queue', BERTE,
    "        self.task_queue = Queue()", "        self.task_queue = Queue(maxsize=10)")
mut('C13', 'put-nowait', BERTE,
    "            self.task_queue.put(job)", "            self.task_queue.put(job, block=False)")
mut('C13', 'handler-calls-notify', BERTE,
    "                LOG.exception(\"Job '%s' finished with an error.\", job)\n",
    "                LOG.exception(\"Job '%s' finished with an error.\", job)\n                job.pull_request.add_comment(str(err))\n")

# ------------------------------------------------------------------- C14
mut('C14', 'delete-queues-not-admin', APIQ,
    "    method = 'DELETE'\n    admin = True", "    method = 'DELETE'\n    admin = False")
mut('C14', 'create-branch-not-admin', APIBR,
    "    method = 'POST'\n    admin = True\n    job = CreateBranchJob",
    "    method = 'POST'\n    admin = False\n    job = CreateBranchJob")
mut('C14', 'auth-wrapper-dropped', APIBASE,
    "        view = auth_decorator(cls.as_view(cls.__name__))",
    "        view = cls.as_view(cls.__name__)")
mut('C14', 'auth-wrapper-literal-false', APIBASE,
    "        auth_decorator = requires_auth(cls.admin)",
    "        auth_decorator = requires_auth()")
mut('C14', 'admin-check-skipped', AUTH,
    "            if admin and not user_admin:\n                return unauthorized('You do not have admin privileges.')\n\n",
    "")
mut('C14', 'admin-check-inverted', AUTH,
    "            if admin and not user_admin:", "            if not admin and not user_admin:")
mut('C14', 'login-check-dropped', AUTH,
    "            if not session.get('user'):\n                return authenticate('You are not logged in.')\n\n",
    "")
mut('C14', 'session-admin-always', AUTH,
    "    session['admin'] = user in bert_e.settings.admins",
    "    session['admin'] = True")
mut('C14', 'session-admin-elsewhere', AUTH,
    "        access_token = request.args.get('access_token')\n        if access_token:",
    "        access_token = request.args.get('access_token')\n        if request.args.get('admin'):\n            session['admin'] = True\n        if access_token:")
mut('C14', 'basic-auth-above-route', WEBHOOK,
    "@blueprint.route('/github', methods=['POST'])\n@requires_basic_auth\ndef parse_github_webhook():",
    "@requires_basic_auth\n@blueprint.route('/github', methods=['POST'])\ndef parse_github_webhook():")
mut('C14', 'basic-auth-removed', WEBHOOK,
    "@blueprint.route('/bitbucket', methods=['POST'])\n@requires_basic_auth\n",
    "@blueprint.route('/bitbucket', methods=['POST'])\n")
mut('C14', 'basic-auth-or', AUTH,
    "    return username == current_app.config['WEBHOOK_LOGIN'] and \\\n        password == current_app.config['WEBHOOK_PWD']",
    "    return username == current_app.config['WEBHOOK_LOGIN'] or \\\n        password == current_app.config['WEBHOOK_PWD']")
mut('C14', 'basic-auth-missing-ok', AUTH,
    "        if not auth or not check_basic_auth(auth.username, auth.password):",
    "        if auth and not check_basic_auth(auth.username, auth.password):")
mut('C14', 'slug-check-removed', WEBHOOK,
    "    if repo_slug != current_app.bert_e.project_repo.slug:\n        LOG.error('received repo_slug (%s) incompatible with settings',\n                  repo_slug)\n        return Response('Internal Server Error', 500)\n\n",
    "")
mut('C14', 'github-fullname-only-logged', WEBHOOK,
    "                  current_app.bert_e.project_repo.full_name)\n        return Response('Internal Server Error', 500)\n",
    "                  current_app.bert_e.project_repo.full_name)\n")
mut('C14', 'validation-call-removed', APIBASE,
    "        try:\n            self.validate_endpoint_data(*args, **kwargs, json=json)\n        except ValueError:\n            return invalid()\n\n",
    "")
mut('C14', 'validation-error-swallowed', APIBASE,
    "        except ValueError:\n            return invalid()",
    "        except ValueError:\n            LOG.warning('invalid data')")
mut('C14', 'hotfix-alt-unanchored', APIBR,
    "|^hotfix/(\\d+)\\.(\\d+)\\.(\\d+)$'  # noqa", "|^hotfix/(\\d+)\\.(\\d+)\\.(\\d+)'  # noqa")
mut('C14', 'branch-from-any', APIBR,
    "BRANCH_FROM_REGEXP = r'^[a-fA-F0-9]*$|^development/(\\d+)\\.(\\d+)$'",
    "BRANCH_FROM_REGEXP = r'^[a-fA-F0-9]*|^development/(\\d+)\\.(\\d+)$'")
mut('C14', 'pr-id-zero-ok', APIPR,
    "        if pr_id < 1:", "        if pr_id < 0:")
mut('C14', 'delete-branch-no-validation', APIBR,
    "    job = DeleteBranchJob\n\n    @staticmethod\n    def validate_endpoint_data(branch, json):\n        if not re.match(BRANCH_REGEXP, branch):\n            raise ValueError()\n",
    "    job = DeleteBranchJob\n")
mut('C14', 'open-view-enqueues', 'bert_e/server/status.py',
    "    build_key = current_app.bert_e.settings.build_key\n",
    "    build_key = current_app.bert_e.settings.build_key\n    if request.args.get('rebuild'):\n        from ..jobs.rebuild_queues import RebuildQueuesJob\n        current_app.bert_e.put_job(RebuildQueuesJob(bert_e=current_app.bert_e))\n")
mut('C14', 'manage-unauthenticated', MANAGE,
    "@blueprint.route('/manage', methods=['GET'], defaults={'error': None})\n@requires_auth()\n",
    "@blueprint.route('/manage', methods=['GET'], defaults={'error': None})\n")
mut('C14', 'endpoint-registered-by-hand', APIINIT,
    "    for form in FORMS:\n        app.register_blueprint(form.as_blueprint())",
    "    for form in FORMS:\n        app.register_blueprint(form.as_blueprint())\n    from flask import Blueprint\n    bp = Blueprint('raw', __name__, url_prefix='/api')\n    bp.add_url_rule('/raw/queues', methods=('DELETE',),\n                    view_func=DeleteQueues.as_view('raw'))\n    app.register_blueprint(bp)")
mut('C14', 'job-user-from-json', APIBASE,
    "        job = self.job(kwargs=kwargs, user=user,\n                       settings=json, bert_e=current_app.bert_e)",
    "        job = self.job(kwargs=json, user=user,\n                       settings=json, bert_e=current_app.bert_e)")
eq(['C14'], 'form-admin-overridden-by-init-subclass', APIQ,
    "    endpoint_cls = DeleteQueues\n    title = 'Delete the queue'",
    "    endpoint_cls = DeleteQueues\n    admin = False\n    title = 'Delete the queue'")

# ------------------------------------------------------------------- C15
mut('C15', 'force-ignored', COMMANDS,
    "    if lossy_reset and not force:\n        raise lossy_reset",
    "    if lossy_reset and force:\n        raise lossy_reset")
mut('C15', 'refusal-dropped', COMMANDS,
    "    if lossy_reset and not force:\n        raise lossy_reset\n\n", "")
mut('C15', 'destruction-before-refusal', COMMANDS,
    "    if lossy_reset and not force:\n        raise lossy_reset\n\n    wprs = job.project_repo.get_pull_requests(\n        src_branch=[b.name for b in wbranches]\n    )\n    for branch in wbranches:\n        branch.remove(do_push=False)\n",
    "    wprs = job.project_repo.get_pull_requests(\n        src_branch=[b.name for b in wbranches]\n    )\n    for branch in wbranches:\n        branch.remove(do_push=False)\n    if lossy_reset and not force:\n        raise lossy_reset\n\n")
mut('C15', 'reset-forces', COMMANDS,
    "    _reset(job, force=False)", "    _reset(job, force=True)")
# (both commands pass force explicitly: the default is never used, so a
# different default changes nothing -- an equivalent, not a mutant; the
# earlier rule "force defaults to False" asked for more than the property)
eq(['C15'], 'reset-default-force-unused', COMMANDS,
   "def _reset(job, force=False):", "def _reset(job, force=True):")
mut2('C15', 'reset-default-force-used', [
    (COMMANDS, "def _reset(job, force=False):",
     "def _reset(job, force=True):"),
    (COMMANDS, "    _reset(job, force=False)", "    _reset(job)")])
mut('C15', 'declines-parent-too', COMMANDS,
    "        src_branch=[b.name for b in wbranches]\n    )\n    for branch in wbranches:",
    "        src_branch=[b.name for b in wbranches] + [job.pull_request.src_branch]\n    )\n    for branch in wbranches:")
mut('C15', 'removes-all-w', INTEG,
    "    for dst in job.git.cascade.dst_branches:\n        name = \"w/{}/{}\".format(dst.version, src)\n        branch = branch_factory(job.git.repo, name)\n        branch.src_branch, branch.dst_branch = src, dst\n        if branch.exists():\n            yield branch\n",
    "    for dst in job.git.cascade.dst_branches:\n        for name in job.git.repo.remote_branches:\n            if not name.startswith('w/%s/' % dst.version):\n                continue\n            branch = branch_factory(job.git.repo, name)\n            branch.src_branch, branch.dst_branch = src, dst\n            if branch.exists():\n                yield branch\n")
mut('C15', 'robot-filter-dropped', COMMANDS,
    "            if rev.author == job.settings.robot:\n                continue\n\n", "")
mut('C15', 'merge-commits-ignored', COMMANDS,
    "            if len(rev.parents) == 1:\n                parent = rev.parents[0]",
    "            if len(rev.parents) != 1:\n                continue\n            if len(rev.parents) == 1:\n                parent = rev.parents[0]")
mut('C15', 'warning-only-last-branch', COMMANDS,
    "    lossy_reset = None\n    for branch in wbranches:\n        src, dst = branch.src_branch, branch.dst_branch\n",
    "    for branch in wbranches:\n        lossy_reset = None\n        src, dst = branch.src_branch, branch.dst_branch\n")
mut('C15', 'reset-returns', COMMANDS,
    "    if not wbranches:\n        raise ResetComplete(couldnt_decline=[],\n                            active_options=job.active_options)",
    "    if not wbranches:\n        return")
mut('C15', 'source-branch-removed', COMMANDS,
    "    push(job.git.repo, prune=True)\n\n    # decline integration pull requests:",
    "    job.git.src_branch.remove(force=True)\n    push(job.git.repo, prune=True)\n\n    # decline integration pull requests:")
mut('C15', 'parent-in-wrong-set', COMMANDS,
    "                if parent in feature or dst.includes_commit(parent):",
    "                if parent in feature or branch.includes_commit(parent):")
mut('C15', 'reset-bound-to-force', COMMANDS,
    "@Reactor.command\ndef reset(job, *args):",
    "@Reactor.command('soft_reset')\ndef reset(job, *args):")

# ------------------------------------------------------------------- C19
mut('C19', 'branch-always-created', INTEG,
    "        if not branch.exists():\n            branch.create(dst, do_push=False)\n        yield branch",
    "        branch.create(dst, do_push=False)\n        yield branch")
mut('C19', 'pr-always-created', BRANCHES,
    "        created = False\n        if not pr:\n            description",
    "        created = False\n        if not pr or parent_pr.id:\n            description")
mut('C19', 'pr-match-ignores-dst', BRANCHES,
    "            if self.dst_branch and \\\n                    pr.dst_branch != \\\n                    self.dst_branch.name:\n                continue\n            return pr",
    "            return pr")
mut('C19', 'pr-match-ignores-src', BRANCHES,
    "            if pr.src_branch != self.name:\n                continue\n",
    "")
mut('C19', 'open-prs-any-status', INTEG,
    "        ) if pr.status == 'OPEN']", "        )]")
mut('C19', 'removal-only-after-a-decline', GWF,
    "                changed = True\n                break\n        wbranch = branch_factory(job.git.repo, name)",
    "                changed = True\n                break\n        else:\n            continue\n        wbranch = branch_factory(job.git.repo, name)")
mut('C19', 'robot-redirect-removed', GWF,
    "    if job.pull_request.author == job.settings.robot:\n        return handle_parent_pull_request(job, job.pull_request)\n    try:",
    "    try:")
mut('C19', 'decline-without-src-test', GWF,
    "            if (pr.status == 'OPEN' and\n                    pr.src_branch == name and\n                    pr.dst_branch == dst_branch.name):",
    "            if (pr.status == 'OPEN' and\n                    pr.dst_branch == dst_branch.name):")
mut('C19', 'builder-differs', GWF,
    "    wbranch_names = ['w/{}/{}'.format(b.version, src_branch)\n                     for b in dst_branches]",
    "    wbranch_names = ['w/{}/{}'.format(src_branch, b.version)\n                     for b in dst_branches]")
mut('C19', 'ghost-creates-pr', BRANCHES,
    "    def get_or_create_pull_request(self, parent_pr, open_prs, bitbucket_repo):\n        return self.get_pull_request_from_list(open_prs), False\n",
    "")
mut('C19', 'parent-id-last-number', GWF,
    "        parent_id, *_ = ids", "        *_, parent_id = ids")
mut('C19', 'commit-newest-pr', GWF,
    "    pr = min(prs, key=lambda pr: pr.id)", "    pr = max(prs, key=lambda pr: pr.id)")
mut('C19', 'queue-redirect-always', GWF,
    "        if any(isinstance(b, QueueBranch) for b in candidates):\n            return queueing.handle_merge_queues",
    "        if candidates:\n            return queueing.handle_merge_queues")
mut('C19', 'declined-continues', GWF,
    "    if changed:\n        push(job.git.repo, prune=True)\n        raise messages.PullRequestDeclined()\n    else:\n        raise messages.NothingToDo()",
    "    if changed:\n        push(job.git.repo, prune=True)\n        raise messages.PullRequestDeclined()")
mut('C19', 'declined-cleanup-always', GWF,
    "    if job.pull_request.status == 'DECLINED':\n        handle_declined_pull_request(job)",
    "    if job.pull_request.status != 'OPEN' or job.settings.wait:\n        handle_declined_pull_request(job)")
mut('C19', 'merge-removes-first', INTEG,
    "    for wbranch in children:\n        try:\n            wbranch.remove()",
    "    for wbranch in wbranches:\n        try:\n            wbranch.remove()")
mut('C19', 'child-pr-wrong-target', BRANCHES,
    "                dst_branch=self.dst_branch.name,\n                close_source_branch=True,",
    "                dst_branch=parent_pr.dst_branch,\n                close_source_branch=True,")
mut('C19', 'title-without-parent', BRANCHES,
    "        title = 'INTEGRATION [PR#%s > %s] %s' % (\n            parent_pr.id, self.dst_branch.name, parent_pr.title\n        )",
    "        title = 'INTEGRATION [PR#%s > %s] %s' % (\n            self.name, self.dst_branch.name, parent_pr.title\n        )")

# ------------------------------------------------------------------- C20
mut('C20', 'archive-tag-test-removed', CREATE,
    "    if new_branch.version in repo.cmd('git tag').split('\\n')[:-1]:\n        raise exceptions.JobFailure('Cannot create branch %r because there is '\n                                    'already an archive tag %r in the '\n                                    'repository.' %\n                                    (new_branch, new_branch.version))\n",
    "")
mut('C20', 'validate-after-push', CREATE,
    "    try:\n        new_cascade = BranchCascade()\n        new_cascade.build(job.git.repo)\n        new_cascade.validate()\n    except exceptions.BertE_Exception as excp:\n        raise exceptions.JobFailure('Requested new branch %r does not '\n                                    'conform to GWF rules (%s).' %\n                                    (new_branch, excp.__class__.__name__))\n\n    try:\n        push(repo, branches=[new_branch])\n    except CommandError:\n        raise exceptions.JobFailure('Unable to push new branch, '\n                                    'keep pushing.')\n",
    "    try:\n        push(repo, branches=[new_branch])\n    except CommandError:\n        raise exceptions.JobFailure('Unable to push new branch, '\n                                    'keep pushing.')\n    try:\n        new_cascade = BranchCascade()\n        new_cascade.build(job.git.repo)\n        new_cascade.validate()\n    except exceptions.BertE_Exception as excp:\n        raise exceptions.JobFailure('Requested new branch %r does not '\n                                    'conform to GWF rules (%s).' %\n                                    (new_branch, excp.__class__.__name__))\n")
mut('C20', 'queued-pr-test-removed', CREATE,
    "        if queue_collection.queued_prs:\n            raise exceptions.JobFailure('Requested new branch %r cannot be '\n                                        'created now due to queued data.' %\n                                        new_branch)\n",
    "        LOG.debug(queue_collection.queued_prs)\n")
mut('C20', 'queued-pr-test-narrowed', CREATE,
    "    if (job.settings.use_queue and\n            not isinstance(new_branch, StabilizationBranch) and\n            not isinstance(new_branch, HotfixBranch) and\n            new_branch < dev_branches[-1]):\n        queue_collection",
    "    if (job.settings.use_queue and job.settings.interactive and\n            not isinstance(new_branch, StabilizationBranch) and\n            not isinstance(new_branch, HotfixBranch) and\n            new_branch < dev_branches[-1]):\n        queue_collection")
mut('C20', 'tag-push-after-delete', DELETE,
    "        repo.cmd('git push origin %s' % archive_tag)\n    except CommandError:\n        raise exceptions.JobFailure('Unable to push new tag, '\n                                    'keep pushing.')\n\n    do_delete(del_branch, force=True)\n",
    "    except CommandError:\n        raise exceptions.JobFailure('Unable to push new tag, '\n                                    'keep pushing.')\n\n    do_delete(del_branch, force=True)\n    repo.cmd('git push origin %s' % archive_tag)\n")
mut('C20', 'queued-read-after-removal', REBUILD,
    "    queued_prs = queue_collection.queued_prs\n    LOG.debug('Currently queued PRs: %s', queued_prs)\n",
    "")
mut('C20', 'use-queue-guard-removed', REBUILD,
    "    if not job.settings.use_queue:\n        raise exceptions.NotMyJob()\n    repo = clone_git_repo(job)",
    "    repo = clone_git_repo(job)")
mut('C20', 'stab-check-removed', DELETE,
    "        if any([b.startswith(stab_prefix) for b in repo.remote_branches]):\n            raise exceptions.JobFailure('Cannot delete branch %r because '\n                                        'there is an active stabilization '\n                                        'branch in the repository.' %\n                                        del_branch)\n",
    "        LOG.debug(stab_prefix)\n")
mut('C20', 'queued-data-check-after-queue-delete', DELETE,
    "        queue_collection = build_queue_collection(job)\n        if queue_collection.has_version_queued_prs(del_branch.version_t):\n            raise exceptions.JobFailure('Requested branch %r cannot be '\n                                        'deleted now due to queued data.' %\n                                        del_branch)\n\n        # delete local q branch\n        del_queue = QueueBranch(repo, 'q/%s' % del_branch.version)\n        do_delete(del_queue)\n",
    "        # delete local q branch\n        del_queue = QueueBranch(repo, 'q/%s' % del_branch.version)\n        do_delete(del_queue)\n        queue_collection = build_queue_collection(job)\n        if queue_collection.has_version_queued_prs(del_branch.version_t):\n            raise exceptions.JobFailure('Requested branch %r cannot be '\n                                        'deleted now due to queued data.' %\n                                        del_branch)\n\n")
mut('C20', 'rebuild-reversed', REBUILD,
    "    for pr_id in queued_prs:", "    for pr_id in reversed(queued_prs):")
mut('C20', 'rebuild-skips-some', REBUILD,
    "    for pr_id in queued_prs:\n        job.bert_e.put_job(",
    "    for pr_id in queued_prs:\n        if pr_id in job.bert_e.status.get('merged PRs', []):\n            continue\n        job.bert_e.put_job(")
mut('C20', 'rebuild-before-push', REBUILD,
    "    push(repo, prune=True)\n    LOG.debug('Queues deleted, waking PRs up')\n\n    # Trigger Bert-E on all previously queued PRs to rebuild the queue.\n    for pr_id in queued_prs:\n        job.bert_e.put_job(\n            PullRequestJob(\n                bert_e=job.bert_e,\n                pull_request=job.project_repo.get_pull_request(pr_id)\n            )\n        )\n",
    "    for pr_id in queued_prs:\n        job.bert_e.put_job(\n            PullRequestJob(\n                bert_e=job.bert_e,\n                pull_request=job.project_repo.get_pull_request(pr_id)\n            )\n        )\n    push(repo, prune=True)\n")
mut('C20', 'delete-queues-all-w', DELQ,
    "        if b.startswith('q/')\n    ]", "        if b.startswith('q/') or b.startswith('w/')\n    ]")
mut('C20', 'force-merge-not-forced', FORCE,
    "    handle_merge_queues(QueuesJob(bert_e=job.bert_e, force_merge=True))",
    "    handle_merge_queues(QueuesJob(bert_e=job.bert_e))")
mut('C20', 'exists-check-removed', CREATE,
    "    if job.settings.branch in repo.remote_branches:\n        raise exceptions.NothingToDo()\n", "")
mut('C20', 'branching-point-unchecked', CREATE,
    "        if not dev_branches[-1].includes_commit(job.settings.branch_from):\n            raise exceptions.JobFailure('Provided branching point %r is not '\n                                        'included in latest development '\n                                        'branch.' % job.settings.branch_from)\n",
    "        pass\n")
mut('C20', 'delete-nonexistent-continues', DELETE,
    "    if job.settings.branch not in repo.remote_branches:\n        raise exceptions.NothingToDo()\n", "")
mut('C20', 'push-before-checks', CREATE,
    "    cascade = BranchCascade()\n    cascade.build(job.git.repo)\n    dev_branches = cascade.get_development_branches()\n",
    "    cascade = BranchCascade()\n    cascade.build(job.git.repo)\n    dev_branches = cascade.get_development_branches()\n    push(repo, prune=False)\n")

# ------------------------------------------------------------- C09 (partial)
mut('C09', 'major-only-sorts-first', BRANCHES,
    "        if minor1 is None:\n            return 1\n        if minor2 is None:\n            return -1",
    "        if minor1 is None:\n            return -1\n        if minor2 is None:\n            return 1")
mut('C09', 'major-compared-last', BRANCHES,
    "        return minor1 - minor2\n    return major1 - major2",
    "        return minor1 - minor2\n    return major2 - major1")
mut('C09', 'dev-lt-major-only', BRANCHES,
    "        if self.minor is None:\n            # development/<major> is greater than development/<major>.<minor>\n            return False",
    "        if self.minor is None:\n            # development/<major> is greater than development/<major>.<minor>\n            return True")
mut('C09', 'stab-queue-after-dev', BRANCHES,
    "        if len(v1) == 3 and len(v2) == 2:\n            return -1\n        elif len(v2) == 3 and len(v1) == 2:\n            return 1",
    "        if len(v1) == 3 and len(v2) == 2:\n            return 1\n        elif len(v2) == 3 and len(v1) == 2:\n            return -1")
mut('C09', 'duplicate-stab-accepted', BRANCHES,
    "        if cur_branch:\n            raise errors.UnsupportedMultipleStabBranches(cur_branch, branch)\n\n",
    "")
mut('C09', 'duplicate-only-for-stab', BRANCHES,
    "        if cur_branch:\n            raise errors.UnsupportedMultipleStabBranches(cur_branch, branch)",
    "        if cur_branch and branch.__class__ is DevelopmentBranch:\n            raise errors.UnsupportedMultipleStabBranches(cur_branch, branch)")
mut('C09', 'any-hotfix-admitted', BRANCHES,
    "                if branch.major != dst_branch.major or \\\n                   branch.minor != dst_branch.minor or \\\n                   branch.micro != dst_branch.micro:",
    "                if branch.major != dst_branch.major or \\\n                   branch.minor != dst_branch.minor:")
mut('C09', 'hotfix-admitted-for-dev-dst', BRANCHES,
    "                    # this is not the hotfix branch we want to add\n                    return\n            else:\n                return\n",
    "                    # this is not the hotfix branch we want to add\n                    return\n")
mut('C09', 'released-stab-lt', BRANCHES,
    "        if stb_branch is not None and stb_branch.micro <= micro:",
    "        if stb_branch is not None and stb_branch.micro < micro:")
mut('C09', 'stab-without-dev-accepted', BRANCHES,
    "            if dev_branch is None:\n                raise errors.DevBranchDoesNotExist(\n                    'development/%d.%d' % (major, minor))\n\n            if stb_branch:\n                if dev_branch.micro + 1",
    "            if dev_branch is None:\n                continue\n\n            if stb_branch:\n                if dev_branch.micro + 1")
mut('C09', 'version-mismatch-dropped', BRANCHES,
    "                if dev_branch.micro + 1 != stb_branch.micro:\n                    raise errors.VersionMismatch(dev_branch, stb_branch)\n\n",
    "")
mut('C09', 'stab-and-dev-both-contribute', BRANCHES,
    "            if stb_branch:\n                self.target_versions.append('%d.%d.%d' % (\n                    major, minor, stb_branch.micro))\n            elif dev_branch and dev_branch.has_minor is True:",
    "            if stb_branch:\n                self.target_versions.append('%d.%d.%d' % (\n                    major, minor, stb_branch.micro))\n            if dev_branch and dev_branch.has_minor is True:")
mut('C09', 'hotfix-version-for-any-dst', BRANCHES,
    "            if hf_branch and dst_branch.name.startswith('hotfix/'):\n                self.target_versions.append",
    "            if hf_branch:\n                self.target_versions.append")
mut('C09', 'stab-offset-ignored', BRANCHES,
    "                offset = 2 if dev_branch.has_stabilization else 1",
    "                offset = 1")
mut('C09', 'suffixed-tags-counted', BRANCHES,
    "                  r\"(\\.(?P<hfrev>\\d+)|)$\"", "                  r\"(\\.(?P<hfrev>\\d+)|)\"")
mut('C09', 'cascade-not-resorted', BRANCHES,
    "            self._cascade = OrderedDict(\n                sorted(self._cascade.items(), key=cmp_to_key(compare_branches))\n            )",
    "            self._cascade = OrderedDict(sorted(self._cascade.items(), key=lambda kv: (kv[0][0], kv[0][1] or 0)))")
mut('C03', 'merge-despite-empty-selection', QUEUE,
    "    if not queues.mergeable_prs:\n        failed_prs = queues.failed_prs\n        if not failed_prs:\n            raise exceptions.NothingToDo()\n        else:\n            notify_queue_build_failed(failed_prs, job)\n            raise exceptions.QueueBuildFailed()\n",
    "    if not queues.mergeable_prs:\n        failed_prs = queues.failed_prs\n        if failed_prs:\n            notify_queue_build_failed(failed_prs, job)\n")

# ------------------------------------- found by independent seeded changes
mut('C02', 'seed-masterq-sync-check-weakened', BRANCHES,
    "                if (masterq.get_latest_commit() !=\n                        masterq.dst_branch.get_latest_commit()):\n                    yield errors.MasterQueueNotInSync(masterq,",
    "                if not masterq.includes_commit(\n                        masterq.dst_branch.get_latest_commit()):\n                    yield errors.MasterQueueNotInSync(masterq,")
mut('C02', 'vertical-order-check-dropped', BRANCHES,
    "            if prs:\n                # after this algorithm prs should be empty\n                yield errors.QueueInconsistentPullRequestsOrder()\n            else:",
    "            if prs and hf_detected:\n                # after this algorithm prs should be empty\n                yield errors.QueueInconsistentPullRequestsOrder()\n            else:")
mut('C02', 'validate-skips-vertical', BRANCHES,
    "            errs.extend(self._vertical_validation(stack, versions))\n",
    "            self._vertical_validation(stack, versions)\n")
mut('C13', 'seed-handler-indexes-args', BERTE,
    "                job.details = str(err)\n            elif",
    "                job.details = str(err.args[0])\n            elif")
mut('C01', 'seed-octopus-arm-uses-first', INTEG,
    "            robust_merge(wbranch.dst_branch, prev.dst_branch, wbranch)",
    "            robust_merge(wbranch.dst_branch, first.dst_branch, wbranch)")
mut('C01', 'queue-octopus-arm-without-qint', QUEUE,
    "                robust_merge(qbranch, wbranch, qint)",
    "                robust_merge(qbranch, wbranch, to_push[-1])")
mut('C14', 'seed-body-overrides-url-params', JOB,
    "    def __init__(self, args=None, kwargs=None, **kwargs_):\n        super().__init__(**kwargs_)\n        self.args = args or []\n        self.kwargs = kwargs or {}\n        # append all kwargs to settings for future job reference\n        self.settings.update(self.kwargs)",
    "    def __init__(self, args=None, kwargs=None, settings=None, **kwargs_):\n        self.args = args or []\n        self.kwargs = kwargs or {}\n        settings = dict(self.kwargs, **(settings or {}))\n        super().__init__(settings=settings, **kwargs_)")
mut('C14', 'url-params-setdefault', JOB,
    "        self.settings.update(self.kwargs)",
    "        for k_, v_ in self.kwargs.items():\n            self.settings.setdefault(k_, v_)")
mut('C09', 'seed-latest-minor-forgets-tags', BRANCHES,
    "            minors.append(major_branch.latest_minor)\n\n            major_branch.latest_minor = max(minors)",
    "            if minors:\n                major_branch.latest_minor = max(minors)")
mut('C09', 'seed-hfrev-last-tag-wins', BRANCHES,
    "                hf_branch.hfrev = max(hfrev + 1, hf_branch.hfrev)",
    "                hf_branch.hfrev = hfrev + 1")
mut('C09', 'micro-last-tag-wins', BRANCHES,
    "            dev_branch.micro = max(micro, dev_branch.micro)",
    "            dev_branch.micro = micro")
mut('C03', 'seed-isneeded-zip-shifted', QUEUE,
    "    for branch, dst_branch in zip(wbranches, job.git.cascade.dst_branches):",
    "    for branch, dst_branch in zip(wbranches[1:],\n                                  job.git.cascade.dst_branches):")
mut('C03', 'seed-stab-version-t-removed', BRANCHES,
    "                  self.micro < other.micro)))\n\n    @property\n    def version_t(self):\n        return (self.major, self.minor, self.micro)\n",
    "                  self.micro < other.micro)))\n")
mut('C18', 'seed-version-t-truthiness', BRANCHES,
    "        if self.micro is not None:\n            if self.hfrev is not None:",
    "        if self.micro:\n            if self.hfrev:")
mut('C06', 'seed-update-skips-when-in-sync', INTEG,
    "        empty = not list(wbranch.get_commit_diff(wbranch.dst_branch))\n        try:",
    "        empty = not list(wbranch.get_commit_diff(wbranch.dst_branch))\n        if wbranch.includes_commit(source.get_latest_commit()):\n            return\n        try:")
mut('C06', 'seed-per-author-bypass-accumulates', SETTINGS,
    "                (key, key in bypass_list) for key in self.BYPASS_LIST",
    "                (key, key in found_elem) for key in self.BYPASS_LIST")
mut('C04', 'per-author-bypass-accumulates', SETTINGS,
    "                (key, key in bypass_list) for key in self.BYPASS_LIST",
    "                (key, key in found_elem) for key in self.BYPASS_LIST")
mut('C10', 'seed-init-settings-bulk-update', REACTOR,
    "        for key, option in self.get_options().items():\n            job.settings[key] = copy(option.default)",
    "        job.settings.update({key: option.default for key, option\n                             in self.get_options().items()})")
mut('C12', 'seed-declined-cleanup-returns', GWF,
    "        raise messages.PullRequestDeclined()\n    else:\n        raise messages.NothingToDo()",
    "        raise messages.PullRequestDeclined()\n    else:\n        LOG.debug('nothing to clean')\n        return")
mut('C15', 'seed-empty-wbranches-not-short-circuited', COMMANDS,
    "    if not wbranches:\n        raise ResetComplete(couldnt_decline=[],\n                            active_options=job.active_options)\n\n", "")
mut('C19', 'seed-declined-after-early-exits', GWF,
    "    if job.pull_request.status == 'DECLINED':\n        handle_declined_pull_request(job)\n\n    # Handle the case when bitbucket is lagging and the PR was actually\n    # merged before.\n    if dst.includes_commit(src):\n        raise messages.NothingToDo()\n\n    # Check source branch still exists\n    # (It may have been deleted by developers)\n    if not src.exists():\n        raise messages.NothingToDo(job.pull_request.src_branch)\n",
    "    # Handle the case when bitbucket is lagging and the PR was actually\n    # merged before.\n    if dst.includes_commit(src):\n        raise messages.NothingToDo()\n\n    # Check source branch still exists\n    # (It may have been deleted by developers)\n    if not src.exists():\n        raise messages.NothingToDo(job.pull_request.src_branch)\n\n    if job.pull_request.status == 'DECLINED':\n        handle_declined_pull_request(job)\n")
