"""C12 - held-back, finished and foreign pull requests are left alone."""
import ast

from ..program import AnalysisError, walk_local, dotted
from ..analysis import Spec, src, class_const, const_value
from ..rules import (canon, GWF, EXC, mpt, need_func, stores_to, outcomes,
                     substitute_locals, raise_class, chained_assign_value,
                     is_const)
from . import common

BR = GWF + '.branches'
SILENT = EXC + '.SilentException'
TEMPLATE = EXC + '.TemplateException'
CONSUMERS = {'DevelopmentBranch', 'StabilizationBranch', 'HotfixBranch'}
PRODUCERS = {'FeatureBranch', 'DevelopmentBranch', 'StabilizationBranch'}


def run(prog, an, rep):
    rep.explain(
        'C12: MPT (early_checks / handle_comments / check_dependencies '
        'dominate the clone and every statement of _handle_pull_request '
        'whose effect summary can create or publish), NEB (the gates '
        'themselves have no remote effect; commands never create), EXH '
        '(PR status literals by partial evaluation), REG (branch-class '
        'producer/consumer flags; silent exception families), ARG '
        '(dependency count against MERGED only).')
    rep.assume('hold insertion/removal positions in concrete histories are '
               'not enumerated: the gates read only the current comment '
               'list and PR state')
    rep.run_rules(prog, an, [gates_dominate_effects, gate_effects,
                             early_checks_rules, class_flags,
                             dependencies_rules, option_handler,
                             addressed_comments, slash_declarations])


def _alphabet(pattern):
    """ASCII characters a match of `pattern` can contain."""
    import re
    import re._parser as sp
    out = set()

    def cls(items, negate=False):
        inside = set()
        for op, av in items:
            if op is sp.LITERAL:
                inside.add(chr(av)) if av < 128 else None
            elif op is sp.RANGE:
                inside |= {chr(k) for k in range(av[0], min(av[1], 127) + 1)}
            elif op is sp.CATEGORY:
                name = str(av).rpartition('_')[2].lower()
                neg = 'NOT' in str(av)
                rx = {'digit': r'\d', 'space': r'\s', 'word': r'\w'}.get(name)
                if rx is None:
                    return {chr(k) for k in range(128)}
                hit = {chr(k) for k in range(128)
                       if re.fullmatch(rx, chr(k), re.ASCII)}
                inside |= ({chr(k) for k in range(128)} - hit) if neg \
                    else hit
            elif op is sp.NEGATE:
                negate = True
        return ({chr(k) for k in range(128)} - inside) if negate else inside

    def walk(seq):
        for op, av in seq:
            if op is sp.LITERAL:
                if av < 128:
                    out.add(chr(av))
            elif op is sp.NOT_LITERAL or op is sp.ANY:
                out.update(chr(k) for k in range(128))
            elif op is sp.IN:
                out.update(cls(av))
            elif op is sp.CATEGORY:
                out.update(cls([(op, av)]))
            elif op is sp.BRANCH:
                for alt in av[1]:
                    walk(alt)
            elif op is sp.SUBPATTERN:
                walk(av[3])
            elif op in (sp.MAX_REPEAT, sp.MIN_REPEAT,
                        getattr(sp, 'POSSESSIVE_REPEAT', None)):
                walk(av[2])
            elif op in (sp.ASSERT, sp.ASSERT_NOT):
                pass
            elif op is getattr(sp, 'ATOMIC_GROUP', None):
                walk(av)
            elif op is sp.GROUPREF_EXISTS:
                walk(av[1])
                if av[2] is not None:
                    walk(av[2])
    walk(sp.parse(pattern))
    return out


def slash_declarations(prog, an, rep):
    """/wait, /after_pull_request=N: whatever the slash pattern accepts is
    cut into its keywords -- every character it lets through is a keyword
    character, white space, or blanked by the clean-up before the keywords
    are read (a declaration that is accepted but not understood is dropped
    without a word, and the hold with it)."""
    from ..rules import regex_match, substitute_locals
    R = 'C12.LNG.slash-declaration'
    f = need_func(an, 'bert_e.reactor.Reactor.handle_options')

    def text(e):
        try:
            v = const_value(substitute_locals(f, e))
        except AnalysisError:
            return None
        return v if isinstance(v, str) else None
    matches, subs = [], []
    for x in walk_local(f.node, include_root=False):
        m = regex_match(f, x, ('match', 'fullmatch', 'search'))
        if m is not None and text(m[0]) is not None:
            matches.append((x, text(m[0])))
        sb = regex_match(f, x, ('sub',))
        if sb is not None and text(sb[0]) is not None:
            subs.append((x, text(sb[0]), x.args[-2] if dotted(x.func) !=
                         're.sub' else x.args[1]))
    slash = [(x, p) for x, p in matches if p.lstrip('^').startswith('/')]
    words = [(x, p) for x, p in matches if 'keywords' in p]
    rep.floor('C12 slash / keywords / clean-up patterns in handle_options',
              min(len(slash), len(words), len(subs)), 1)
    blanked = set()
    for x, p, repl in subs:
        if is_const_space(repl):
            blanked |= _alphabet(p)
    for x, p in slash:
        for y, kw_ in words:
            rep.evaluated()
            lost = _alphabet(p) - _alphabet(kw_) - blanked
            rep.check(not lost, R, f.qname + ': a slash declaration is cut '
                      'into keywords', f.where(x), 'the slash form accepts '
                      '%s, which is neither blanked before the keywords are '
                      'read nor a keyword character: such a declaration is '
                      'silently ignored' % sorted(lost))


def is_const_space(e):
    return isinstance(e, ast.Constant) and isinstance(e.value, str) and \
        e.value != '' and e.value.strip() == ''


def addressed_comments(prog, an, rep):
    """A `wait` comment holds the pull request only if the reactor takes it
    as addressed to the robot: the same rule as C07's."""
    from .c07 import addressed_to_robot
    addressed_to_robot(prog, an, rep)


def gates_dominate_effects(prog, an, rep):
    R = 'C12.MPT.gates-before-effects'
    f = need_func(an, GWF + '._handle_pull_request')
    c = an.cfg(f)
    effects = common.LOCAL_CREATE | common.PUBLISH | common.CLONE | \
        common.host_methods(prog, 'create_pull_request')
    gate_specs = {
        'early_checks': Spec.func(GWF + '.early_checks'),
        'handle_comments': Spec.func(GWF + '.handle_comments'),
        'check_dependencies': Spec.func(GWF + '.check_dependencies'),
    }
    gates = {}
    for name, sp in gate_specs.items():
        if an.resolve_spec(sp) is None:
            rep.violation(R, f.qname + ': gate ' + name, f.where(),
                          'gate function %s no longer exists' % name)
            gates[name] = []
        else:
            gates[name] = an.gate_nodes(f, sp, depth=2)
    hc = an.resolve_spec(gate_specs['handle_comments'])
    targets = []
    for n in c.stmt_nodes_where(lambda a: True):
        if n.kind not in ('stmt', 'return', 'test', 'iter', 'with'):
            continue
        # the comments gate is allow-listed here: its effects are those of
        # the registered commands, checked in gate_effects()
        if hc is not None and any(
                isinstance(x, ast.Call) and
                an.call_matches(f, x, gate_specs['handle_comments'])
                for x in ast.walk(n.ast)):
            continue
        hit = common.stmt_reaches(an, f, n.ast, effects)
        if hit:
            targets.append((n, hit))
    rep.floor('C12 effectful statements in _handle_pull_request',
              len(targets), 8)
    for n, hit in targets:
        for gname, gnodes in gates.items():
            rep.evaluated()
            ok, path = c.must_pass(gnodes, n.id)
            if not c.is_reachable(n.id):
                ok = True
            rep.check(ok, R, '%s: %s before %s' % (
                f.qname, gname, src(n.ast)[:50].replace('\n', ' ')),
                f.where(n), 'statement reaching %s can run without %s '
                'having returned normally' % (hit.rpartition('.')[2], gname),
                path=c.describe_path(path))
    # a declined pull request only ever reaches the cleanup routine
    not_declined = an.branch_nodes(
        f, lambda e: isinstance(e, ast.Compare) and
        src(e.left).endswith('pull_request.status') and
        isinstance(e.ops[0], ast.Eq) and
        isinstance(e.comparators[0], ast.Constant) and
        e.comparators[0].value == 'DECLINED', False) + an.branch_nodes(
        f, lambda e: isinstance(e, ast.Compare) and
        src(e.left).endswith('pull_request.status') and
        isinstance(e.ops[0], ast.NotEq) and
        isinstance(e.comparators[0], ast.Constant) and
        e.comparators[0].value == 'DECLINED', True)
    hd = Spec.func(GWF + '.handle_declined_pull_request')
    for n, hit in targets:
        if any(isinstance(x, ast.Call) and an.call_matches(f, x, hd)
               for x in ast.walk(n.ast)):
            continue
        if hit in common.CLONE:
            continue
        rep.evaluated()
        ok, path = c.must_pass(not_declined, n.id)
        if not c.is_reachable(n.id):
            ok = True
        rep.check(ok and bool(not_declined), 'C12.MPT.declined-is-final',
                  '%s: a DECLINED pull request never reaches `%s`' % (
                      f.qname, src(n.ast)[:40].replace('\n', ' ')),
                  f.where(n), 'a declined pull request can continue into '
                  'the merge workflow (the cleanup routine returned '
                  'instead of ending the job, or the status test moved)',
                  path=c.describe_path(path))
    # unhandled pull requests are not even greeted
    mpt(an, rep, 'C12.MPT.no-comment-before-early-checks', f,
        Spec.func(GWF + '.send_greetings'), [gate_specs['early_checks']],
        depth=1)
    # options are read before the dependency gate
    mpt(an, rep, 'C12.MPT.options-before-dependencies', f,
        gate_specs['check_dependencies'], [gate_specs['handle_comments']],
        depth=1)


def gate_effects(prog, an, rep):
    R = 'C12.NEB.gate-effects'
    effects = common.LOCAL_CREATE | common.PUBLISH | common.CLONE | \
        common.host_methods(prog, 'create_pull_request') | \
        common.host_methods(prog, 'add_comment') | \
        common.host_methods(prog, 'decline')
    for q in (GWF + '.early_checks', GWF + '.check_dependencies'):
        f = need_func(an, q)
        rep.evaluated()
        hit = common.reaches(an, f, effects)
        rep.check(hit is None, R, f.qname + ': no remote effect', f.where(),
                  '%s can reach %s' % (f.qname, hit))
    creating = common.LOCAL_CREATE | \
        common.host_methods(prog, 'create_pull_request')
    opts, cmds = common.reactor_registry(prog, an)
    handlers = {}
    for key, c in list(cmds.items()) + list(opts.items()):
        if c['handler'] is not None:
            handlers[c['handler'].qname] = c['handler']
    rep.floor('C12 registered command/option handler functions',
              len(handlers), 6)
    for q, h in sorted(handlers.items()):
        rep.evaluated()
        hit = common.reaches(an, h, creating)
        rep.check(hit is None, R, q + ': never creates branches, merges or '
                  'pull requests', h.where(), 'comment handler %s can reach '
                  '%s before the dependency gate' % (q, hit))


def early_checks_rules(prog, an, rep):
    R = 'C12.EXH.status'
    f = need_func(an, GWF + '.early_checks')
    c = an.cfg(f)
    # status literals
    var = None
    for n in walk_local(f.node, include_root=False):
        if isinstance(n, ast.Assign) and len(n.targets) == 1 and \
                isinstance(n.targets[0], ast.Name) and \
                src(n.value).endswith('pull_request.status'):
            var, st = n.targets[0].id, n
    if var is None:
        raise AnalysisError('anchor-missing status binding in early_checks')
    start = c.done_node[id(st)]
    ntd = EXC + '.NothingToDo'
    for lit in ('OPEN', 'DECLINED', 'MERGED', 'SUPERSEDED', 'closed'):
        rep.evaluated()
        got = outcomes(an, f, start, {var: lit})
        if lit in ('OPEN', 'DECLINED'):
            ok = ('raise', ntd) not in got and len(got) > 1
            msg = 'an %s pull request is dropped as NothingToDo' % lit
        else:
            ok = got == {('raise', ntd)}
            msg = ('a pull request in state %s is not dropped silently: '
                   'outcomes %s' % (lit, sorted(map(str, got))))
        rep.check(ok, R, '%s: status %s' % (f.qname, lit), f.where(st), msg,
                  detail=str(sorted(map(str, got))))
    # producer / consumer tests on the right names, both needed to return
    R2 = 'C12.MPT.foreign'
    bf = Spec.func(BR + '.branch_factory')
    for flag, attr in (('cascade_producer', 'src_branch'),
                       ('cascade_consumer', 'dst_branch')):
        fn = 'is_' + flag

        def classified(e, flag=flag):
            """The name classified when e is branch_factory(., name).flag
            (directly or through a local bound to the classified branch)."""
            if isinstance(e, ast.Attribute) and e.attr == flag:
                v = substitute_locals(f, e.value)
                if isinstance(v, ast.Call) and \
                        an.call_matches(f, v, bf) and len(v.args) == 2:
                    return v.args[1]
            return None

        def has(e, flag=flag):
            return any(classified(x) is not None for x in ast.walk(e))
        tb = an.branch_nodes(f, has, True)
        rep.evaluated()
        ok, path = c.must_pass(tb, c.exit, use_exc=False)
        rep.check(ok and bool(tb), R2, '%s: returns only if %s holds' % (
            f.qname, fn), f.where(),
            'early_checks can return normally without %s being true' %
            fn, path=c.describe_path(path))
        for t in an.test_nodes(f, has):
            for x in ast.walk(t.ast):
                nm = classified(x)
                if nm is None:
                    continue
                a = src(substitute_locals(f, nm))
                rep.check(a.endswith('pull_request.' + attr),
                          'C12.ARG.foreign',
                          '%s: %s applied to the PR %s' % (f.qname, fn, attr),
                          f.where(t), '%s is applied to %s' % (fn, a),
                          detail=a)
        # the false edge raises a silent exception
        fb = an.branch_nodes(f, has, False)
        for b in fb:
            outs = set()
            for n in c.reachable(start=b, use_exc=False):
                nn = c.nodes[n]
                if nn.kind == 'raise_stmt':
                    outs.add(raise_class(an, f, nn.ast))
                    break
            first = _first_exit(an, f, c, b)
            rep.check(first is not None and first[0] == 'raise' and
                      first[1] and prog.is_subclass(first[1], SILENT) and
                      not prog.is_subclass(first[1], TEMPLATE),
                      'C12.REG.silent', '%s: failing %s is silent' % (
                          f.qname, fn.rpartition('.')[2]), f.where(),
                      'a foreign pull request gets %s instead of a silent '
                      'exception' % (first,))
    for name in ('NothingToDo', 'NotMyJob'):
        k = prog.cls(EXC + '.' + name)
        rep.check(prog.is_subclass(k, SILENT) and
                  not prog.is_subclass(k, TEMPLATE), 'C12.REG.silent',
                  name + ' is a SilentException', k.where(),
                  '%s would post a comment (not a SilentException)' % name)
    common.notify_only_under_template(prog, an, rep, 'C12')


def _first_exit(an, f, c, start):
    """Follow the straight-line successor chain from a branch node to the
    first raise/return."""
    i = start
    for _ in range(50):
        n = c.nodes[i]
        if n.kind == 'raise_stmt':
            return ('raise', raise_class(an, f, n.ast))
        if n.kind == 'return':
            return ('return', None)
        nxt = [s for s in c.succ[i] if (i, s) not in c.exc_edges]
        if len(nxt) != 1:
            return None
        i = nxt[0]
    return None


def class_flags(prog, an, rep):
    R = 'C12.REG.class-flags'
    base = prog.cls(BR + '.GWFBranch')
    n = 0
    for k in prog.subclasses(base.qname):
        n += 1
        for flag, want in (('cascade_consumer', CONSUMERS),
                           ('cascade_producer', PRODUCERS)):
            rep.evaluated()
            v = class_const(prog, k, flag)
            exp = k.name in want
            rep.check(bool(v) == exp and isinstance(v, bool), R,
                      '%s.%s == %s' % (k.name, flag, exp), k.where(),
                      '%s.%s is %r: %s' % (
                          k.name, flag, v,
                          'a branch kind Bert-E must not handle is accepted'
                          if v else 'a handled branch kind is refused'))
    rep.floor('C12 GWFBranch classes', n, 12)


def dependencies_rules(prog, an, rep):
    R = 'C12.MPT.holds'
    f = need_func(an, GWF + '.check_dependencies')
    c = an.cfg(f)
    wait_f = an.branch_nodes(f, lambda e: src(e).endswith('settings.wait'),
                             False)
    wait_t = an.branch_nodes(f, lambda e: src(e).endswith('settings.wait'),
                             True)
    rep.evaluated()
    ok, path = c.must_pass(wait_f, c.exit, use_exc=False)
    rep.check(ok and bool(wait_f), R, f.qname + ': returns only when wait '
              'is off', f.where(), 'check_dependencies can return normally '
              'while the wait option is set', path=c.describe_path(path))
    for b in wait_t:
        first = _first_exit(an, f, c, b)
        rep.check(first is not None and first[0] == 'raise' and first[1] and
                  prog.is_subclass(first[1], SILENT), 'C12.REG.silent',
                  f.qname + ': wait stops silently', f.where(),
                  'the wait hold ends with %s' % (first,))
    # dependency count
    after = None
    for name in c_names(f):
        v = chained_assign_value(f, name)
        if v is not None and src(v).endswith('settings.after_pull_request'):
            after = name
    cmp_tests = [n for n in c.nodes.values() if n.kind == 'test' and
                 isinstance(n.ast, ast.Compare) and 'len(' in src(n.ast)]
    good = []
    for t in cmp_tests:
        e = t.ast
        if len(e.ops) != 1 or not isinstance(e.ops[0], (ast.NotEq, ast.Eq)):
            continue
        sides = [e.left, e.comparators[0]]
        args = []
        for sd in sides:
            if isinstance(sd, ast.Call) and isinstance(sd.func, ast.Name) \
                    and sd.func.id == 'len' and len(sd.args) == 1:
                args.append(sd.args[0])
        if len(args) != 2:
            continue
        a_txt = [src(substitute_locals(f, a, depth=1)) for a in args]
        has_after = any(x.endswith('settings.after_pull_request')
                        for x in a_txt)
        merged = None
        for a in args:
            v = a
            if isinstance(a, ast.Name):
                st = [val for _, val in stores_to(f, a.id)
                      if val is not None]
                v = st[-1] if st else a
            if isinstance(v, (ast.ListComp, ast.GeneratorExp, ast.SetComp)):
                ifs = [i for g in v.generators for i in g.ifs]
                if len(ifs) == 1 and isinstance(ifs[0], ast.Compare) and \
                        len(ifs[0].ops) == 1 and \
                        isinstance(ifs[0].ops[0], ast.Eq) and \
                        src(ifs[0].left).endswith('.status') and \
                        is_const(ifs[0].comparators[0], 'MERGED'):
                    merged = v
            # the dependencies grouped by status: G[dep.status] gets dep
            # (setdefault(...).append or [..].append), read as G['MERGED']
            if isinstance(a, ast.Subscript) and \
                    is_const(a.slice, 'MERGED') and \
                    isinstance(a.value, ast.Name):
                g_ = a.value.id
                fills = [x for x in walk_local(f.node, include_root=False)
                         if isinstance(x, ast.Call) and
                         isinstance(x.func, ast.Attribute) and
                         x.func.attr == 'append' and len(x.args) == 1 and
                         isinstance(x.args[0], ast.Name) and (
                             (isinstance(x.func.value, ast.Call) and
                              src(x.func.value.func) == g_ + '.setdefault'
                              and x.func.value.args and
                              src(x.func.value.args[0]) ==
                              x.args[0].id + '.status') or
                             (isinstance(x.func.value, ast.Subscript) and
                              src(x.func.value.value) == g_ and
                              src(x.func.value.slice) ==
                              x.args[0].id + '.status'))]
                others = [x for x in walk_local(f.node, include_root=False)
                          if isinstance(x, ast.Name) and x.id == g_ and
                          isinstance(x.ctx, ast.Store)]
                if len(fills) == 1 and len(others) == 1:
                    merged = a
        if has_after and merged is not None:
            good.append((t, isinstance(e.ops[0], ast.NotEq)))
    rep.evaluated()
    rep.check(len(good) == 1, 'C12.ARG.dependency-count', f.qname +
              ': number of dependencies compared (== / !=) with those whose '
              'status == MERGED', f.where(), 'the dependency gate no longer '
              'compares len(after_pull_request) with the number of MERGED '
              'dependencies by equality (found %d such tests)' % len(good))
    if len(good) == 1:
        t, is_ne = good[0]
        passing = c.branch(t, not is_ne)
        blocked = c.branch(t, is_ne)
        empty_t = []
        if after:
            empty_t = an.branch_nodes(
                f, lambda e: isinstance(e, ast.Name) and e.id == after,
                False)
        ok, path = c.must_pass(passing + empty_t, c.exit, use_exc=False)
        rep.check(ok, R, f.qname + ': returns only with no dependency or '
                  'all dependencies merged', f.where(),
                  'check_dependencies can return with unmerged dependencies',
                  path=c.describe_path(path))
        for b in blocked:
            first = _first_exit(an, f, c, b)
            rep.check(first is not None and first[0] == 'raise' and
                      (first[1] or '').endswith('.AfterPullRequest'), R,
                      f.qname + ': unmerged dependency raises '
                      'AfterPullRequest', f.where(),
                      'unmerged dependencies end with %s' % (first,))
    # unknown id -> IncorrectPullRequestNumber
    gp = [n for n in c.nodes.values() if n.kind == 'stmt' and
          'get_pull_request(' in src(n.ast)]
    rep.floor('C12 dependency lookups', len(gp), 1)
    for n in gp:
        handlers = [s for s in c.succ[n.id] if (n.id, s) in c.exc_edges]
        ok = False
        for h in handlers:
            for hh in c.succ[h]:
                if c.nodes[hh].kind == 'handler':
                    first = _first_exit(an, f, c, hh)
                    if first and first[0] == 'raise' and (
                            first[1] or '').endswith(
                                '.IncorrectPullRequestNumber'):
                        ok = True
        rep.check(ok, R, f.qname + ': unknown dependency id is reported',
                  f.where(n), 'a failing dependency lookup is not converted '
                  'to IncorrectPullRequestNumber')


def c_names(f):
    return {n.id for n in walk_local(f.node, include_root=False)
            if isinstance(n, ast.Name) and isinstance(n.ctx, ast.Store)}


def option_handler(prog, an, rep):
    R = 'C12.MPT.option-handler'
    opts, _ = common.reactor_registry(prog, an)
    o = opts.get('after_pull_request')
    if o is None or o['handler'] is None:
        rep.violation(R, 'after_pull_request option', None,
                      'after_pull_request is no longer a registered option '
                      'with its own handler')
        return
    h = o['handler']
    c = an.cfg(h)
    adds = [n for n in c.nodes.values() if n.kind == 'stmt' and
            isinstance(n.ast, ast.Expr) and
            isinstance(n.ast.value, ast.Call) and
            isinstance(n.ast.value.func, ast.Attribute) and
            n.ast.value.func.attr == 'add' and
            canon(h, n.ast.value.func.value, paths_only=True).endswith(
                'settings.after_pull_request')]
    # every declared dependency is kept: the handler adds to the set; an
    # assignment would forget the dependencies declared before
    rebinds = [n for n in c.nodes.values() if n.kind == 'stmt' and
               isinstance(n.ast, (ast.Assign, ast.AugAssign)) and any(
                   isinstance(t, (ast.Attribute, ast.Subscript)) and
                   'after_pull_request' in src(t)
                   for t in (n.ast.targets if isinstance(n.ast, ast.Assign)
                             else [n.ast.target]))]
    rep.evaluated()
    rep.check(bool(adds) and not rebinds, R, h.qname + ': each declared '
              'dependency is added to the set', h.where(
                  (rebinds or adds or [None])[0]),
              'the option handler %s: with several after_pull_request '
              'options only the last one would hold the pull request' % (
                  'replaces the set of dependencies' if rebinds else
                  'no longer records the dependency'))
    ints = [n for n in c.nodes.values() if n.kind == 'stmt' and
            isinstance(n.ast, ast.Expr) and
            isinstance(n.ast.value, ast.Call) and
            isinstance(n.ast.value.func, ast.Name) and
            n.ast.value.func.id == 'int']
    gates = []
    for n in ints:
        gates += c.done_of(n)
    for a in adds:
        rep.evaluated()
        ok, path = c.must_pass(gates, a.id)
        rep.check(ok, R, h.qname + ': only integer ids are recorded',
                  h.where(a), 'a non-numeric dependency id is recorded '
                  'without the int() check', path=c.describe_path(path))
    d = o['default']
    rep.check(d is not None and isinstance(d, ast.Call) and
              src(d) == 'set()', R, 'after_pull_request default is an empty '
              'set', o['where'], 'default is %s' % (src(d) if d is not None
                                                   else None))
    rep.check(not o['privileged'], R, 'after_pull_request is unprivileged',
              o['where'], 'after_pull_request became privileged')
    for name in ('wait',):
        w = opts.get(name)
        rep.check(w is not None, R, 'option %s registered' % name,
                  (w or {}).get('where'), 'option %s is gone' % name)
