"""C16 - the robot's credentials never leak into logs, comments, exception
messages, job reports or standard output."""
import ast

from ..inline import is_replace_if_present
from ..program import Program, AnalysisError, walk_local, dotted
from ..analysis import Analyzer, Spec, src
from ..rules import (GWF, EXC, mpt, need_func, stores_to, is_const, kw)
from ..taint import TaintEngine, SOURCE_ATTRS, SOURCE_FUNCS, PARAM_SOURCES
from . import common

CONTROL_PATH = 'bert_e/_verif_taint_control.py'
CONTROL = '''
"""Positive controls for the C16 taint rules (exists only inside the
checker's private copy of the source map)."""
import logging
import subprocess
LOG = logging.getLogger(__name__)


class ControlError(Exception):
    pass


def control_log(settings):
    LOG.info('password is %s', settings.robot_password)


def control_print(client):
    print({'Authorization': 'token %s' % client.password})


def control_exception(repo):
    raise ControlError('cannot push to %s' % repo._url)


def control_helper(text):
    LOG.debug('helper got %s', text)


def control_interprocedural(settings):
    control_helper('x' + settings.jira_token)


def control_chain(repo):
    try:
        subprocess.check_output('git clone %s' % repo._url, shell=True)
    except subprocess.CalledProcessError as err:
        raise ControlError('clone failed') from err


def control_masked(repo, mask_pwd):
    LOG.info('cloning %s', mask_pwd(repo._url))
'''
CONTROL_EXPECT = {'control_log', 'control_print', 'control_exception',
                  'control_helper', 'control_chain'}
CONTROL_CLEAN = {'control_masked'}


def run(prog, an, rep):
    rep.explain(
        'C16: TNT (summary-based inter-procedural taint: credential sources '
        '-> log / print / exception message / exception chain / comment / '
        'job report sinks, sanitised only by the local mask_pwd; '
        'flow-sensitive locals, key-sensitive **kwargs, typed exception '
        'routing so that `raise ... from err` and implicit exception '
        'contexts are sinks), positive controls injected in a private copy '
        'of the source map, SIB (mask and clone URL use the same quoting), '
        'MPT/WMC (every command goes through Repository.cmd with the mask; '
        'subprocess only in simplecmd), ARG (job reports expose only the '
        'per-job settings map).')
    rep.assume('third-party libraries (requests, urllib3, jira, git itself) '
               'do not log credentials on their own; percent-encoding '
               'variants of the password printed by git are not modelled')
    rep.run_rules(prog, an, [taint, mask_wiring, quoting_agreement,
                             sanitiser_shape, job_report])


def taint(prog, an, rep):
    R = 'C16.TNT'
    sources = dict(prog.sources)
    sources[CONTROL_PATH] = CONTROL
    p2 = Program(sources, prog.templates)
    a2 = Analyzer(p2)
    eng = TaintEngine(a2)
    findings = eng.run()
    rep.evaluated(eng.stats['sinks_examined'])
    rep.extra['taint'] = dict(eng.stats)
    rep.extra['taint']['derived_source_attributes'] = eng.derived_attrs
    rep.extra['taint']['source_attributes'] = sorted(SOURCE_ATTRS)
    rep.floor('C16 functions analysed', eng.stats['functions'], 550)
    rep.floor('C16 sink arguments examined', eng.stats['sinks_examined'],
              3000)
    ctl = {fd.origin_q.rpartition('.')[2] for fd in findings
           if fd.path == CONTROL_PATH}
    missing = CONTROL_EXPECT - ctl
    noisy = CONTROL_CLEAN & ctl
    if missing or noisy:
        raise AnalysisError('taint positive controls failed: not reported '
                            '%s, wrongly reported %s' % (sorted(missing),
                                                         sorted(noisy)))
    rep.ok(R + '.control', 'positive controls: %d leaking shapes reported, '
           'masked shape silent' % len(CONTROL_EXPECT), CONTROL_PATH)
    real = [fd for fd in findings if fd.path != CONTROL_PATH]
    # source anchors still exist
    n_src = 0
    for f in prog.all_funcs():
        for x in walk_local(f.node, include_root=False):
            if isinstance(x, ast.Attribute) and x.attr in SOURCE_ATTRS:
                n_src += 1
    rep.floor('C16 reads of credential attributes', n_src, 10)
    for q in SOURCE_FUNCS:
        if prog.func(q, required=False) is None:
            raise AnalysisError('anchor-missing source function %s' % q)
    for q, p_ in PARAM_SOURCES:
        g = prog.func(q, required=False)
        if g is None or p_ not in g.params:
            raise AnalysisError('anchor-missing source parameter %s(%s)' %
                                (q, p_))
    by_kind = {}
    for fd in sorted(real, key=lambda x: (x.path, x.line, x.detail)):
        kind = fd.detail.split(' (')[0].split(':')[0]
        rep.violation(R + '.leak', '%s: %s' % (fd.origin_q, kind), fd.where,
                      'a credential reaches %s%s' % (
                          fd.detail, ' -- entered at %s' %
                          '; '.join(sorted(fd.via)[:3]) if fd.via else ''))
        by_kind[kind] = by_kind.get(kind, 0) + 1
    if not real:
        rep.ok(R + '.leak', 'no flow from a credential source to a sink '
               'avoids mask_pwd (%d sink arguments examined in %d '
               'functions, %d call summaries instantiated)' % (
                   eng.stats['sinks_examined'], eng.stats['functions'],
                   eng.stats['calls_instantiated']), None)


def mask_wiring(prog, an, rep):
    R = 'C16.MPT.mask-wiring'
    f = need_func(an, 'bert_e.lib.git.Repository.cmd')
    c = an.cfg(f)
    sd = [n for n in c.nodes.values() if n.kind == 'stmt' and
          "kwargs.setdefault('mask_pwd', self._mask_pwd)" in src(n.ast)]
    gates = []
    for n in sd:
        gates += c.done_of(n)
    explicit = 'mask_pwd' in f.params
    if explicit:
        # the other spelling: mask_pwd is a parameter of its own; where the
        # caller gave none it is replaced by the repository's mask, and it
        # is handed on by name
        for n in c.nodes.values():
            if n.kind == 'stmt' and isinstance(n.ast, ast.Assign) and \
                    [src(t) for t in n.ast.targets] == ['mask_pwd']:
                if src(n.ast.value) == 'self._mask_pwd':
                    gates += c.done_of(n)
        a_ = f.node.args
        dflt = dict(zip([x.arg for x in a_.kwonlyargs], a_.kw_defaults))
        pos_ = [x.arg for x in a_.args]
        dflt.update(zip(pos_[len(pos_) - len(a_.defaults):], a_.defaults))
        d_ = dflt.get('mask_pwd')
        # ... and that replacement happens exactly when none was given
        absent = an.branch_nodes(
            f, lambda e: isinstance(e, ast.Compare) and len(e.ops) == 1 and
            src(e.left) == 'mask_pwd' and isinstance(e.ops[0], ast.Is) and
            d_ is not None and src(e.comparators[0]) == src(d_), False)
        gates += absent
        others = [n for n in c.nodes.values() if n.kind == 'stmt' and
                  isinstance(n.ast, ast.Assign) and
                  [src(t) for t in n.ast.targets] == ['mask_pwd'] and
                  src(n.ast.value) != 'self._mask_pwd']
        rep.check(not others, R, f.qname + ': the mask is the caller\'s or '
                  'the repository\'s', f.where(), 'mask_pwd is re-bound to '
                  '%s' % [src(n.ast.value) for n in others])

    def forwarded(x):
        if explicit:
            v = kw(x, 'mask_pwd')
            return v is not None and src(v) == 'mask_pwd'
        return any(k.arg is None and src(k.value) == 'kwargs'
                   for k in x.keywords)
    targets = an.target_nodes(f, Spec.func('bert_e.lib.simplecmd.cmd'),
                              depth=0)
    rep.floor('C16 simplecmd.cmd calls in Repository.cmd', len(targets), 1)
    for t in targets:
        rep.evaluated()
        ok, path = c.must_pass(gates, t.id)
        rep.check(ok and bool(gates), R, f.qname + ': mask_pwd is set '
                  'before every command runs', f.where(t), 'a git command '
                  'can run without the password mask',
                  path=c.describe_path(path))
        call = [x for x in ast.walk(t.ast) if isinstance(x, ast.Call) and
                an.call_matches(f, x, Spec.func('bert_e.lib.simplecmd.cmd'))]
        for x in call:
            rep.check(forwarded(x), R, f.qname + ': the mask is '
                      'forwarded', f.where(x), 'mask_pwd is not forwarded '
                      'to simplecmd.cmd')
    # the retry recursion keeps the mask as well
    for x in prog.calls_in(f):
        if src(x.func) == 'self.cmd':
            rep.check(forwarded(x), R, f.qname + ': retry keeps '
                      'the mask', f.where(x), 'the retry drops the mask')
    init = need_func(an, 'bert_e.lib.git.Repository.__init__')
    ok = any(isinstance(n, ast.Assign) and
             src(n.targets[0]) == 'self._mask_pwd' and
             src(n.value) == 'mask_pwd'
             for n in walk_local(init.node, include_root=False))
    rep.check(ok, R, init.qname + ': stores the mask', init.where(),
              'Repository.__init__ no longer stores mask_pwd')
    # who runs processes
    for g in prog.all_funcs():
        if g.module.name in ('bert_e.lib.simplecmd',
                             'bert_e.git_host.mock') or \
                g.module.name.startswith('bert_e.bin'):
            continue
        for call in prog.calls_in(g):
            cal = prog.callee(g, call)
            if cal[0] == 'ext' and (cal[1].startswith('subprocess.') or
                                    cal[1] in ('os.system', 'os.popen')):
                rep.violation('C16.WMC.subprocess', g.qname, g.where(call),
                              '%s spawns a process outside simplecmd: its '
                              'output and errors are not masked' % g.qname)
            if cal == ('func', 'bert_e.lib.simplecmd.cmd'):
                rep.check(g.qname == 'bert_e.lib.git.Repository.cmd',
                          'C16.WMC.subprocess', g.qname + ' -> simplecmd.cmd',
                          g.where(call), 'simplecmd.cmd is called without '
                          'Repository.cmd (no mask_pwd default)')
    # the mask reaches _do_cmd from cmd: forwarded with **kwargs (and not
    # popped on the way) or handed over by name -- a mask that is lost is a
    # None mask, and a None mask hides nothing
    cf = need_func(an, 'bert_e.lib.simplecmd.cmd')
    df = need_func(an, 'bert_e.lib.simplecmd._do_cmd')
    dsecret = [p_ for p_ in df.params if p_ in _masked_values(df)]
    csecret = _mask_candidates(prog, cf)[0]
    popped = any(isinstance(x, ast.Call) and
                 src(x.func) == (cf.node.args.kwarg.arg
                                 if cf.node.args.kwarg else '?') + '.pop' and
                 x.args and is_const(x.args[0], 'mask_pwd')
                 for x in walk_local(cf.node, include_root=False))
    n_fw = 0
    for x in prog.calls_in(cf):
        if not an.call_matches(cf, x, Spec.func(df.qname)):
            continue
        n_fw += 1
        rep.evaluated()
        if dsecret:
            i = df.params.index(dsecret[0])
            v = kw(x, dsecret[0]) or (x.args[i] if len(x.args) > i and not
                                      any(isinstance(a_, ast.Starred)
                                          for a_ in x.args[:i + 1]) else None)
            ok = v is not None and csecret is not None and \
                src(v) == csecret
            if v is None and cf.node.args.kwarg is not None and \
                    'mask_pwd' not in cf.params and not popped and any(
                        k.arg is None and
                        src(k.value) == cf.node.args.kwarg.arg
                        for k in x.keywords) and dsecret[0] == 'mask_pwd':
                ok = True       # still inside **kwargs, bound by name
        else:
            ok = not popped and cf.node.args.kwarg is not None and any(
                k.arg is None and src(k.value) == cf.node.args.kwarg.arg
                for k in x.keywords) and 'mask_pwd' not in cf.params
        rep.check(ok, R, cf.qname + ': the mask is handed to _do_cmd',
                  cf.where(x), 'this call runs the command without the '
                  'mask: errors and output of the command are shown as '
                  'they are')
    rep.floor('C16 _do_cmd calls in simplecmd.cmd', n_fw, 1)
    # in simplecmd: every use of `command` outside Popen goes through the
    # mask (structural double check of the taint verdict; what happens to
    # `output`, re-bound along the way, is the flow-sensitive taint's to say)
    for q in ('bert_e.lib.simplecmd.cmd', 'bert_e.lib.simplecmd._do_cmd'):
        g = need_func(an, q)
        pm = {}
        for n in ast.walk(g.node):
            for ch in ast.iter_child_nodes(n):
                pm[ch] = n
        maskers = {m.name for m, data, secret in _mask_candidates(prog, g)[1]
                   if _mask_shape(an, m, data, secret)[0]}
        secrets = _masked_values(g)

        def secret_test(t):
            pol = True
            while isinstance(t, ast.UnaryOp) and isinstance(t.op, ast.Not):
                t, pol = t.operand, not pol
            return pol if src(t) in secrets else None
        for x in walk_local(g.node, include_root=False):
            if isinstance(x, ast.Name) and x.id == 'command' \
                    and isinstance(x.ctx, ast.Load):
                par = pm.get(x)
                rep.evaluated()
                okp = isinstance(par, ast.Call) and (
                    src(par.func) in maskers | {'subprocess.Popen',
                                                '_do_cmd'} and
                    x in par.args)
                # the mask written out: the text is the receiver of
                # .replace(<secret>, <constant>), or stands where a test on
                # the secret said there is none
                if isinstance(par, ast.Attribute) and par.attr == 'replace' \
                        and isinstance(pm.get(par), ast.Call) and \
                        _is_mask_call(pm[par], secrets):
                    okp = True
                up, below = par, x
                for _ in range(12):
                    if up is None:
                        break
                    if isinstance(up, ast.IfExp) and \
                            is_replace_if_present(up):
                        okp = True
                    if isinstance(up, (ast.IfExp, ast.If)):
                        pol = secret_test(up.test)
                        arm = None
                        if isinstance(up, ast.IfExp):
                            arm = True if below is up.body else (
                                False if below is up.orelse else None)
                        else:
                            arm = True if below in up.body else (
                                False if below in up.orelse else None)
                        if pol is not None and arm is not None and \
                                arm != pol:
                            okp = True      # no secret here: nothing to hide
                    if isinstance(up, ast.Call) and \
                            src(up.func) == 'isinstance' and x in up.args:
                        okp = True      # a type test shows nothing
                    below, up = up, pm.get(up)
                rep.check(okp, 'C16.MPT.mask-uses', '%s: use of %s at L%d' % (
                    q, x.id, x.lineno), g.where(x), '%s is used outside '
                    'mask_pwd(...) / Popen' % x.id)


def _masked_values(g):
    """Source texts p of what g masks: <x>.replace(p[.encode()], <const>)."""
    out = set()
    for x in ast.walk(g.node):
        if isinstance(x, ast.Call) and _is_mask_call(x, None):
            a0 = x.args[0]
            if isinstance(a0, ast.Call) and \
                    isinstance(a0.func, ast.Attribute) and \
                    a0.func.attr == 'encode' and not a0.args:
                a0 = a0.func.value
            if isinstance(a0, (ast.Name, ast.Attribute)):
                out.add(src(a0))
    return out


def _is_mask_call(call, secrets):
    def enc(v):
        if isinstance(v, ast.Call) and isinstance(v.func, ast.Attribute) \
                and v.func.attr == 'encode' and not v.args:
            return v.func.value
        return v
    return isinstance(call.func, ast.Attribute) and \
        call.func.attr == 'replace' and len(call.args) == 2 and \
        isinstance(enc(call.args[1]), ast.Constant) and (
            secrets is None or src(enc(call.args[0])) in secrets)


def quoting_agreement(prog, an, rep):
    R = 'C16.SIB.quoting'
    be = need_func(an, 'bert_e.bert_e.BertE.__init__')
    mask = None
    for call in prog.calls_in(be):
        for k in call.keywords:
            if k.arg == 'mask_pwd':
                mask = k.value
    if mask is None:
        rep.violation(R, be.qname + ': mask_pwd argument', be.where(),
                      'the git repository is built without a password mask')
        return
    ok = isinstance(mask, ast.Call) and len(mask.args) == 1 and \
        src(mask.args[0]).endswith('settings.robot_password')
    qf = prog.callee(be, mask)[1] if isinstance(mask, ast.Call) else None
    rep.evaluated()
    rep.check(ok and qf == 'urllib.parse.quote_plus', R, be.qname +
              ': mask = quote_plus(robot_password)', be.where(mask),
              'mask is %s (quoting function %s)' % (src(mask), qf))
    for q, attr in (('bert_e.git_host.github.Repository.git_url',
                     'password'),
                    ('bert_e.git_host.bitbucket.Repository.get_git_url',
                     'password')):
        g = need_func(an, q)
        found = False
        for call in prog.calls_in(g):
            if call.args and isinstance(call.args[0], ast.Attribute) and \
                    call.args[0].attr == attr:
                found = True
                cal = prog.callee(g, call)
                rep.evaluated()
                rep.check(cal[0] == 'ext' and cal[1] == qf, R, g.qname +
                          ': the password is put in the clone URL with the '
                          'same quoting as the mask', g.where(call),
                          'URL uses %s, mask uses %s: the mask does not '
                          'match what git prints for passwords with special '
                          'characters' % (cal[1], qf))
        rep.check(found, R, g.qname + ': password is quoted in the URL',
                  g.where(), 'the password is spliced into the clone URL '
                  'without quoting')


def _mask_shape(an, m, data, secret):
    """(ok, what the function returns): every return of m is the text with
    the secret replaced by a constant (str / bytes variants), or the text
    itself on paths where the secret is falsy."""
    mc = an.cfg(m)

    def masks(e):
        return isinstance(e, ast.Call) and \
            isinstance(e.func, ast.Attribute) and \
            e.func.attr == 'replace' and src(e.func.value) == data and \
            len(e.args) == 2 and \
            src(e.args[0]) in (secret, secret + '.encode()') and (
                isinstance(e.args[1], ast.Constant) or (
                    isinstance(e.args[1], ast.Call) and
                    isinstance(e.args[1].func, ast.Attribute) and
                    e.args[1].func.attr == 'encode' and
                    isinstance(e.args[1].func.value, ast.Constant)))
    no_secret = an.branch_nodes(
        m, lambda e: isinstance(e, ast.Name) and e.id == secret, False)
    rets = [r for r in mc.nodes.values() if r.kind == 'return']
    ok = bool(rets)
    shown = []
    for r in rets:
        v = r.ast.value
        shown.append(src(v) if v is not None else 'None')
        if v is not None and masks(v):
            continue
        if isinstance(v, ast.IfExp) and src(v.test) == secret and \
                masks(v.body) and src(v.orelse) == data:
            continue
        if v is not None and src(v) == data:
            # the text is returned unchanged only when there is no
            # secret to mask
            o, _ = mc.must_pass(no_secret, r.id)
            if o and no_secret:
                continue
        ok = False
    if mc.exit in mc.reachable() and any(
            mc.nodes[p_].kind != 'return' for p_ in mc.pred[mc.exit]):
        ok = False
    return ok, shown


def _mask_candidates(prog, g):
    """(the local bound to the mask_pwd keyword, [(masking function, its
    text parameter, the secret's name inside it)]) for cmd / _do_cmd."""
    pvar = None
    for n in walk_local(g.node, include_root=False):
        if isinstance(n, ast.Assign) and len(n.targets) == 1 and \
                isinstance(n.targets[0], ast.Name) and \
                isinstance(n.value, ast.Call) and \
                isinstance(n.value.func, ast.Attribute) and \
                n.value.func.attr in ('get', 'pop') and \
                g.node.args.kwarg is not None and \
                src(n.value.func.value) == g.node.args.kwarg.arg and \
                n.value.args and is_const(n.value.args[0], 'mask_pwd'):
            pvar = n.targets[0].id
    cands = []
    if pvar is None and 'mask_pwd' in g.params and \
            not stores_to(g, 'mask_pwd'):
        pvar = 'mask_pwd'       # the keyword taken as a parameter of its own
    if pvar is None:
        return None, cands
    for m in g.nested.values():
        if m.params and any(isinstance(x, ast.Name) and x.id == pvar
                            for x in ast.walk(m.node)):
            cands.append((m, m.params[0], pvar))
    for call in prog.calls_in(g):
        cal = prog.callee(g, call)
        if cal[0] != 'func' or cal[1] not in prog.funcs:
            continue
        m = prog.funcs[cal[1]]
        if m.module is not g.module or m.cls is not None:
            continue
        pos = [i for i, a in enumerate(call.args)
               if isinstance(a, ast.Name) and a.id == pvar]
        pos += [m.params.index(k.arg) for k in call.keywords
                if k.arg in m.params and isinstance(k.value, ast.Name)
                and k.value.id == pvar]
        if len(pos) == 1 and len(m.params) == 2 and \
                (m, m.params[1 - pos[0]], m.params[pos[0]]) not in cands:
            cands.append((m, m.params[1 - pos[0]], m.params[pos[0]]))
    return pvar, cands


def sanitiser_shape(prog, an, rep):
    """cmd / _do_cmd hide the mask_pwd keyword in what they log and raise
    through a masking function: a closure over the secret, a module-level
    helper given the secret, or the idiom written out."""
    R = 'C16.REG.sanitiser'
    for q in ('bert_e.lib.simplecmd.cmd', 'bert_e.lib.simplecmd._do_cmd'):
        g = need_func(an, q)
        rep.evaluated()
        pvar, cands = _mask_candidates(prog, g)
        rep.check(pvar is not None, R, q + ': the mask comes from the '
                  'mask_pwd keyword', g.where(), 'no local is bound to '
                  'kwargs.get/pop("mask_pwd")')
        if pvar is None:
            continue
        idiom = [x for x in walk_local(g.node, include_root=False)
                 if is_replace_if_present(x)]
        rep.check(bool(cands) or bool(idiom) or pvar in _masked_values(g),
                  R, q + ': mask_pwd',
                  g.where(), 'the local sanitiser mask_pwd is gone')
        for m, data, secret in cands:
            ok, shown = _mask_shape(an, m, data, secret)
            rep.check(ok, R, q + ': mask_pwd replaces the password by ***',
                      m.where(), '%s no longer masks on every path: '
                      'returns %s' % (m.name, shown))


def job_report(prog, an, rep):
    R = 'C16.ARG.job-report'
    f = need_func(an, 'bert_e.job.Job.as_dict')
    rets = [r for r in walk_local(f.node, include_root=False)
            if isinstance(r, ast.Return) and isinstance(r.value, ast.Dict)]
    ok = False
    for r in rets:
        for k, v in zip(r.value.keys, r.value.values):
            if is_const(k, 'settings'):
                ok = src(v) == 'self.settings.maps[0]'
    rep.evaluated()
    rep.check(ok, R, f.qname + ': exposes only the per-job settings map',
              f.where(), 'Job.as_dict publishes more than '
              'self.settings.maps[0]: the global settings hold the '
              'passwords')
    j = need_func(an, 'bert_e.job.Job.__init__')
    ok = any(isinstance(n, ast.Assign) and
             src(n.targets[0]) == 'self.settings' and
             src(n.value) == 'SettingsDict(settings, bert_e.settings)'
             for n in walk_local(j.node, include_root=False))
    rep.check(ok, R, j.qname + ': first map is the per-job dict', j.where(),
              'the order of the settings chain changed: maps[0] may be the '
              'global settings')
