"""C06 - the build gate requires a green build on every integration commit.

Decided statically (DESIGN.md section 5, C06): which commits are looked up
and under which key; the ranking / reducer; the outcome table over the five
statuses; who may skip the gate; the gate dominates queue entry and direct
merge; pushed tips precede the lookup; exception families.
"""
import ast

from ..program import AnalysisError, walk_local, dotted
from ..analysis import Spec, src, const_value
from ..rules import (substitute_locals, chained_loop, first_rest, canon, inside, before, GWF, EXC, mpt, need_func, need_call, stores_to,
                     parent_map, outcomes, explicit_exits, strip_wrappers,
                     chained_assign_value, raise_class)
from . import common

DOMAIN = ('SUCCESSFUL', 'INPROGRESS', 'NOTSTARTED', 'STOPPED', 'FAILED')
REQUIRED = {
    'FAILED': ('raise', EXC + '.BuildFailed'),
    'STOPPED': ('raise', EXC + '.BuildFailed'),
    'NOTSTARTED': ('raise', EXC + '.BuildNotStarted'),
    'INPROGRESS': ('raise', EXC + '.BuildInProgress'),
    'SUCCESSFUL': ('return',),
}


def run(prog, an, rep):
    rep.explain(
        'C06: ARG (iterated collection, revision and key of the status '
        'lookup), EXH (ranking tuple + reducer, outcome table by partial '
        'evaluation of the if/elif chain for each of the 5 statuses), MPT '
        '(early exits of check_build_status; gate dominates add_to_queue and '
        'merge_integration_branches; push of new tips precedes the lookup), '
        'REG (exception families, notify_user only under except '
        'TemplateException).')
    rep.assume('the git host returns the status of the right build; git '
               'creates new merge commits when source or target moved')
    rep.run_rules(prog, an, [
        lookup_rules, verdict_after_lookups, ranking_rules, outcome_table,
        early_exits,
        bypass_helper, exception_families, build_gate, pushed_before_lookup,
        integration_vector, tips_refreshed, per_author, in_sync_pairs,
        skew_rules])


def skew_rules(prog, an, rep):
    """The gate reads the build of the tips Bert-E has in its clone.  When
    the integration pull request names another commit, the clone's tip is
    kept only if it contains that commit (the host is late); otherwise
    somebody pushed meanwhile and the evaluation stops.  Asking whether the
    branch contains its own tip is always true: an outdated clone would be
    gated on superseded commits."""
    R = 'C06.MPT.skew'
    f = need_func(an, GWF + '.check_pull_request_skew')
    c = an.cfg(f)
    stores = [n for n in c.nodes.values() if n.kind == 'stmt' and
              isinstance(n.ast, ast.Assign) and any(
                  isinstance(t, ast.Attribute) and t.attr == 'src_commit'
                  for t in n.ast.targets)]
    raises = [n for n in c.nodes.values() if n.kind == 'raise_stmt' and
              (raise_class(an, f, n.ast) or '').endswith(
                  '.PullRequestSkewDetected')]
    rep.floor('C06 skew outcomes (adopt the local tip / stop)',
              min(len(stores), len(raises)), 1)

    def includes_pr_commit(e):
        if not (isinstance(e, ast.Call) and
                isinstance(e.func, ast.Attribute) and
                e.func.attr == 'includes_commit' and len(e.args) == 1):
            return False
        a = canon(f, e.args[0])
        return a.endswith('.src_commit')
    yes = an.branch_nodes(f, includes_pr_commit, True)
    no = an.branch_nodes(f, includes_pr_commit, False)
    for n in stores:
        rep.evaluated()
        pr = [t for t in n.ast.targets if isinstance(t, ast.Attribute)][0]
        ok, path = c.must_pass(yes, n.id)
        rep.check(ok and bool(yes), R, f.qname + ': the local tip replaces '
                  'the pull request\'s commit only if it contains it',
                  f.where(n), 'the commit of the integration pull request '
                  'is overwritten without checking that the local branch '
                  'contains it: an outdated clone goes on with superseded '
                  'tips', path=c.describe_path(path))
        tested = [x for t in an.test_nodes(f, includes_pr_commit)
                  for x in ast.walk(t.ast) if includes_pr_commit(x)]
        rep.check(all(canon(f, x.args[0]) == canon(f, pr) for x in tested),
                  R, f.qname + ': the commit looked for is that of the same '
                  'pull request', f.where(n), 'includes_commit(%s) while %s '
                  'is overwritten' % ([src(x.args[0]) for x in tested],
                                      src(pr)))
    for n in raises:
        rep.evaluated()
        ok, path = c.must_pass(no, n.id)
        rep.check(ok and bool(no), R, f.qname + ': stops when the local '
                  'branch does not contain the pull request\'s commit',
                  f.where(n), 'PullRequestSkewDetected is not tied to '
                  'includes_commit(<PR commit>) being false',
                  path=c.describe_path(path))


def per_author(prog, an, rep):
    common.per_author_options(prog, an, rep, 'C06')


def tips_refreshed(prog, an, rep):
    """update_integration_branches re-merges (target, predecessor) into
    every integration branch on every evaluation: that is what makes a
    moved source OR target produce a new tip (hence NOTSTARTED)."""
    R = 'C06.MPT.tips-refreshed'
    f = need_func(an, GWF + '.integration.update_integration_branches')
    helpers = ('bert_e.workflow.git_utils.consecutive_merge',
               'bert_e.workflow.git_utils.robust_merge')

    def helper_calls(unit):
        return [x for x in prog.calls_in(unit)
                if prog.callee(unit, x)[0] == 'func' and
                prog.callee(unit, x)[1] in helpers]
    # the re-merge lives in the nested update() closure, or (when that was
    # folded into its caller) in the loop of the function itself
    units = [g for g in f.nested.values() if helper_calls(g)] or \
        ([f] if helper_calls(f) else [])
    if not units:
        raise AnalysisError('anchor-missing merge helper calls in ' +
                            f.qname)
    u = units[0]
    c = an.cfg(u)
    done = []
    n = 0
    preds = set()
    for nd in c.nodes.values():
        if nd.kind != 'stmt':
            continue
        for x in ast.walk(nd.ast):
            if isinstance(x, ast.Call) and x in helper_calls(u):
                n += 1
                done += c.done_of(nd)
                args = [src(a) for a in x.args]
                ok = len(args) == 3 and args[1] == args[0] + '.dst_branch' \
                    and isinstance(x.args[2], ast.Name) and \
                    isinstance(x.args[0], ast.Name)
                if ok and u is not f:
                    ok = args[0] == u.params[0] and args[2] == u.params[1]
                if ok:
                    preds.add((args[0], args[2]))
                rep.check(ok, R, u.qname + ': merges the target and the '
                          'predecessor into the integration branch',
                          u.where(x), 'merge helper called with %s' % args)
    rep.floor('C06 merge helper calls in update()', n, 2)
    rep.evaluated()
    if u is not f:
        ok, path = c.must_pass(done, c.exit, use_exc=False)
        rep.check(ok, R, u.qname + ': every normal return has re-merged '
                  'target and predecessor', u.where(), 'update() can return '
                  'without merging: a moved target (or source) leaves the '
                  'old tip and its stale build status in place',
                  path=c.describe_path(path))
        calls = [x for x in prog.calls_in(f)
                 if prog.callee(f, x) == ('func', u.qname)]
    else:
        calls = helper_calls(f)
    # and it is applied to every later integration branch, chained
    cf = an.cfg(f)
    loops = [lp for lp in walk_local(f.node, include_root=False)
             if isinstance(lp, ast.For) and any(
                 x in calls for x in ast.walk(lp))]
    ok = len(loops) == 1 and (len(calls) == 1 or u is f)
    if ok:
        lp = loops[0]
        ch = chained_loop(an, f, lp)
        ok = ch is not None
        if ok:
            cur, prev = ch
            if u is not f:
                ok = [src(a) for a in calls[0].args] == [cur, prev]
                site_done = [d for nd in cf.nodes.values()
                             if nd.kind == 'stmt' and
                             any(x is calls[0] for x in ast.walk(nd.ast))
                             for d in cf.done_of(nd)]
            else:
                ok = preds == {(cur, prev)}
                site_done = done
            # every iteration re-merges
            head = cf.stmt_node[id(lp)]
            for s0 in [s_ for s_ in cf.succ[head]
                       if cf.nodes[s_].kind == 'true']:
                if cf.path(s0, head, removed=set(site_done), use_exc=False):
                    ok = False
    rep.evaluated()
    rep.check(ok, R, f.qname + ': update(branch, prev) for every later '
              'integration branch', f.where(), 'update is applied as %s in '
              '%s' % ([src(x) for x in calls],
                      [src(lp.iter) for lp in loops]))


def bypass_helper(prog, an, rep):
    common.bypass_helper(prog, an, rep, 'bypass_build_status', 'C06')


def in_sync_pairs(prog, an, rep):
    common.in_sync_pairs(prog, an, rep, 'C06')


def build_gate(prog, an, rep):
    common.build_gate_dominates(prog, an, rep, 'C06')


def gate_func(an):
    return need_func(an, GWF + '.check_build_status')


def units(f):
    """f and its nested functions (the lookup lives in a nested def)."""
    return [f] + list(f.nested.values())


def find_lookup(an, f):
    spec = Spec.method('get_build_status')
    out = []
    for u in units(f):
        for c in an.direct_calls(u, spec):
            out.append((u, c))
    return out


def lookup_rules(prog, an, rep):
    f = gate_func(an)
    R = 'C06.ARG.lookup'
    looks = find_lookup(an, f)
    if not looks:
        # no status lookup at all: the gate cannot require anything
        rep.violation(R, f.qname + ': status lookup', f.where(),
                      'check_build_status no longer looks up any build '
                      'status (get_build_status call missing)')
        return
    wparam = f.params[1] if len(f.params) > 1 else None
    for u, call in looks:
        rep.evaluated()
        if len(call.args) < 2:
            rep.violation(R, f.qname + ': lookup args', u.where(call),
                          'get_build_status called with fewer than 2 '
                          'positional arguments')
            continue
        rev, key = call.args[0], call.args[1]
        if isinstance(rev, ast.Name):
            # the tip kept in a local just before the lookup
            rev = chained_assign_value(u, rev.id) or rev
        # revision = <elem>.get_latest_commit() evaluated in the same call
        ok_rev = isinstance(rev, ast.Call) and \
            isinstance(rev.func, ast.Attribute) and \
            rev.func.attr == 'get_latest_commit' and \
            isinstance(rev.func.value, ast.Name)
        rep.check(ok_rev, R, f.qname + ': revision is the current tip',
                  u.where(call),
                  'revision argument %r is not <branch>.get_latest_commit() '
                  'evaluated at lookup time (stale or foreign sha)' %
                  src(rev), detail=src(rev))
        # key traces to job.settings.build_key
        kexpr = key
        if isinstance(kexpr, ast.Name):
            v = chained_assign_value(f, kexpr.id) or \
                chained_assign_value(u, kexpr.id)
            kexpr = v if v is not None else kexpr
        rep.check(src(kexpr).endswith('settings.build_key'), R,
                  f.qname + ': key is settings.build_key', u.where(call),
                  'build key argument %r does not come from '
                  'job.settings.build_key' % src(key), detail=src(kexpr))
        if not ok_rev:
            continue
        elem = rev.func.value.id
        # the element is the parameter of the nested helper -> follow its
        # call sites; or a loop / comprehension variable directly
        sites = []
        if u is not f and elem in u.params:
            idx = u.params.index(elem)
            for c2 in an.prog.calls_in(f):
                cal = prog.callee(f, c2)
                if cal[0] == 'func' and cal[1] == u.qname and \
                        len(c2.args) > idx and \
                        isinstance(c2.args[idx], ast.Name):
                    sites.append((c2, c2.args[idx].id))
            if not sites:
                rep.violation(R, f.qname + ': lookup helper unused',
                              u.where(), 'the status helper is never called '
                              'on the integration branches')
        else:
            sites.append((call, elem))
        pm = parent_map(f.node)
        for node, var in sites:
            it = enclosing_iter(pm, node, var)
            if it is None:
                rep.violation(R, f.qname + ': iteration over wbranches',
                              f.where(node), 'status lookup on %r is not '
                              'inside an iteration' % var)
                continue
            iter_expr, ifs = it
            cond = conditional_between(pm, node)
            rep.check(cond is None, R, f.qname + ': lookup is unconditional '
                      'per element', f.where(node),
                      'the status lookup is guarded by %s: some integration '
                      'commits are not looked up' % cond)
            ok = isinstance(iter_expr, ast.Name) and \
                iter_expr.id == wparam and not ifs
            rep.check(ok, R, f.qname + ': iterates the whole wbranches '
                      'parameter', f.where(node),
                      'statuses are fetched over %r%s instead of the whole '
                      '%r parameter (an integration commit is skipped)' %
                      (src(iter_expr), ' with a filter' if ifs else '',
                       wparam), detail=src(iter_expr))


def conditional_between(pm, node):
    """A conditional construct between the lookup call and its enclosing
    iteration (IfExp, and/or, if statement), or None."""
    n = node
    while n in pm:
        p = pm[n]
        if isinstance(p, ast.IfExp) and n is not p.test:
            return 'a conditional expression (%s)' % src(p.test)
        if isinstance(p, ast.BoolOp) and p.values[0] is not n:
            return 'a short-circuit operator'
        if isinstance(p, ast.If) and n is not p.test:
            return 'an if statement (%s)' % src(p.test)
        if isinstance(p, (ast.ListComp, ast.SetComp, ast.DictComp,
                          ast.GeneratorExp, ast.For, ast.FunctionDef)):
            return None
        n = p
    return None


def enclosing_iter(pm, node, var):
    n = node
    while n in pm:
        n = pm[n]
        if isinstance(n, (ast.ListComp, ast.SetComp, ast.DictComp,
                          ast.GeneratorExp)):
            for g in n.generators:
                if var in {x.id for x in ast.walk(g.target)
                           if isinstance(x, ast.Name)}:
                    return g.iter, list(g.ifs)
        if isinstance(n, (ast.For, ast.AsyncFor)):
            if var in {x.id for x in ast.walk(n.target)
                       if isinstance(x, ast.Name)}:
                return n.iter, []
    return None


def verdict_after_lookups(prog, an, rep):
    """No waiting verdict (BuildNotStarted / BuildInProgress) is issued inside
    an iteration that is still looking statuses up: the tips not yet looked
    up may be FAILED (must be reported as failed, not waited for) or not
    green at all.  Necessary for "if ANY is FAILED or STOPPED the author is
    told"; a verdict computed after the whole vector is known (the ranking
    + reducer of the clean tree, or a second pass over the collected
    statuses) satisfies it."""
    f = gate_func(an)
    R = 'C06.ORD.verdict-after-lookups'
    looks = find_lookup(an, f)
    helpers = {u.node.name for u, _ in looks if u is not f}
    pm = parent_map(f.node)

    def looks_up(tree):
        for n in ast.walk(tree):
            if isinstance(n, ast.Call):
                if isinstance(n.func, ast.Attribute) and \
                        n.func.attr == 'get_build_status':
                    return True
                if isinstance(n.func, ast.Name) and n.func.id in helpers:
                    return True
        return False

    for u in units(f):
        for n in walk_local(u.node):
            if not isinstance(n, ast.Raise) or n.exc is None:
                continue
            cls = raise_class(an, u, n)
            # (BuildFailed inside the loop is sound: a failure is final
            # whatever the later tips say)
            if cls not in (EXC + '.BuildNotStarted',
                           EXC + '.BuildInProgress'):
                continue
            rep.evaluated()
            loop, m = None, n
            while m in pm and m is not u.node:
                m = pm[m]
                if isinstance(m, (ast.For, ast.AsyncFor, ast.While)) and \
                        looks_up(m):
                    loop = m
                    break
            rep.check(loop is None, R,
                      '%s: %s decided after every status is known' %
                      (f.qname, cls.rpartition('.')[2]), u.where(n),
                      '%s is raised inside the loop at line %s that is '
                      'still looking statuses up: the tips after the '
                      'current one are never consulted, so a FAILED / '
                      'STOPPED tip behind a waiting one is not reported '
                      '(and a waiting verdict hides it)' %
                      (cls.rpartition('.')[2],
                       getattr(loop, 'lineno', '?')))


def find_ranking(f):
    """The status ranking literal: a tuple/list of >= 4 string constants
    containing 'SUCCESSFUL' (possibly inside enumerate(...)) or a dict
    literal status -> rank."""
    found = []
    # (lambdas included: the ranking may sit in the key= of the reducer)
    for n in ast.walk(f.node):
        if isinstance(n, (ast.Tuple, ast.List)) and len(n.elts) >= 4 and \
                all(isinstance(e, ast.Constant) and isinstance(e.value, str)
                    for e in n.elts) and \
                'SUCCESSFUL' in [e.value for e in n.elts]:
            found.append(('seq', n, [e.value for e in n.elts]))
        if isinstance(n, ast.Dict) and len(n.keys) >= 4 and \
                all(isinstance(k, ast.Constant) and isinstance(k.value, str)
                    for k in n.keys) and \
                'SUCCESSFUL' in [k.value for k in n.keys]:
            try:
                d = {k.value: const_value(v) for k, v in zip(n.keys,
                                                             n.values)}
            except AnalysisError:
                continue
            found.append(('dict', n, d))
    return found


def ranking_rules(prog, an, rep):
    f = gate_func(an)
    R = 'C06.EXH.ranking'
    ranks = find_ranking(f)
    if len(ranks) != 1:
        raise AnalysisError('anchor-missing ranking literal in %s (found %d)'
                            % (f.qname, len(ranks)))
    kind, node, val = ranks[0]
    rank = {s: i for i, s in enumerate(val)} if kind == 'seq' else val
    rep.check(set(rank) == set(DOMAIN), R, f.qname + ': ranking domain',
              f.where(node), 'ranking covers %s, expected exactly %s' %
              (sorted(rank), sorted(DOMAIN)), detail=str(rank))
    if set(rank) != set(DOMAIN):
        return
    # reducer: max(...) / min(...) / sorted(...)[-1]
    reducers = []
    for c in an.prog.calls_in(f):
        if isinstance(c.func, ast.Name) and c.func.id in ('max', 'min') and \
                any(k.arg == 'key' for k in c.keywords):
            reducers.append(c)
    if len(reducers) != 1:
        raise AnalysisError('anchor-missing worst-status reducer in %s '
                            '(found %d max/min with key=)' %
                            (f.qname, len(reducers)))
    red = reducers[0]
    name = red.func.id
    wparam = f.params[1]
    rep.check(len(red.args) == 1 and isinstance(red.args[0], ast.Name) and
              red.args[0].id == wparam, R,
              f.qname + ': reducer ranges over all wbranches', f.where(red),
              'the worst status is taken over %s, not the whole %r' %
              (src(red.args[0]) if red.args else '?', wparam))
    sign = 1 if name == 'max' else -1
    worst_first = sorted(DOMAIN, key=lambda s: -sign * rank[s])
    # "worst == SUCCESSFUL <=> all SUCCESSFUL": SUCCESSFUL must be the
    # unique best element under the reducer
    best = sorted(DOMAIN, key=lambda s: sign * rank[s])[0]
    rep.check(best == 'SUCCESSFUL' and
              list(rank.values()).count(rank['SUCCESSFUL']) == 1, R,
              f.qname + ': SUCCESSFUL is the unique best rank under %s' %
              name, f.where(node),
              'with reducer %s and ranking %s the "worst" status can be '
              'SUCCESSFUL while another branch is %s' %
              (name, rank, best if best != 'SUCCESSFUL' else 'not green'),
              detail='%s over %s' % (name, rank))
    fail = min(sign * rank['FAILED'], sign * rank['STOPPED'])
    wait = max(sign * rank['NOTSTARTED'], sign * rank['INPROGRESS'])
    rep.check(fail > wait, R, f.qname + ': failure outranks waiting',
              f.where(node), 'FAILED/STOPPED do not outrank NOTSTARTED/'
              'INPROGRESS: a failed build is reported as "waiting"',
              detail=' > '.join(worst_first))


def outcome_table(prog, an, rep, pid='C06'):
    f = gate_func(an)
    R = pid + '.EXH.outcome'
    c = an.cfg(f)
    # the decision variable: compared against status literals in tests
    cand = {}
    for n in c.nodes.values():
        if n.kind == 'test' and isinstance(n.ast, ast.Compare) and \
                isinstance(n.ast.left, ast.Name):
            lits = [x.value for x in ast.walk(n.ast)
                    if isinstance(x, ast.Constant) and x.value in DOMAIN]
            if lits:
                cand.setdefault(n.ast.left.id, []).append(n)
    if len(cand) != 1:
        raise AnalysisError('anchor-missing status dispatch variable in %s '
                            '(candidates %s)' % (f.qname, sorted(cand)))
    var, tests = next(iter(cand.items()))
    st = stores_to(f, var)
    if len(st) != 1:
        raise AnalysisError('status variable %s has %d bindings' %
                            (var, len(st)))
    start = c.done_node[id(st[0][0])]
    for lit in DOMAIN:
        rep.evaluated()
        got = outcomes(an, f, start, {var: lit})
        want = {REQUIRED[lit]}
        inst = '%s: %s -> %s' % (f.qname, lit, REQUIRED[lit][-1]
                                 .rpartition('.')[2])
        rep.check(got == want, R, inst, f.where(st[0][0]),
                  'status %s leads to %s, required %s' %
                  (lit, sorted(map(str, got)), sorted(map(str, want))),
                  detail=str(sorted(map(str, got))))
    # no literal outside the domain is given a passing / silent outcome
    extra = set()
    for t in tests:
        for x in ast.walk(t.ast):
            if isinstance(x, ast.Constant) and isinstance(x.value, str) \
                    and x.value not in DOMAIN:
                extra.add(x.value)
    rep.check(not extra, R, f.qname + ': no status literal outside domain',
              f.where(), 'dispatch mentions unknown status %s' %
              sorted(extra))


def early_exits(prog, an, rep):
    f = gate_func(an)
    R = 'C06.MPT.early-exit'
    c = an.cfg(f)
    lookup_done = []
    spec = Spec.method('get_build_status')
    # the lookup may be in a nested helper: gates are statements of f that
    # contain the lookup or a call to the nested helper
    helpers = {u.qname for u in f.nested.values()
               if an.direct_calls(u, spec)}

    def pred(call):
        if an.call_matches(f, call, spec):
            return True
        cal = prog.callee(f, call)
        return cal[0] == 'func' and cal[1] in helpers

    from ..cfg import node_contains_call
    for n in c.stmt_nodes_where(lambda a: node_contains_call(a, pred)):
        lookup_done.extend(c.done_of(n))
    byp = an.branch_nodes(
        f, lambda e: any(an.call_matches(f, x, Spec.func(
            GWF + '.utils.bypass_build_status'))
            for x in ast.walk(e) if isinstance(x, ast.Call)), True)
    # falsy key: name bound to settings.build_key, or the attribute itself
    def is_key(e):
        if isinstance(e, ast.Name):
            v = chained_assign_value(f, e.id)
            return v is not None and src(v).endswith('settings.build_key')
        return src(e).endswith('settings.build_key')
    nokey = an.branch_nodes(f, is_key, False)
    for loop in walk_local(f.node, include_root=False):
        if isinstance(loop, ast.For) and any(
                isinstance(x, ast.Call) and pred(x)
                for x in ast.walk(loop)):
            lookup_done.append(c.stmt_node[id(loop)])
    rep.floor('C06 statements performing the status lookup',
              len(lookup_done), 1)
    ok, path = c.must_pass(lookup_done + byp + nokey, c.exit, use_exc=False)
    rep.evaluated()
    rep.check(ok, R, f.qname + ': normal return without lookup only via '
              'bypass_build_status or empty build_key', f.where(),
              'check_build_status can return normally without looking up '
              'statuses, outside the bypass / no-build-key exits',
              path=c.describe_path(path))


def exception_families(prog, an, rep):
    R = 'C06.REG.exception-family'
    T = EXC + '.TemplateException'
    S = EXC + '.SilentException'
    for name, fam, notfam in (('BuildFailed', T, S),
                              ('BuildNotStarted', S, T),
                              ('BuildInProgress', S, T)):
        k = prog.cls(EXC + '.' + name)
        rep.evaluated()
        rep.check(prog.is_subclass(k, fam) and not prog.is_subclass(k, notfam),
                  R, '%s in %s' % (name, fam.rpartition('.')[2]), k.where(),
                  '%s must derive from %s and not from %s (comment vs '
                  'silent wait)' % (name, fam.rpartition('.')[2],
                                    notfam.rpartition('.')[2]))
    common.notify_only_under_template(prog, an, rep, 'C06')


def pushed_before_lookup(prog, an, rep):
    f = need_func(an, GWF + '._handle_pull_request')
    mpt(an, rep, 'C06.MPT.push-before-lookup', f,
        Spec.func(GWF + '.check_build_status'),
        [Spec.func('bert_e.workflow.git_utils.push')], depth=1,
        required_targets=0,
        why='new integration tips are pushed before their status is read')


def integration_vector(prog, an, rep):
    """create_integration_branches yields the ghost (source) branch first,
    then one branch per dst_branches[1:]."""
    R = 'C06.ARG.vector'
    f = need_func(an, GWF + '.integration.create_integration_branches')
    c = an.cfg(f)
    loops = [n for n in walk_local(f.node, include_root=False)
             if isinstance(n, ast.For)]
    if len(loops) != 1:
        raise AnalysisError('create_integration_branches: expected one loop')
    loop = loops[0]
    it = loop.iter
    ok_iter = isinstance(it, ast.Subscript) and \
        isinstance(it.slice, ast.Slice) and it.slice.upper is None and \
        it.slice.step is None and it.slice.lower is not None and \
        isinstance(it.slice.lower, ast.Constant) and \
        it.slice.lower.value == 1 and \
        src(it.value).endswith('cascade.dst_branches')
    rep.check(ok_iter, R, f.qname + ': one branch per dst_branches[1:]',
              f.where(loop), 'loop iterates %s, expected '
              'job.git.cascade.dst_branches[1:]' % src(it), detail=src(it))
    # a yield before the loop whose value is a GhostIntegrationBranch on src
    pre = []
    for st in f.node.body:
        if st is loop:
            break
        for n in walk_local(st):
            if isinstance(n, ast.Yield) and n.value is not None:
                pre.append(n)
    ghost_ok = False
    for y in pre:
        if isinstance(y.value, ast.Name):
            vals = [v for _, v in stores_to(f, y.value.id)]
            # (the object may have gone through another local first)
            vals += [substitute_locals(f, y.value)]
            for v in vals:
                if isinstance(v, ast.Call):
                    cal = prog.callee(f, v)
                    if cal[0] == 'class' and \
                            cal[1].endswith('.GhostIntegrationBranch'):
                        args = ' '.join(canon(f, a) for a in v.args)
                        if 'src_branch' in args:
                            ghost_ok = True
    rep.check(ghost_ok, R, f.qname + ': source tip is the first element',
              f.where(), 'no GhostIntegrationBranch built on the source '
              'branch is yielded before the loop (source tip not vetted)')
    # every iteration yields
    ys = [n for n in c.nodes.values() if n.kind == 'done' and
          isinstance(n.ast, ast.Expr) and
          isinstance(n.ast.value, ast.Yield) and
          inside(loop, n)]
    head = c.stmt_node[id(loop)]
    tb = [s for s in c.succ[head] if c.nodes[s].kind == 'true']
    ok = True
    path = None
    for t in tb:
        p = c.path(t, head, removed={y.id for y in ys}, use_exc=False)
        if p is not None:
            ok, path = False, p
    rep.check(ok and bool(ys), R, f.qname + ': every iteration yields its '
              'branch', f.where(loop), 'an iteration can finish without '
              'yielding the integration branch',
              path=c.describe_path(path))
