"""C02 - a changeset lands on all of its target branches or none (atomic
publication clause)."""
import ast

from ..program import AnalysisError, walk_local, dotted
from ..analysis import Spec, src, const_value
from ..rules import (match_guard_table, literal_text, locals_bound_to, flow_canon, canon, template_sites, GWF, EXC, mpt, need_func, stores_to, raise_class,
                     parent_map, kw, is_const, strip_wrappers)
from . import common, gitcmds
from .c03 import bind_args
from .c12 import _first_exit

GIT = 'bert_e.lib.git'
GU = 'bert_e.workflow.git_utils'
Q = GWF + '.queueing'
QUEUE_PRODUCERS = {Q + '.get_queue_branch', Q + '.get_queue_integration_branch'}


def run(prog, an, rep):
    rep.explain(
        'C02: CMD (the only --all push is `git push --all --atomic`), '
        'WMC/ARG (the four named, non-atomic pushes carry only w/ and q/ '
        'refs or a single ref), KWC (do_push never enabled on a merge; '
        'create/remove publish directly only for q/ branches or the admin '
        'deletion), MPT (the remote update inside Branch.remove/create/'
        'merge is guarded by do_push; one atomic publication post-dominates '
        'the destination merges; validate before add_to_queue; clone reset '
        'before dispatch).')
    rep.assume('the remote honours --atomic; convergence of a re-delivered '
               'event to the same trees is not decided')
    rep.run_rules(prog, an, [atomic_push_all, named_pushes, do_push_sites,
                             guarded, one_publication, queue_validation,
                             queue_validation_guards, fresh_clone])


def atomic_push_all(prog, an, rep):
    R = 'C02.CMD.atomic'
    cmds, _ = gitcmds.census(prog, an)
    alls = [c for c in cmds if c.sub == 'push' and '--all' in c.tokens]
    rep.floor('C02 push --all command variants', len(alls), 1)
    for c in alls:
        rep.evaluated()
        rep.check(c.f.qname == GIT + '.Repository.push_all' and
                  '--atomic' in c.tokens and '--mirror' not in c.tokens, R,
                  '%s: `%s`' % (c.f.qname, c.text.strip()), c.where,
                  'the all-branches push is not atomic: a crash or a '
                  'rejected ref leaves a changeset on some targets only')
    for c in cmds:
        if c.sub == 'push' and '--mirror' in c.tokens:
            rep.violation(R, c.f.qname + ': --mirror', c.where,
                          'mirror push')
    f = need_func(an, GU + '.push')
    # the wrapper publishes through push_all exactly when no branch list
    refs = [x for x in walk_local(f.node, include_root=False)
            if isinstance(x, ast.Attribute) and x.attr in ('push',
                                                           'push_all')]
    rep.check(sorted(x.attr for x in refs) == ['push', 'push_all'], R,
              f.qname + ': two publication primitives', f.where(),
              'git_utils.push references %s' % [src(x) for x in refs])


def elem_producers(an, f, name, seen=None):
    """Producers of the elements of list variable `name` in f (a parameter:
    of what every caller passes)."""
    prog = an.prog
    seen = seen if seen is not None else set()
    if (f.qname, name) in seen:
        return set()
    seen.add((f.qname, name))
    out = set()

    def of_expr(e):
        return expr_producers(an, f, e, seen)

    def of_elem(e):
        return _elem_producers(an, f, e, seen)

    for st, v in stores_to(f, name):
        if v is not None:
            out |= of_expr(v)
        elif isinstance(st, ast.Assign):
            # starred unpacking: rest of the right-hand list
            out |= of_expr(st.value)
        else:
            out.add('unknown-binding:' + name)
    for n in walk_local(f.node, include_root=False):
        if isinstance(n, ast.Call) and isinstance(n.func, ast.Attribute) and \
                isinstance(n.func.value, ast.Name) and \
                n.func.value.id == name:
            if n.func.attr == 'append' and n.args:
                out |= of_elem(n.args[0])
            elif n.func.attr in ('extend',) and n.args:
                out |= of_expr(n.args[0])
            elif n.func.attr == 'insert' and len(n.args) > 1:
                out |= of_elem(n.args[1])
    if name in f.params:
        callers = 0
        for g in prog.all_funcs():
            for call in an.direct_calls(g, Spec.func(f.qname)):
                callers += 1
                bound = bind_args(f, call)
                if name in bound:
                    out |= expr_producers(an, g, bound[name], seen)
                else:
                    out.add('unknown-argument:' + name)
        if not callers:
            out.add('unknown-parameter:' + name)
    return out


def expr_producers(an, f, e, seen=None):
    """Producers of the elements of the list expression e (in f)."""
    prog = an.prog
    seen = seen if seen is not None else set()
    e = strip_wrappers(e)
    if isinstance(e, ast.Name):
        return elem_producers(an, f, e.id, seen)
    if isinstance(e, (ast.ListComp, ast.GeneratorExp)):
        g0 = e.generators[0]
        if len(e.generators) == 1 and isinstance(g0.target, ast.Name) and \
                isinstance(e.elt, ast.Name) and e.elt.id == g0.target.id:
            return expr_producers(an, f, g0.iter, seen)   # a filter
        return _elem_producers(an, f, e.elt, seen)
    if isinstance(e, (ast.List, ast.Tuple)):
        r = set()
        for x in e.elts:
            r |= expr_producers(an, f, x.value, seen) \
                if isinstance(x, ast.Starred) else \
                _elem_producers(an, f, x, seen)
        return r
    if isinstance(e, ast.BinOp) and isinstance(e.op, ast.Add):
        return expr_producers(an, f, e.left, seen) | \
            expr_producers(an, f, e.right, seen)
    if isinstance(e, ast.Subscript) and isinstance(e.slice, ast.Slice):
        return expr_producers(an, f, e.value, seen)
    if isinstance(e, ast.Call):
        cal = prog.callee(f, e)
        if cal[0] == 'func' and isinstance(e.func, ast.Name) and \
                e.func.id not in ('list',):
            return {'elements-of:' + cal[1]}
    return {'unknown:' + src(e)[:40]}


def _elem_producers(an, f, e, seen):
    prog = an.prog
    if isinstance(e, ast.Call):
        cal = prog.callee(f, e)
        if cal[0] in ('func', 'class'):
            return {cal[1]}
        return {'unknown-call:' + src(e)[:40]}
    if isinstance(e, ast.Subscript) and not isinstance(e.slice, ast.Slice):
        return expr_producers(an, f, e.value, seen)     # xs[0]
    if isinstance(e, ast.Name):
        r = set()
        for st, v in stores_to(f, e.id):
            if v is None:
                # unpacking `a, *b = xs`: element of xs
                if isinstance(st, ast.Assign):
                    r |= expr_producers(an, f, st.value, seen)
                else:
                    r.add('unknown-binding:' + e.id)
            else:
                r |= _elem_producers(an, f, v, seen)
        return r or {'unknown-name:' + e.id}
    return {'unknown:' + src(e)[:40]}


def named_pushes(prog, an, rep):
    R = 'C02.ARG.named-push'
    push = need_func(an, GU + '.push')
    n = 0
    counts = {'integration': 0, 'queue': 0}
    for f in prog.all_funcs():
        if f.module.name == 'bert_e.git_host.mock':
            continue
        for call in an.direct_calls(f, Spec.func(push.qname)):
            br = kw(call, 'branches')
            if br is None and len(call.args) > 1:
                br = call.args[1]
            if br is None or is_const(br, None):
                continue
            n += 1
            rep.evaluated()
            inst = '%s: push(%s)' % (f.qname, src(br))
            # (c) single ref
            if isinstance(br, ast.List) and len(br.elts) == 1 and \
                    not isinstance(br.elts[0], ast.Starred):
                rep.ok(R, inst + ' single ref', f.where(call),
                       'one ref update is atomic by itself')
                continue
            # (a) integration branches minus the ghost / source branch:
            # a slice from 1 on, or a filter that drops the ghost
            WB = 'elements-of:' + GWF + \
                '.integration.create_integration_branches'
            if isinstance(br, ast.Subscript) and \
                    isinstance(br.slice, ast.Slice) and \
                    isinstance(br.value, ast.Name):
                lo = br.slice.lower
                prods = elem_producers(an, f, br.value.id)
                ok = isinstance(lo, ast.Constant) and \
                    isinstance(lo.value, int) and lo.value >= 1 and \
                    br.slice.step is None and prods == {WB}
                counts['integration'] += 1
                rep.check(ok, R, inst, f.where(call),
                          'a non-atomic named push may carry the source '
                          'branch or foreign refs (slice lower bound %s, '
                          'producers %s)' % (src(lo) if lo else None,
                                             sorted(prods)),
                          detail=str(sorted(prods)))
                continue
            if isinstance(br, (ast.ListComp, ast.GeneratorExp)) and \
                    len(br.generators) == 1 and \
                    isinstance(br.generators[0].target, ast.Name) and \
                    isinstance(br.elt, ast.Name) and \
                    br.elt.id == br.generators[0].target.id:
                g0 = br.generators[0]
                v = g0.target.id
                drops_ghost = any(
                    ' '.join(src(c_).split()) in (
                        'not isinstance(%s, GhostIntegrationBranch)' % v,
                        'type(%s) is not GhostIntegrationBranch' % v)
                    for c_ in g0.ifs)
                prods = expr_producers(an, f, g0.iter)
                counts['integration'] += 1
                rep.check(drops_ghost and prods == {WB}, R, inst,
                          f.where(call), 'a non-atomic named push may carry '
                          'the source branch or foreign refs (filter %s, '
                          'producers %s)' % ([src(c_) for c_ in g0.ifs],
                                             sorted(prods)),
                          detail=str(sorted(prods)))
                continue
            # (b) queue branches only
            if isinstance(br, ast.Name):
                prods = elem_producers(an, f, br.id)
                counts['queue'] += 1
                rep.check(bool(prods) and prods <= QUEUE_PRODUCERS, R, inst,
                          f.where(call), 'a non-atomic named push carries '
                          'refs produced by %s (only q/ and q/w/ branches '
                          'are allowed)' % sorted(prods - QUEUE_PRODUCERS),
                          detail=str(sorted(prods)))
                continue
            rep.violation(R, inst, f.where(call), 'a non-atomic named push '
                          'of %s: it may carry destination refs' % src(br))
    rep.floor('C02 named push call sites', n, 2)
    rep.floor('C02 named pushes of integration branches',
              counts['integration'], 1)
    rep.floor('C02 named pushes of queue branches', counts['queue'], 1)
    # what create_integration_branches yields after the first element are
    # w/ branches (names built from the 'w/{}/{}' constant)
    f = need_func(an, GWF + '.integration.create_integration_branches')
    fmts = [t for _, t, _ in template_sites(f)]
    rep.check(fmts == ['w/{}/{}'], R, f.qname + ': yields w/ branches',
              f.where(), 'integration branch names are built from %s' % fmts)
    for q, pref in ((Q + '.get_queue_branch', 'q/{}'),
                    (Q + '.get_queue_integration_branch', 'q/w/{}/{}/{}')):
        g = need_func(an, q)
        fm = [t for _, t, _ in template_sites(g)]
        rep.check(fm == [pref], R, g.qname + ': produces %s names' % pref,
                  g.where(), 'names are built from %s' % fm)


def do_push_sites(prog, an, rep):
    R = 'C02.KWC.do-push'
    n = 0
    fam_methods = ('merge', 'create', 'remove')
    for f in prog.all_funcs():
        if f.module.name == 'bert_e.git_host.mock':
            continue
        for call in prog.calls_in(f):
            fn = call.func
            if not (isinstance(fn, ast.Attribute) and fn.attr in fam_methods):
                continue
            tg = an.call_targets(f, call)
            if not any(t.startswith(GIT + '.Branch.') or
                       t.startswith(GWF + '.branches.') for t in tg):
                continue
            recv = src(fn.value)
            if recv.startswith('super('):
                continue
            n += 1
            rep.evaluated()
            v = common.do_push_at(call, fn.attr)
            inst = '%s: %s.%s(do_push=%s)' % (f.qname, recv, fn.attr, v)
            if fn.attr == 'merge':
                rep.check(v is False, R, inst, f.where(call),
                          'a merge pushes its result immediately: '
                          'destination refs are published one by one')
            elif fn.attr == 'create':
                ok = v is False or f.qname == Q + '.get_queue_branch'
                rep.check(ok, R, inst, f.where(call), 'a branch is created '
                          'and pushed immediately outside get_queue_branch')
            else:
                ok = v is False or f.qname in (
                    'bert_e.jobs.delete_branch.do_delete',
                    GWF + '.branches.QueueCollection.delete')
                rep.check(ok, R, inst, f.where(call), 'a branch deletion '
                          'is pushed immediately outside the queue deletion '
                          '/ the admin delete job')
    rep.floor('C02 Branch.merge/create/remove call sites', n, 30)


def guarded(prog, an, rep):
    common.guarded_primitives(prog, an, rep, 'C02')


def one_publication(prog, an, rep):
    R = 'C02.MPT.one-publication'
    for q, final in ((GWF + '.integration.merge_integration_branches',
                      None),
                     (Q + '.handle_merge_queues', EXC + '.Merged')):
        f = need_func(an, q)
        c = an.cfg(f)
        sites = common.publishing_sites(an, f)
        direct = {}
        for u, call, prim in sites:
            direct.setdefault((u.qname, call.lineno), []).append(prim)
        # publication statements of f itself
        pubs = []
        for n in c.nodes.values():
            if n.kind not in ('stmt', 'return', 'test', 'iter'):
                continue
            for x in ast.walk(n.ast):
                if isinstance(x, ast.Call):
                    sub = _site_publishes(an, f, x)
                    if sub:
                        pubs.append((n, x, sub))
        rep.evaluated()
        all_atomic = [p_ for p_ in pubs
                      if an.call_matches(f, p_[1], Spec.func(GU + '.push'))
                      and not _has_branches(p_[1])]
        others = [p_ for p_ in pubs if p_ not in all_atomic]
        rep.check(len(all_atomic) == 1 and not others, R,
                  f.qname + ': exactly one remote update, the atomic '
                  'push-all', f.where(),
                  'remote updates in %s: %s' % (f.name, [
                      '%s@L%d -> %s' % (src(x)[:40], x.lineno, s)
                      for _, x, s in pubs]),
                  detail=str([src(x)[:50] for _, x, _s in pubs]))
        gates = []
        for n, x, _s in all_atomic:
            gates += c.done_of(n)
        if final is None:
            ok, path = c.must_pass(gates, c.exit, use_exc=False)
            rep.check(ok, R, f.qname + ': every normal return has '
                      'published', f.where(), 'merge_integration_branches '
                      'can return without the atomic push',
                      path=c.describe_path(path))
        else:
            ends = [n for n in c.nodes.values() if n.kind == 'raise_stmt'
                    and raise_class(an, f, n.ast) == final]
            rep.floor('C02 raise Merged sites', len(ends), 1)
            for e in ends:
                ok, path = c.must_pass(gates, e.id)
                rep.check(ok, R, f.qname + ': Merged is reported only '
                          'after the atomic push', f.where(e),
                          'Merged can be raised without the publication',
                          path=c.describe_path(path))
        # local destination merges precede the publication
        merges = an.target_nodes(f, Spec.method('merge'), depth=2)
        for m in merges:
            for n, x, _s in all_atomic:
                p_ = c.path(n.id, m.id, use_exc=False)
                rep.check(p_ is None, R, f.qname + ': no merge after the '
                          'publication', f.where(m), 'a destination merge '
                          'happens after the atomic push',
                          path=c.describe_path(p_))


def _has_branches(call):
    b = kw(call, 'branches')
    if b is None and len(call.args) > 1:
        b = call.args[1]
    return b is not None and not is_const(b, None)


def _site_publishes(an, f, call):
    """Does this call site (transitively, do_push-aware) update a remote
    ref?  Returns list of primitives."""
    prog = an.prog
    fam = common._branch_family(prog)
    out = []
    for t in sorted(an.call_targets(f, call)):
        g = prog.funcs.get(t)
        if g is None:
            continue
        if t in common.PUBLISH:
            out.append(t)
        elif g.cls is not None and g.cls.qname in fam and \
                g.name in common.GUARDED_DEFAULTS:
            if common.do_push_at(call, g.name) is not False:
                out.append(t + '(do_push)')
        else:
            sub = common.publishing_sites(an, g)
            out.extend(p_ for _, _, p_ in sub)
    return sorted(set(out))


def queue_validation(prog, an, rep):
    R = 'C02.MPT.queue-validation'
    f = need_func(an, GWF + '._handle_pull_request')

    def collection(fn):
        # the queue collection: the local(s) bound to
        # build_queue_collection(job)
        names = locals_bound_to(fn, pred=lambda t: t.split('(')[0].endswith(
            'build_queue_collection'))
        if not names:
            raise AnalysisError('anchor-missing the queue collection in ' +
                                fn.qname)
        return r'^(%s)$' % '|'.join(names)
    mpt(an, rep, R, f, Spec.func(Q + '.add_to_queue'),
        [Spec.method('validate', collection(f))], depth=0,
        why='half-written queues are refused before adding to them')
    c = an.cfg(f)
    hs = [n for n in c.nodes.values() if n.kind == 'handler' and
          n.ast.type is not None and
          (prog.resolve_expr(f.module, n.ast.type, f) or '').endswith(
              '.IncoherentQueues')]
    rep.floor('C02 IncoherentQueues handlers', len(hs), 1)
    for h in hs:
        first = _first_exit(an, f, c, h.id)
        rep.check(first is not None and first[0] == 'raise' and
                  (first[1] or '').endswith('.QueueOutOfOrder'), R,
                  f.qname + ': incoherent queues are reported as '
                  'QueueOutOfOrder', f.where(h), 'IncoherentQueues is '
                  'handled as %s' % (first,))
    g = need_func(an, Q + '.handle_merge_queues')
    mpt(an, rep, R, g, Spec.func(Q + '.merge_queues'),
        [Spec.method('validate', collection(g))], depth=0)


def fresh_clone(prog, an, rep):
    common.reset_before_dispatch(prog, an, rep, 'C02')


# What QueueCollection.validate refuses (the guard against queues that were
# only partially written by the non-atomic push of q/ and q/w/ branches):
# every error class with the chain of conditions it is reported under, read
# off the pinned tree and confirmed against the docstring of validate().
# ('then' / 'else' = arm of the enclosing if, 'loop' = enclosing iteration).
# What each queue-validation error is reported under, read off the pinned
# tree and confirmed against the source: ('then' / 'else', test) for a test,
# ('loop', iterable) for a loop.  The locals of the pinned tree are PATTERN
# VARIABLES (sa/rules.py: match_guard_table): an entry matches whatever the
# current code calls them - or writes in their place - as long as one meaning
# fits every entry; the way round a test is written does not matter either.
HORIZONTAL = [
    ('MasterQueueMissing', (('then', 'not masterq'),)),
    ('MasterQueueLateVsDev',
     (('else', 'not masterq'),
      ('then', 'not masterq.includes_commit(masterq.dst_branch)'))),
    ('MasterQueueNotInSync',
     (('else', 'not masterq'),
      ('then', 'not self._queues[version][QueueIntegrationBranch]'),
      ('then', 'masterq.get_latest_commit() != '
               'masterq.dst_branch.get_latest_commit()'))),
    ('MasterQueueLateVsInt',
     (('else', 'not masterq'),
      ('else', 'not self._queues[version][QueueIntegrationBranch]'),
      ('then', 'greatest_intq.get_latest_commit() != '
               'masterq.get_latest_commit()'),
      ('then', 'greatest_intq.includes_commit(masterq)'))),
    ('MasterQueueYoungerThanInt',
     (('else', 'not masterq'),
      ('else', 'not self._queues[version][QueueIntegrationBranch]'),
      ('then', 'greatest_intq.get_latest_commit() != '
               'masterq.get_latest_commit()'),
      ('else', 'greatest_intq.includes_commit(masterq)'),
      ('then', 'masterq.includes_commit(greatest_intq)'))),
    ('MasterQueueDiverged',
     (('else', 'not masterq'),
      ('else', 'not self._queues[version][QueueIntegrationBranch]'),
      ('then', 'greatest_intq.get_latest_commit() != '
               'masterq.get_latest_commit()'),
      ('else', 'greatest_intq.includes_commit(masterq)'),
      ('else', 'masterq.includes_commit(greatest_intq)'))),
    ('QueueInclusionIssue',
     (('else', 'not masterq'),
      ('loop', 'self._queues[version][QueueIntegrationBranch]'),
      ('then', 'not nextq.includes_commit(intq)'))),
    ('QueueInclusionIssue',
     (('else', 'not masterq'),
      ('then', 'not nextq.includes_commit(masterq.dst_branch)'))),
]
HORIZONTAL_VARS = {'masterq', 'greatest_intq', 'nextq', 'intq'}
# what the variables that stand for one expression must stand for
HORIZONTAL_DEFS = {
    'masterq': 'self._queues[version][QueueBranch]',
    'greatest_intq': 'self._queues[version][QueueIntegrationBranch][0]',
}
VERTICAL = [
    ('MasterQueueMissing',
     (('loop', 'versions'), ('then', 'version not in stack'),
      ('then', 'has_queues and (not hf_detected)'))),
    ('MasterQueueMissing',
     (('loop', 'versions'), ('then', 'not stack[version][QueueBranch]'))),
    ('QueueInclusionIssue',
     (('then', 'last_version in stack'),
      ('loop', 'stack[last_version][QueueIntegrationBranch]'),
      ('loop', 'reversed(versions[:-1])'),
      ('then', 'stack[version2][QueueIntegrationBranch] and '
               'stack[version2][QueueIntegrationBranch][0].pr_id == pr'),
      ('then', 'not next_vqint.includes_commit(vqint)'))),
    ('QueueInconsistentPullRequestsOrder',
     (('then', 'last_version in stack'), ('then', 'prs'))),
    ('QueueInconsistentPullRequestsOrder',
     (('then', 'last_version in stack'), ('else', 'prs'),
      ('loop', 'versions'),
      ('then', 'version3 in stack and '
               'stack[version3][QueueIntegrationBranch]'))),
]
# (the pinned tree uses one name, `version`, for three loop variables: one
# variable per loop here, so that renaming one of them is nothing)
VERTICAL_VARS = {'version', 'version2', 'version3', 'has_queues',
                 'hf_detected', 'last_version', 'pr', 'vqint', 'next_vqint',
                 'prs'}
VERTICAL_DEFS = {'last_version': 'versions[-1]',
                 'prs': 'self._extract_pr_ids(stack)'}


def _yield_guards(f):
    pm = parent_map(f.node)
    out = []
    for n in walk_local(f.node, include_root=False):
        if not (isinstance(n, ast.Yield) and n.value is not None):
            continue
        g = []
        x = n
        while x in pm:
            par = pm[x]
            if isinstance(par, ast.If) and x is not par.test:
                arm = any(x is s_ or any(y is x for y in ast.walk(s_))
                          for s_ in par.body)
                g.append(('then' if arm else 'else', par.test))
            elif isinstance(par, (ast.For, ast.While)):
                g.append(('loop', par.iter if isinstance(par, ast.For)
                          else par.test))
            x = par
        cls_ = src(n.value.func).rpartition('.')[2] \
            if isinstance(n.value, ast.Call) else src(n.value)
        out.append((cls_, tuple(reversed(g)), n))
    return out


def queue_validation_guards(prog, an, rep):
    from collections import Counter
    R = 'C02.REG.queue-validation-guards'
    BRQ = GWF + '.branches.QueueCollection'
    for meth, table, variables, defs in (
            ('_horizontal_validation', HORIZONTAL, HORIZONTAL_VARS,
             HORIZONTAL_DEFS),
            ('_vertical_validation', VERTICAL, VERTICAL_VARS,
             VERTICAL_DEFS)):
        f = need_func(an, BRQ + '.' + meth)
        found = _yield_guards(f)
        env, missing = match_guard_table(f, table, found, variables)
        for c_, g in table:
            rep.evaluated()
            near = [tuple((a, src(t)) for a, t in gg)
                    for cc, gg, _ in found if cc == c_]
            rep.check((c_, g) not in missing, R, '%s: %s reported when %s' % (
                f.qname, c_, ' / '.join('%s[%s]' % (a, t[:45])
                                        for a, t in g)), f.where(),
                'the queue validation no longer reports %s under the '
                'recorded conditions (now: %s): a partially written queue '
                'can pass validation' % (c_, near[:2]))
        for var, text in defs.items():
            got = env.get(var)
            if got is not None and got.isidentifier() and \
                    got not in f.params:
                got = canon(f, ast.Name(id=got, ctx=ast.Load()), alpha=False)
            rep.evaluated()
            rep.check(got is None or got == text, R, '%s: what the pinned '
                      'tree calls %s is %s' % (f.qname, var, text),
                      f.where(), 'the conditions of the queue validation '
                      'are now tested on %s instead of %s' % (got, text))
    v = need_func(an, BRQ + '.validate')
    c = an.cfg(v)
    calls = {src(x.func): x for x in prog.calls_in(v)
             if isinstance(x.func, ast.Attribute)}
    ok = 'self._horizontal_validation' in calls and \
        'self._vertical_validation' in calls
    loops = []
    hv = vv = False
    for n in walk_local(v.node, include_root=False):
        if not isinstance(n, ast.For):
            continue
        it = flow_canon(an, v, n.iter)
        loops.append(it)
        inner = {src(x.func) for x in ast.walk(n) if isinstance(x, ast.Call)}
        if 'self._horizontal_validation' in inner and it in (
                'self._queues', 'self._queues.keys()'):
            hv = True
        if 'self._vertical_validation' in inner and \
                it == 'self.merge_paths':
            vv = True
    rep.evaluated()
    rep.check(ok and hv and vv, R,
              v.qname + ': every version horizontally, every merge path '
              'vertically', v.where(), 'validate loops over %s and calls '
              '%s' % (loops, sorted(calls)))
    acc = {src(x.args[0]) for x in prog.calls_in(v)
           if src(x.func).endswith('IncoherentQueues') and x.args}
    errs_true = an.branch_nodes(v, lambda e: src(e) in acc, True,
                                expand=None)
    okr = False
    for b in errs_true:
        first = _first_exit(an, v, c, b)
        okr = first is not None and first[0] == 'raise' and \
            (first[1] or '').endswith('.IncoherentQueues')
    ext = [x for x in prog.calls_in(v)
           if isinstance(x.func, ast.Attribute) and x.func.attr in (
               'extend', '__iadd__') and src(x.func.value) in acc]
    rep.check(okr and len(ext) == 2, R, v.qname + ': any reported error '
              'raises IncoherentQueues', v.where(), 'errors are not all '
              'collected (%d extend calls) or do not raise' % len(ext))
