"""C19 - integration branches and pull requests are kept one-to-one with
their pull request (create-only-if-absent, naming agreement, redirects,
own-only decline)."""
import ast
import re

from ..program import AnalysisError, walk_local, dotted
from ..analysis import Spec, src, const_value
from ..rules import (inside, first_rest, value_leaves, string_template, cond_branches, canon, cond_equiv, positional_args, substitute_locals, template_sites, GWF, EXC, mpt, need_func, stores_to, is_const, kw,
                     parent_map, raise_class, substitute_locals)
from . import common, c18
from .c12 import _first_exit

I = GWF + '.integration'
BR = GWF + '.branches'
Q = GWF + '.queueing'


def run(prog, an, rep):
    rep.explain(
        'C19: MPT (an integration branch is created only when it does not '
        'exist; an integration pull request only when no open one matches), '
        'ARG (open PRs are those of the same w/ names with status OPEN; '
        'matching on source and destination; title and description carry '
        'the parent id, which the redirect parses back), SIB (the three w/ '
        'name builders), MPT (robot-authored PRs and integration / queue '
        'commits are redirected to the parent / the queue handler), '
        'ARG/MPT (decline and removal touch only the pull request\'s own '
        'names).')
    rep.assume('behaviour under every order and multiplicity of webhook '
               'deliveries, and consistency of the host\'s PR listing, are '
               'not decided')
    rep.run_rules(prog, an, [branch_once, pr_once, pr_matching,
                             parent_id_round_trip, name_builders,
                             redirects, declined_cleanup,
                             declined_before_other_exits, merge_cleanup,
                             tip_index])


def tip_index(prog, an, rep):
    """An event on a commit is handled as an event on the pull request of
    every branch whose tip it is: the index tip -> branches grows by one
    branch at a time (`index[sha].add(branch)`), it is never written a
    whole entry at a time (`index[sha] = {branch}`, `index.update(...)`),
    which would keep the last branch listed for a commit and lose the
    others."""
    R = 'C19.WMC.tip-index'
    k = prog.cls('bert_e.lib.git.Repository')
    adds = 0
    for f in k.methods.values():
        for n in walk_local(f.node, include_root=False):
            if isinstance(n, ast.Assign):
                for t in n.targets:
                    if src(t) == 'self._remote_heads':
                        rep.evaluated()
                        v = ' '.join(src(n.value).split())
                        rep.check(v in ('defaultdict(set)',
                                        'collections.defaultdict(set)'), R,
                                  f.qname + ': the index starts empty, with '
                                  'set entries', f.where(n),
                                  'self._remote_heads = %s' % v)
                    if isinstance(t, ast.Subscript) and \
                            src(t.value) == 'self._remote_heads':
                        rep.evaluated()
                        rep.violation(R, f.qname + ': entries grow, they '
                                      'are not replaced', f.where(n),
                                      'the branches of a commit are '
                                      'replaced (%s): a commit that is the '
                                      'tip of several branches keeps one' %
                                      src(n)[:60])
            if isinstance(n, ast.Call) and \
                    isinstance(n.func, ast.Attribute):
                recv = n.func.value
                if src(recv) == 'self._remote_heads' and \
                        n.func.attr in ('update', 'setdefault', 'pop',
                                        '__setitem__', 'clear'):
                    rep.evaluated()
                    rep.violation(R, f.qname + ': entries grow, they are '
                                  'not replaced', f.where(n), 'the index '
                                  'is written with .%s(): a commit that is '
                                  'the tip of several branches keeps one' %
                                  n.func.attr)
                if isinstance(recv, ast.Subscript) and \
                        src(recv.value) == 'self._remote_heads' and \
                        n.func.attr == 'add':
                    adds += 1
    rep.floor('C19 tip index: index[sha].add(branch) sites', adds, 1)


def branch_once(prog, an, rep):
    R = 'C19.MPT.branch-once'
    f = need_func(an, I + '.create_integration_branches')
    c = an.cfg(f)
    creates = [n for n in c.nodes.values() if n.kind == 'stmt' and any(
        isinstance(x, ast.Call) and isinstance(x.func, ast.Attribute) and
        x.func.attr == 'create' for x in ast.walk(n.ast))]
    rep.floor('C19 create sites in create_integration_branches',
              len(creates), 1)
    for n in creates:
        call = [x for x in ast.walk(n.ast) if isinstance(x, ast.Call) and
                isinstance(x.func, ast.Attribute) and
                x.func.attr == 'create'][0]
        recv = src(call.func.value)
        absent = an.branch_nodes(
            f, lambda e: isinstance(e, ast.Call) and
            isinstance(e.func, ast.Attribute) and e.func.attr == 'exists'
            and src(e.func.value) == recv, False)
        rep.evaluated()
        ok, path = c.must_pass(absent, n.id)
        rep.check(ok and bool(absent), R, f.qname + ': %s.create only if '
                  'not %s.exists()' % (recv, recv), f.where(n),
                  'an integration branch is (re)created although it may '
                  'exist', path=c.describe_path(path))
        rep.check(common.do_push_at(call, 'create') is False,
                  'C19.KWC.branch-once', f.qname + ': created locally',
                  f.where(call), 'create pushes immediately')
        # the target: the variable of the loop over the destination
        # branches the creation sits in
        pm = parent_map(f.node)
        lp = n.ast
        while lp in pm and not isinstance(lp, ast.For):
            lp = pm[lp]
        dst = lp.target.id if isinstance(lp, ast.For) and \
            isinstance(lp.target, ast.Name) and \
            'dst_branches' in src(lp.iter) else None
        rep.check(call.args and dst is not None and
                  src(call.args[0]) == dst, R, f.qname +
                  ': the integration branch starts from its target',
                  f.where(call), 'created from %s' %
                  [src(a) for a in call.args])
        # the same object is yielded, named w/<dst.version>/<src>
        bind = [v for _, v in stores_to(f, recv) if v is not None]
        named = [v for v in bind if isinstance(v, ast.Call) and
                 an.call_matches(f, v, Spec.func(BR + '.branch_factory'))]
        tmpl = string_template(substitute_locals(f, named[0].args[1])) \
            if len(named) == 1 and len(named[0].args) > 1 else None
        rep.check(tmpl is not None and tmpl[0] == 'w/{}/{}' and
                  dst is not None and
                  src(tmpl[1][0]) == dst + '.version', R,
                  f.qname + ': the branch object is branch_factory(name)',
                  f.where(n), 'bindings of %s: %s' % (
                      recv, [src(v) for v in bind]))


def pr_once(prog, an, rep):
    R = 'C19.MPT.pr-once'
    f = need_func(an, BR + '.IntegrationBranch.get_or_create_pull_request')
    c = an.cfg(f)
    creates = [n for n in c.nodes.values() if n.kind == 'stmt' and any(
        isinstance(x, ast.Call) and isinstance(x.func, ast.Attribute) and
        x.func.attr == 'create_pull_request' for x in ast.walk(n.ast))]
    rep.floor('C19 create_pull_request sites', len(creates), 1)
    prv = None
    for st in walk_local(f.node, include_root=False):
        if isinstance(st, ast.Assign) and isinstance(st.value, ast.Call) and \
                src(st.value.func) == 'self.get_pull_request_from_list':
            prv = st.targets[0].id
            rep.check([src(a) for a in st.value.args] == [f.params[2]], R,
                      f.qname + ': looks the PR up in the given open PRs',
                      f.where(st), 'lookup in %s' %
                      [src(a) for a in st.value.args])
    if prv is None:
        rep.violation(R, f.qname + ': existing PR lookup', f.where(),
                      'get_or_create_pull_request no longer looks for an '
                      'existing pull request: every evaluation creates a '
                      'new one (webhook loop)')
        return
    none = an.branch_nodes(f, lambda e: isinstance(e, ast.Name) and
                           e.id == prv, False) + \
        an.branch_nodes(f, lambda e: src(e) == prv + ' is None', True)
    for n in creates:
        rep.evaluated()
        ok, path = c.must_pass(none, n.id)
        rep.check(ok and bool(none), R, f.qname + ': create_pull_request '
                  'only when no open one matches', f.where(n), 'a pull '
                  'request can be created although one exists',
                  path=c.describe_path(path))
        call = [x for x in ast.walk(n.ast) if isinstance(x, ast.Call) and
                isinstance(x.func, ast.Attribute) and
                x.func.attr == 'create_pull_request'][0]
        kws = {k.arg: src(k.value) for k in call.keywords}
        rep.check(kws.get('src_branch') == 'self.name' and
                  kws.get('dst_branch') == 'self.dst_branch.name', R,
                  f.qname + ': the PR goes from this branch to its target',
                  f.where(call), 'created with %s' % kws)
    # title embeds the parent id and the target
    # the title handed to create_pull_request
    tv = []
    for n in creates:
        for x in ast.walk(n.ast):
            if isinstance(x, ast.Call) and \
                    isinstance(x.func, ast.Attribute) and \
                    x.func.attr == 'create_pull_request' and \
                    kw(x, 'title') is not None:
                tv.append(substitute_locals(f, kw(x, 'title')))
    tt = string_template(tv[0]) if len(tv) == 1 else None
    ok = tt is not None and \
        [src(a) for a in tt[1]][:2] == [
            f.params[1] + '.id', 'self.dst_branch.name']
    rep.check(ok, 'C19.ARG.pr-once', f.qname + ': title names the parent '
              'PR and the target branch', f.where(), 'title is %s' %
              [src(v) for v in tv])
    g = prog.cls(BR + '.GhostIntegrationBranch').methods.get(
        'get_or_create_pull_request')
    ok = g is not None and not any(
        isinstance(x, ast.Call) and isinstance(x.func, ast.Attribute) and
        x.func.attr == 'create_pull_request' for x in ast.walk(g.node))
    rep.check(ok, R, 'GhostIntegrationBranch never creates a pull request',
              g.where() if g else None, 'the first target (source branch) '
              'would get an integration pull request of its own')
    # caller: open PRs of these very branches
    h = need_func(an, I + '.create_integration_pull_requests')
    calls = [x for x in prog.calls_in(h)
             if isinstance(x.func, ast.Attribute) and
             x.func.attr == 'get_or_create_pull_request']
    bound = dict(positional_args(h, calls[0]) or []) if len(calls) == 1 \
        else {}
    ok = len(bound) == 3 and [canon(h, v) for v in list(bound.values())[::2]
                              ] == [h.params[0] + '.pull_request',
                                    h.params[0] + '.project_repo']
    rep.check(ok, 'C19.ARG.pr-once', h.qname + ': parent PR, open PRs and '
              'host repo are handed over', h.where(), 'call is %s' %
              [src(x) for x in calls])
    # the open PRs handed over: OPEN pull requests whose source is one of
    # these very integration branches
    lst = list(bound.values())[1] if len(bound) == 3 else None
    op = [v for _, v in stores_to(h, lst.id) if v is not None] \
        if isinstance(lst, ast.Name) else []
    ok = False
    shown = []
    if len(op) == 1 and isinstance(op[0], ast.ListComp) and \
            len(op[0].generators) == 1:
        g = op[0].generators[0]
        t = src(g.target)
        it = substitute_locals(h, g.iter)
        names = kw(it, 'src_branch') if isinstance(it, ast.Call) and \
            isinstance(it.func, ast.Attribute) and \
            it.func.attr == 'get_pull_requests' else None
        shown = [src(it)]
        ok = src(op[0].elt) == t and len(g.ifs) == 1 and \
            cond_equiv(None, g.ifs[0], "%s.status == 'OPEN'" % t) and \
            isinstance(names, ast.ListComp) and \
            len(names.generators) == 1 and not names.generators[0].ifs and \
            src(names.generators[0].iter) == h.params[1] and \
            src(names.elt) == src(names.generators[0].target) + '.name'
    rep.evaluated()
    rep.check(ok, 'C19.ARG.pr-once', h.qname + ': open PRs = OPEN pull '
              'requests of the same integration branches', h.where(),
              'open_prs is %s over %s' % ([src(v) for v in op], shown))


def pr_matching(prog, an, rep):
    R = 'C19.ARG.pr-matching'
    f = need_func(an, BR + '.IntegrationBranch.get_pull_request_from_list')
    c = an.cfg(f)
    rets = [n for n in c.nodes.values() if n.kind == 'return' and
            n.ast.value is not None and not is_const(n.ast.value, None)]

    def eq_sides(text, a_pat, b_pat):
        sides = text.split(' == ')
        return len(sides) == 2 and (
            (re.match(a_pat, sides[0]) and re.match(b_pat, sides[1])) or
            (re.match(a_pat, sides[1]) and re.match(b_pat, sides[0])))
    src_ok = cond_branches(an, f, lambda t: eq_sides(
        t, r'^(?!self\.).+\.src_branch$', r'^self\.name$'), True)
    dst_ok = cond_branches(an, f, lambda t: eq_sides(
        t, r'^(?!self\.).+\.dst_branch$', r'^self\.dst_branch\.name$'),
        True) + \
        cond_branches(an, f, 'self.dst_branch', False)
    rep.floor('C19 returns in get_pull_request_from_list', len(rets), 1)
    for r in rets:
        for label, g in (('same source branch', src_ok),
                         ('same destination (when known)', dst_ok)):
            rep.evaluated()
            ok, path = c.must_pass(g, r.id)
            rep.check(ok and bool(g), R, '%s: a PR matches only with the %s'
                      % (f.qname, label), f.where(r), 'a pull request of '
                      'another branch / target can be taken for this one',
                      path=c.describe_path(path))


def parent_id_round_trip(prog, an, rep):
    R = 'C19.SIB.parent-id'
    f = need_func(an, BR + '.IntegrationBranch.get_or_create_pull_request')
    rend = [x for x in prog.calls_in(f) if src(x.func) == 'render']
    ok = len(rend) == 1 and is_const(rend[0].args[0],
                                     'pull_request_description.md') and \
        any(k.arg == 'pr' and src(k.value) == f.params[1]
            for k in rend[0].keywords)
    rep.evaluated()
    rep.check(ok, R, f.qname + ': description rendered from the parent PR',
              f.where(), 'description is %s' % [src(x) for x in rend])
    tpl = prog.templates.get('pull_request_description.md') \
        if isinstance(prog.templates, dict) else None
    if tpl is None:
        raise AnalysisError('anchor-missing template '
                            'pull_request_description.md')
    m = re.search(r'\d|\{\{', tpl)
    first = tpl[m.start():].split('}}')[0] if m else ''
    rep.evaluated()
    rep.check(first.replace(' ', '') == '{{pr.id', R, 'the first number of '
              'the description is the parent id', 'bert_e/templates/'
              'pull_request_description.md', 'the first number / field in '
              'the description template is %r' % first)
    g = need_func(an, GWF + '.handle_parent_pull_request')
    fa = [x for x in prog.calls_in(g)
          if dotted(x.func) in ('re.findall', 're.search')]
    ok = len(fa) == 1 and const_value(fa[0].args[0]) == r'\d+' and \
        src(fa[0].args[1]) == g.params[1] + '.description'
    # (`parent_id, *_ = ids` reaches the rules as `parent_id = ids[0]`)
    take = any(_first_number(g, n.value)
               for n in walk_local(g.node, include_root=False)
               if isinstance(n, ast.Assign) and len(n.targets) == 1 and
               isinstance(n.targets[0], ast.Name))
    rep.evaluated()
    rep.check(ok and take, R, g.qname + ': the parent id is the first '
              'number of the child description', g.where(), 'the parent id '
              'is parsed by %s' % [src(x) for x in fa])


def _first_number(g, v):
    """v is <re.findall(r'\\d+', <child>.description)>[0]."""
    v = substitute_locals(g, v)
    # re.search(r'\d+', d).group() / .group(0): the first number too
    if isinstance(v, ast.Call) and isinstance(v.func, ast.Attribute) and \
            v.func.attr == 'group' and not v.keywords and (
                not v.args or (len(v.args) == 1 and is_const(v.args[0], 0))):
        base = substitute_locals(g, v.func.value)
        return isinstance(base, ast.Call) and \
            dotted(base.func) == 're.search' and len(base.args) == 2 and \
            const_value(base.args[0]) == r'\d+' and \
            src(base.args[1]) == g.params[1] + '.description'
    if not (isinstance(v, ast.Subscript) and is_const(v.slice, 0)):
        return False
    base = substitute_locals(g, v.value)
    return isinstance(base, ast.Call) and dotted(base.func) == 're.findall' \
        and len(base.args) == 2 and const_value(base.args[0]) == r'\d+' and \
        src(base.args[1]) == g.params[1] + '.description'


def name_builders(prog, an, rep):
    R = 'C19.SIB.name-builders'
    sites = [(f, call, holes)
             for f, call, fmt, holes in c18._format_sites(prog, an)
             if fmt == 'w/{}/{}']
    want = {I + '.get_integration_branches',
            I + '.create_integration_branches',
            GWF + '.handle_declined_pull_request'}
    got = {f.qname for f, _, _ in sites}
    rep.evaluated()
    rep.check(got == want, R, 'the three w/ name builders', None,
              'w/ names are built in %s' % sorted(got))
    for f, call, holes in sites:
        rep.evaluated()
        ok = len(holes) == 2 and src(holes[0]).endswith('.version') \
            and c18._is_source(f, holes[1])
        rep.check(ok, R, '%s: w/<target version>/<source branch>' % f.qname,
                  f.where(call), 'fields are %s' %
                  [src(a) for a in holes])


def redirects(prog, an, rep):
    R = 'C19.MPT.redirects'
    f = need_func(an, GWF + '.handle_pull_request')
    c = an.cfg(f)
    robot = an.branch_nodes(
        f, lambda e: isinstance(e, ast.Compare) and
        {src(e.left), src(e.comparators[0])} ==
        {'job.pull_request.author', 'job.settings.robot'} and
        isinstance(e.ops[0], ast.Eq), False) + an.branch_nodes(
        f, lambda e: isinstance(e, ast.Compare) and
        {src(e.left), src(e.comparators[0])} ==
        {'job.pull_request.author', 'job.settings.robot'} and
        isinstance(e.ops[0], ast.NotEq), True)
    mpt(an, rep, R, f, Spec.func(GWF + '._handle_pull_request'), [],
        depth=0, extra_gates=robot, label='a robot-authored PR is never '
        'handled as a user PR')
    is_robot = an.branch_nodes(
        f, lambda e: isinstance(e, ast.Compare) and
        {src(e.left), src(e.comparators[0])} ==
        {'job.pull_request.author', 'job.settings.robot'} and
        isinstance(e.ops[0], ast.Eq), True)
    for b in is_robot:
        first = None
        for nn in c.reachable(start=b, use_exc=False):
            if c.nodes[nn].kind == 'return':
                first = c.nodes[nn]
                break
        ok = first is not None and isinstance(first.ast.value, ast.Call) \
            and an.call_matches(f, first.ast.value, Spec.func(
                GWF + '.handle_parent_pull_request')) and \
            [src(a) for a in first.ast.value.args] == ['job',
                                                      'job.pull_request']
        rep.evaluated()
        rep.check(ok, R, f.qname + ': an integration PR is handled as its '
                  'parent', f.where(), 'a robot-authored pull request leads '
                  'to %s' % (src(first.ast) if first else None))
    g = need_func(an, GWF + '.handle_parent_pull_request')
    pj = [x for x in prog.calls_in(g)
          if prog.callee(g, x) == ('class', 'bert_e.job.PullRequestJob')]
    # the id looked up is the one parsed out of the child description (or
    # the child's own id when it is not a child): whatever the local is
    # called
    ok = False
    vals = []
    for x in pj:
        ids = [y.args[0].args[0] for y in ast.walk(x)
               if isinstance(y, ast.Call) and
               isinstance(y.func, ast.Attribute) and
               y.func.attr == 'get_pull_request' and len(y.args) == 1 and
               isinstance(y.args[0], ast.Call) and
               src(y.args[0].func) == 'int' and len(y.args[0].args) == 1]
        if len(ids) != 1:
            vals.append(None)
            continue
        e = ids[0]
        if isinstance(e, ast.Name) and len(stores_to(g, e.id)) > 1:
            vals += [v for _, v in stores_to(g, e.id)]
        else:
            vals.append(e)
    if 1 <= len(pj) <= 2 and vals and None not in vals:
        kinds = ['parent' if _first_number(g, v) else
                 'own' if src(substitute_locals(g, v)) ==
                 g.params[1] + '.id' else '?' for v in vals]
        ok = sorted(kinds) == ['own', 'parent']
    rep.check(ok, R, g.qname + ': evaluates the parent pull request',
              g.where(), 'builds %s' % [src(x) for x in pj])
    h = need_func(an, GWF + '.handle_commit')
    ch = an.cfg(h)
    uq = an.branch_nodes(h, lambda e: src(e).endswith('settings.use_queue'),
                         True)
    qt = [n for n in ch.nodes.values() if n.kind in ('stmt', 'return') and
          'handle_merge_queues' in src(n.ast)]
    rep.floor('C19 queue redirect in handle_commit', len(qt), 1)
    isq = an.branch_nodes(h, lambda e: any(
        isinstance(x, ast.Call) and src(x.func) == 'isinstance' and
        len(x.args) == 2 and src(x.args[1]) == 'QueueBranch'
        for x in ast.walk(e)), True)
    for n in qt:
        ok, path = ch.must_pass(isq, n.id)
        ok2, _ = ch.must_pass(uq, n.id)
        rep.evaluated()
        rep.check(ok and ok2 and bool(isq), R, h.qname + ': a commit on a '
                  'queue branch (queues on) goes to the queue handler',
                  h.where(n), 'queue redirect is not guarded by "a '
                  'candidate is a QueueBranch" and use_queue',
                  path=ch.describe_path(path))
    pj = [x for x in prog.calls_in(h)
          if prog.callee(h, x) == ('class', 'bert_e.job.PullRequestJob')]
    m = re.search(r'get_pull_request\(int\((\w+)\.id\)\)',
                  src(pj[0])) if len(pj) == 1 else None
    prvar = m.group(1) if m else None
    prv = [v for _, v in stores_to(h, prvar) if v is not None] if prvar \
        else []
    listvar = None
    if len(prv) == 1 and isinstance(prv[0], ast.Call) and \
            src(prv[0].func) == 'min' and len(prv[0].args) == 1 and \
            isinstance(prv[0].args[0], ast.Name):
        key = kw(prv[0], 'key')
        if isinstance(key, ast.Lambda) and len(key.args.args) == 1 and \
                src(key.body) == key.args.args[0].arg + '.id':
            listvar = prv[0].args[0].id
    rep.evaluated()
    rep.check(listvar is not None, R, h.qname + ': the oldest pull request '
              'of the source branch is evaluated', h.where(),
              'builds %s from %s' % ([src(x) for x in pj],
                                     [src(v) for v in prv]))
    prs = [v for _, v in stores_to(h, listvar) if v is not None] \
        if listvar else []
    lookups = [x for v in prs for x in ast.walk(v)
               if isinstance(x, ast.Call) and
               isinstance(x.func, ast.Attribute) and
               x.func.attr == 'get_pull_requests']
    by = kw(lookups[0], 'src_branch') if len(lookups) == 1 and \
        len(prs) == 1 else None
    cand = [v for _, v in stores_to(h, by.id) if v is not None] \
        if isinstance(by, ast.Name) else []
    # ... the parent branch of every branch that holds the commit
    ok = False
    pmap = c18.parent_mapping(prog, an, h)
    for v in cand:
        over = _maps(v, 'get_parent_branch')
        if not over and pmap is not None and any(
                isinstance(x, ast.IfExp) and
                'feature_branch' in src(x) for x in ast.walk(v)):
            over = pmap[4]      # the mapping written out in place
        if not over:
            continue
        for w in [x for _, x in stores_to(h, over) if x is not None]:
            if isinstance(w, ast.ListComp) and len(w.generators) == 1 and \
                    not w.generators[0].ifs and \
                    isinstance(w.elt, ast.Call) and \
                    src(w.elt.func) == 'branch_factory' and \
                    src(w.elt.args[-1]) == src(w.generators[0].target) and \
                    'get_branches_from_commit(%s.commit)' % h.params[0] in \
                    src(w.generators[0].iter):
                ok = True
    rep.check(ok, R, h.qname + ': pull requests are looked up by the '
              'parent source branch of every candidate', h.where(),
              'prs = %s, candidates = %s' % ([src(v) for v in prs],
                                             [src(v) for v in cand]))


def _maps(expr, fn):
    """If expr is `fn` applied to every element of a list held in a name,
    list(map(fn, xs)) / [fn(x) for x in xs] (no filter): that name."""
    e = expr
    while isinstance(e, ast.Call) and src(e.func) in ('list', 'tuple') and \
            len(e.args) == 1:
        e = e.args[0]
    if isinstance(e, ast.Call) and src(e.func) == 'map' and \
            len(e.args) == 2 and src(e.args[0]) == fn and \
            isinstance(e.args[1], ast.Name):
        return e.args[1].id
    if isinstance(e, (ast.ListComp, ast.GeneratorExp)) and \
            len(e.generators) == 1:
        g = e.generators[0]
        if not g.ifs and isinstance(g.iter, ast.Name) and \
                isinstance(e.elt, ast.Call) and src(e.elt.func) == fn and \
                len(e.elt.args) == 1 and not e.elt.keywords and \
                src(e.elt.args[0]) == src(g.target):
            return g.iter.id
    return None


def declined_cleanup(prog, an, rep):
    R = 'C19.MPT.declined'
    f = need_func(an, GWF + '.handle_declined_pull_request')
    c = an.cfg(f)
    decl = [n for n in c.nodes.values() if n.kind == 'stmt' and
            src(n.ast).endswith('.decline()')]
    rep.floor('C19 decline sites in handle_declined_pull_request',
              len(decl), 1)
    # roles: (name, target) pairs -- target ranges over
    # job.git.cascade.dst_branches and name is 'w/<target version>/<source
    # of this PR>' -- walked by one loop or by several, written as
    # zip(<names>, <targets>) or as one list of pairs
    job = f.params[0]
    source = job + '.pull_request.src_branch'
    targets = job + '.git.cascade.dst_branches'

    def named_after(elt, var, it):
        t = string_template(elt)
        return t is not None and t[0] == 'w/{}/{}' and \
            src(t[1][0]) == var + '.version' and \
            canon(f, t[1][1]) == source and canon(f, it) == targets

    def pair_source(it):
        """The text that stands for the list of names when `it` yields the
        (name, target) pairs of this pull request, else None."""
        if isinstance(it, ast.Call) and src(it.func) == 'zip' and \
                len(it.args) == 2 and \
                all(isinstance(a, ast.Name) for a in it.args):
            nv, dv_ = (a.id for a in it.args)
            ns = [v for _, v in stores_to(f, nv) if v is not None]
            ds = [canon(f, v) for _, v in stores_to(f, dv_)
                  if v is not None]
            if len(ns) == 1 and isinstance(ns[0], ast.ListComp) and \
                    len(ns[0].generators) == 1 and \
                    not ns[0].generators[0].ifs and ds == [targets] and \
                    named_after(ns[0].elt, src(ns[0].generators[0].target),
                                ns[0].generators[0].iter):
                return nv
            return None
        if isinstance(it, ast.Name):
            vs = [v for _, v in stores_to(f, it.id) if v is not None]
            if len(vs) == 1 and isinstance(vs[0], ast.ListComp) and \
                    len(vs[0].generators) == 1 and \
                    not vs[0].generators[0].ifs and \
                    isinstance(vs[0].elt, ast.Tuple) and \
                    len(vs[0].elt.elts) == 2:
                g = vs[0].generators[0]
                if src(vs[0].elt.elts[1]) == src(g.target) and \
                        named_after(vs[0].elt.elts[0], src(g.target),
                                    g.iter):
                    return '[first for first, _ in %s]' % it.id
        return None

    pair_loops = []
    for lp in walk_local(f.node, include_root=False):
        if isinstance(lp, ast.For) and isinstance(lp.target, ast.Tuple) and \
                len(lp.target.elts) == 2 and \
                all(isinstance(e, ast.Name) for e in lp.target.elts):
            names_text = pair_source(lp.iter)
            if names_text is not None:
                pair_loops.append((lp, names_text))
    rep.evaluated()
    rep.check(bool(pair_loops), R, f.qname + ': walks the (name, target) '
              'pairs of this pull request', f.where(), 'no loop over the '
              "w/<version>/<source> names of this pull request's targets")
    if not pair_loops:
        return

    def loop_of(node):
        for lp, names_text in pair_loops:
            if inside(lp, node):
                return lp, names_text
        return None, None

    def same_names(e, names_text):
        if e is None:
            return False
        if isinstance(e, ast.Name):
            return e.id == names_text
        if isinstance(e, (ast.ListComp, ast.GeneratorExp)) and \
                len(e.generators) == 1 and not e.generators[0].ifs and \
                isinstance(e.generators[0].target, ast.Tuple) and \
                len(e.generators[0].target.elts) == 2 and \
                src(e.elt) == src(e.generators[0].target.elts[0]):
            return '[first for first, _ in %s]' % \
                src(e.generators[0].iter) == names_text
        return False
    for n in decl:
        call = [x for x in ast.walk(n.ast) if isinstance(x, ast.Call) and
                isinstance(x.func, ast.Attribute) and
                x.func.attr == 'decline'][0]
        outer, names_text = loop_of(n.ast)
        rep.check(outer is not None, R, f.qname + ': declines inside the '
                  'walk over the pairs', f.where(n), 'a pull request is '
                  'declined outside the walk over this pull request\'s w/ '
                  'names')
        if outer is None:
            continue
        nm, dv = (e.id for e in outer.target.elts)
        pr = src(call.func.value)
        # the pull request may be picked by a search loop first
        # (found = None; for p in prs: if ...: found = p; break)
        leaves = [v.id for v in value_leaves(f, call.func.value)
                  if isinstance(v, ast.Name)]
        if leaves and pr not in leaves:
            pr = leaves[0]
        conds = {
            'status OPEN': "%s.status == 'OPEN'" % pr,
            'source is this w/ name': '%s.src_branch == %s' % (pr, nm),
            'destination is its target':
                '%s.dst_branch == %s.name' % (pr, dv),
        }
        for label, text in conds.items():
            g = cond_branches(an, f, text, True)
            rep.evaluated()
            ok, path = c.must_pass(g, n.id)
            rep.check(ok and bool(g), R, '%s: declines only if %s' % (
                f.qname, label), f.where(n), 'a pull request can be '
                'declined without the condition "%s"' % label,
                path=c.describe_path(path))
        # the pull requests examined are those of these very names
        lp = [x for x in walk_local(outer, include_root=False)
              if isinstance(x, ast.For) and src(x.target) == pr]
        lst = [v for x in lp for _, v in stores_to(f, src(x.iter))
               if v is not None]
        okl = any(isinstance(y, ast.Call) and
                  isinstance(y.func, ast.Attribute) and
                  y.func.attr == 'get_pull_requests' and
                  same_names(kw(y, 'src_branch'), names_text)
                  for v in lst for y in ast.walk(v))
        rep.check(okl, R, f.qname + ': examines the pull requests of these '
                  'names', f.where(n), 'pull requests come from %s' %
                  [src(v) for v in lst])
    rms = [n for n in c.nodes.values() if n.kind == 'stmt' and
           isinstance(n.ast, ast.Expr) and isinstance(n.ast.value, ast.Call)
           and isinstance(n.ast.value.func, ast.Attribute) and
           n.ast.value.func.attr == 'remove' and
           isinstance(n.ast.value.func.value, ast.Name) and
           not n.ast.value.args and not n.ast.value.keywords]
    wbv = src(rms[0].ast.value.func.value) if len(rms) == 1 else None
    wb = [v for _, v in stores_to(f, wbv) if v is not None] if wbv else []
    rloop = loop_of(rms[0].ast)[0] if len(rms) == 1 else None
    ok = len(rms) == 1 and len(wb) == 1 and rloop is not None and \
        isinstance(wb[0], ast.Call) and \
        src(wb[0].func) == 'branch_factory' and len(wb[0].args) == 2 and \
        isinstance(rloop.target, ast.Tuple) and \
        isinstance(rloop.target.elts[0], ast.Name) and all(
            # the name of the pair, or the same name built again
            (isinstance(v, ast.Name) and v.id == rloop.target.elts[0].id) or
            (string_template(v) or ('',))[0] == 'w/{}/{}' or
            (isinstance(v, ast.Constant) and v.value is None)
            for v in value_leaves(f, wb[0].args[1]))
    rep.evaluated()
    rep.check(ok, R, f.qname + ': removes exactly the branch of that name',
              f.where(), 'removes %s bound to %s' % (
                  [src(n.ast) for n in rms], [src(v) for v in wb]))
    ex = cond_branches(an, f, '%s.exists()' % wbv, True) if wbv else []
    for n in rms:
        ok, path = c.must_pass(ex, n.id)
        rep.check(ok and bool(ex), R, f.qname + ': removes only an existing '
                  'branch', f.where(n), 'remove without exists()',
                  path=c.describe_path(path))
    # ... and removes every existing one: within the walk over the (name,
    # target) pairs no iteration ends -- next pair, break, or way out of
    # the function -- before the existence of that pair's branch was tested
    # (the removal does not depend on a pull request having been declined:
    # integration pull requests may be switched off, or declined by hand,
    # or declined by a run that crashed before the push)
    if rloop is not None and wbv:
        tests = [n.id for n in c.nodes.values() if n.kind == 'test' and
                 n.ast is not None and (wbv + '.exists()') in src(n.ast)]
        heads = [n for n in c.nodes.values() if n.kind == 'loop' and
                 n.ast is rloop]
        starts = [n for n in c.nodes.values() if n.kind == 'true' and
                  n.ast is rloop and heads and n.test == heads[0].id]
        rep.floor('C19 removal loop anchors', len(tests) and len(starts), 1)
        for tgt, what in ((heads[0].id, 'the next pair'),
                          (c.exit, 'the end of the function')):
            rep.evaluated()
            gates = set(tests) | ({heads[0].id} if tgt != heads[0].id
                                  else set())
            p_ = c.path(starts[0].id, tgt, removed=gates, use_exc=False)
            if tgt != heads[0].id and p_ is None:
                # falling out of the loop after the last pair is the
                # `exhausted` branch of the head, not a skipped pair
                pass
            rep.check(p_ is None, R, f.qname + ': every existing w/ branch '
                      'of the pairs is removed (%s)' % what, f.where(rloop),
                      'an iteration of the walk over the (name, target) '
                      'pairs reaches %s without testing `%s.exists()`: the '
                      'w/ branch of that target stays on the remote while '
                      'the parent is DECLINED' % (what, wbv),
                      path=c.describe_path(p_) if p_ else None)
    # whatever was declined or removed is published: from each such site
    # every way out of the function goes through the push
    pushed = an.gate_nodes(f, Spec.func('bert_e.workflow.git_utils.push'),
                           depth=0)
    for n in decl + rms:
        for d in c.done_of(n):
            for out in (c.exit, c.raise_exit):
                rep.evaluated()
                ok, path = c.must_pass(pushed, out, use_exc=False, start=d)
                rep.check(ok and bool(pushed), R, f.qname + ': what was '
                          'declined / removed is published', f.where(n),
                          'after `%s` the function can end without the push '
                          'that publishes the removal (the w/ branch stays '
                          'on the remote)' % src(n.ast)[:40],
                          path=c.describe_path(path))
    pushes = an.direct_calls(f, Spec.func('bert_e.workflow.git_utils.push'))
    rep.check(len(pushes) == 1, R, f.qname + ': one publication',
              f.where(), '%d pushes' % len(pushes))
    # every exit is PullRequestDeclined or NothingToDo (silent)
    from ..rules import explicit_exits
    for kind, node, info in explicit_exits(an, f):
        rep.check(kind == 'raise' and (info or '').rpartition('.')[2] in (
            'PullRequestDeclined', 'NothingToDo'), R,
            '%s: exit at L%d' % (f.qname, node.lineno), f.where(node),
            'a declined pull request continues into the merge workflow '
            '(%s)' % (info or kind))
    h = need_func(an, GWF + '._handle_pull_request')
    ch = an.cfg(h)
    d_true = an.branch_nodes(h, lambda e: src(e) ==
                             "job.pull_request.status == 'DECLINED'", True)
    t = an.target_nodes(h, Spec.func(f.qname), depth=0)
    rep.floor('C19 declined redirect', len(t), 1)
    for n in t:
        ok, path = ch.must_pass(d_true, n.id)
        rep.check(ok and bool(d_true), R, h.qname + ': cleanup only for a '
                  'DECLINED pull request', h.where(n), 'cleanup of '
                  'integration data runs for a pull request that is not '
                  'declined', path=ch.describe_path(path))


def declined_before_other_exits(prog, an, rep):
    """In _handle_pull_request the DECLINED test precedes every other way
    out of the job once the repository is cloned: a declined pull request
    whose source branch was deleted (or already merged) is still cleaned."""
    R = 'C19.MPT.declined-first'
    f = need_func(an, GWF + '._handle_pull_request')
    c = an.cfg(f)
    clone = an.gate_nodes(f, Spec.func('bert_e.workflow.git_utils.'
                                       'clone_git_repo'), depth=0)
    tests = [t for t in an.test_nodes(
        f, lambda e: isinstance(e, ast.Compare) and
        src(e.left).endswith('pull_request.status') and
        isinstance(e.comparators[0], ast.Constant) and
        e.comparators[0].value == 'DECLINED')]
    if not tests or not clone:
        rep.violation(R, f.qname + ': DECLINED test', f.where(),
                      'no test of the DECLINED status after the clone')
        return
    after = set()
    for g in clone:
        after |= c.reachable(start=g, use_exc=False)
    exits = [n for n in c.nodes.values() if n.id in after and
             n.kind in ('raise_stmt', 'return')]
    rep.floor('C19 exits after the clone', len(exits), 5)
    gates = [t.id for t in tests]
    for n in exits:
        rep.evaluated()
        ok, path = c.must_pass(gates, n.id)
        rep.check(ok, R, '%s: DECLINED is tested before the exit at L%d' % (
            f.qname, n.lineno), f.where(n), 'the job can end (%s) before '
            'the DECLINED status was looked at: integration branches and '
            'pull requests of a declined pull request are left behind' %
            src(n.ast)[:40], path=c.describe_path(path))
    h = need_func(an, GWF + '.handle_commit')
    ch = an.cfg(h)
    some = an.branch_nodes(h, lambda e: src(e) == 'candidates', True)
    qn = [n for n in ch.nodes.values() if n.kind == 'stmt' and
          'get_pull_requests(' in src(n.ast)]
    for n in qn:
        ok, path = ch.must_pass(some, n.id)
        rep.check(ok and bool(some), 'C19.MPT.nonempty-query', h.qname +
                  ': pull requests are looked up for a non-empty candidate '
                  'list', h.where(n), 'get_pull_requests(src_branch=[]) is '
                  'possible (no filter on GitHub)',
                  path=ch.describe_path(path))


def merge_cleanup(prog, an, rep):
    R = 'C19.ARG.merge-cleanup'
    # every merged pull request is closed on its own copy of the cascade
    # (close_queued_pull_request finalizes the copy for that PR's target)
    hq = need_func(an, Q + '.handle_merge_queues')
    pmq = parent_map(hq.node)
    closes = an.direct_calls(hq, Spec.func(Q + '.close_queued_pull_request'))
    rep.floor('C19 close_queued_pull_request sites', len(closes), 1)
    for x in closes:
        bound = dict(positional_args(hq, x) or [])
        casc = bound.get('cascade')
        loop = x
        while loop in pmq and not isinstance(loop, ast.For):
            loop = pmq[loop]
        fresh = isinstance(casc, ast.Call) and \
            src(casc.func).endswith('deepcopy')
        if isinstance(casc, ast.Name) and isinstance(loop, ast.For):
            # a local is fine when it is re-bound to a copy in the loop
            fresh = any(isinstance(v, ast.Call) and
                        src(v.func).endswith('deepcopy') and
                        any(st_ is y for y in ast.walk(loop))
                        for st_, v in stores_to(hq, casc.id)
                        if v is not None)
        rep.evaluated()
        rep.check(fresh and isinstance(loop, ast.For), R, hq.qname +
                  ': each merged pull request gets its own copy of the '
                  'cascade', hq.where(x), 'close_queued_pull_request(%s) '
                  'shares one cascade between the merged pull requests: '
                  'the second one is closed on a cascade already finalized '
                  'for the first (its w/ branches are not found)' %
                  (src(casc) if casc is not None else '?'))
    f = need_func(an, I + '.merge_integration_branches')
    pm = parent_map(f.node)
    for x in prog.calls_in(f):
        if isinstance(x.func, ast.Attribute) and x.func.attr == 'remove' \
                and src(x.func.value) not in ('tmp_oct', 'tmp_cns'):
            loop = x
            while loop in pm and not isinstance(loop, ast.For):
                loop = pm[loop]
            rep.evaluated()
            # the loop ranges over the rest of the wbranches parameter
            # (first, *rest = wbranches): the first one stands for the
            # source branch
            rest = {r for _, r, lst in first_rest(f)
                    if r is not None and src(lst) == f.params[1]}
            ok = isinstance(loop, ast.For) and src(loop.iter) in rest \
                and src(x.func.value) == loop.target.id
            rep.check(ok, R, f.qname + ': after a merge its own integration '
                      'branches are removed', f.where(x), 'removes %s' %
                      src(x.func.value))
    g = need_func(an, Q + '.close_queued_pull_request')
    # the branches removed: elements of list(get_integration_branches(job))
    gpm = parent_map(g.node)
    rms = [x for x in prog.calls_in(g)
           if isinstance(x.func, ast.Attribute) and x.func.attr == 'remove'
           and isinstance(x.func.value, ast.Name)]
    ok = bool(rms)
    shown = []
    for x in rms:
        loop = x
        while loop in gpm and not isinstance(loop, ast.For):
            loop = gpm[loop]
        it = canon(g, loop.iter) if isinstance(loop, ast.For) else '?'
        shown.append(it)
        ok = ok and isinstance(loop, ast.For) and \
            src(x.func.value) == src(loop.target) and \
            it == 'list(get_integration_branches(%s))' % g.params[0]
    rep.evaluated()
    rep.check(ok, R, g.qname + ': removes the integration branches of the '
              'merged pull request', g.where(), 'removes elements of %s' %
              shown)
    # job.git.src_branch (what get_integration_branches names the w/
    # branches after) is the merged pull request's source
    sb = [canon(g, n.value) for n in walk_local(g.node, include_root=False)
          if isinstance(n, ast.Assign) and any(
              src(t) == g.params[0] + '.git.src_branch' for t in n.targets)]
    rep.check(len(sb) == 1 and re.match(
        r'^branch_factory\(%s\.git\.repo, %s\.project_repo\.'
        r'get_pull_request\(int\(%s\)\)\.src_branch\)$' % (
            g.params[0], g.params[0], g.params[1]), sb[0]) is not None, R,
        g.qname + ': job.git.src_branch is the merged PR\'s source',
        g.where(), 'job.git.src_branch = %s' % sb)
