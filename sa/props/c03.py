"""C03 - with queues on, destinations only advance to CI-validated commits.

Decided statically: the build gate dominates queue entry and direct merge;
SUCCESSFUL is the only status any gate lets through; the queue lookup
dominates the selection that merge_queues consumes unless force_merge, which
only the admin job can set; direct-merge preconditions of is_needed; what
merge_queues merges.
"""
import ast

from ..program import AnalysisError, walk_local, dotted
from ..analysis import Spec, src, const_value
from ..cfg import node_contains_call
from ..rules import (inside, before, parent_map, is_access_path, GWF, EXC, mpt, need_func, need_call, stores_to,
                     substitute_locals, chained_assign_value, kw, is_const,
                     eval_atom, eval_cond, UNKNOWN)
from . import common, c06

BR = GWF + '.branches'
DOMAIN = c06.DOMAIN


def run(prog, an, rep):
    rep.explain(
        'C03: MPT (check_build_status dominates add_to_queue and '
        'merge_integration_branches on one wbranches value; in _process the '
        'status lookup dominates the selection unless force_merge), EXH '
        '(per-status partial evaluation of check_build_status and of '
        '_recursive_lookup: only SUCCESSFUL passes), WMC/KWC (force_merge '
        'only from the admin job), ARG (revision/key of queue lookups; what '
        'merge_queues merges), MPT (is_needed direct-merge preconditions).')
    rep.assume('git: merging the newest mergeable q/w branch into its '
               'destination is a fast-forward (C01/C05); the selection '
               'algorithm itself is C05')
    rep.run_rules(prog, an, [
        build_gate, outcome, recursive_lookup_literals, lookup_args,
        process_selection, force_merge_wiring, is_needed_rules,
        merge_queues_args, nothing_moves_without_selection,
        lookup_loop_exits, in_sync_pairs,
        version_keys, in_sync_before_update, selection_reads_its_argument])


def version_keys(prog, an, rep):
    """_process / validate match queues (keyed by the version tuple parsed
    from a q/ name) against merge paths (version tuples of destination
    branches): the tuple arity per kind must agree, or a queue silently
    drops out of every merge path and its build status is never read."""
    R = 'C03.SIB.version-keys'
    want = {'DevelopmentBranch': 2, 'StabilizationBranch': 3,
            'HotfixBranch': 4}
    for name, n in want.items():
        k = prog.cls(BR + '.' + name)
        m = prog.lookup_method(k, 'version_t')
        rep.evaluated()
        rets = [r for r in walk_local(m.node, include_root=False)
                if isinstance(r, ast.Return)] if m else []
        ar = {len(r.value.elts) if isinstance(r.value, ast.Tuple) else None
              for r in rets}
        rep.check(ar == {n}, R, '%s.version_t is a %d-tuple' % (name, n),
                  (m or k).where(), '%s.version_t resolves to %s returning '
                  'tuples of arity %s: it no longer matches the key of its '
                  'q/ branch' % (name, m.qname if m else None, sorted(
                      map(str, ar))))
    g = need_func(an, BR + '.GWFBranch.version_t')
    from .c17 import _returns
    c = an.cfg(g)
    for micro, hf, n in ((True, True, 4), (True, False, 3), (False, True, 2),
                         (False, False, 2)):
        env = {'self.micro is not None': micro,
               'self.hfrev is not None': hf}
        got = _returns(an, g, c, env)
        rep.evaluated()
        ok = len(got) == 1 and all(isinstance(x, str) and
                                   x.count(',') == n - 1 for x in got)
        rep.check(ok, R, 'GWFBranch.version_t: micro=%s hfrev=%s -> '
                  '%d-tuple' % ('set' if micro else 'None',
                                'set' if hf else 'None', n), g.where(),
                  'a q/ or w/ name with micro %s / hfrev %s parses back to '
                  '%s (a micro or hfrev of 0 must still count)' % (
                      'present' if micro else 'absent',
                      'present' if hf else 'absent', sorted(map(str, got))))


def nothing_moves_without_selection(prog, an, rep):
    """handle_merge_queues merges only when some pull request is mergeable
    (an empty selection ends the job before merge_queues and the push)."""
    R = 'C03.MPT.empty-selection'
    f = need_func(an, GWF + '.queueing.handle_merge_queues')
    c = an.cfg(f)
    some = an.branch_nodes(
        f, lambda e: src(e).endswith('.mergeable_prs') and
        isinstance(e, ast.Attribute), True)
    targets = an.target_nodes(f, Spec.func(GWF + '.queueing.merge_queues'),
                              depth=0) + \
        an.target_nodes(f, Spec.func('bert_e.workflow.git_utils.push'),
                        depth=0)
    rep.floor('C03 merge/push sites in handle_merge_queues', len(targets), 2)
    for t in targets:
        rep.evaluated()
        ok, path = c.must_pass(some, t.id)
        rep.check(ok and bool(some), R, f.qname + ': `%s` only when the '
                  'mergeable set is not empty' % src(t.ast)[:30],
                  f.where(t), 'destinations can be merged / pushed although '
                  'no queued pull request is mergeable',
                  path=c.describe_path(path))


def in_sync_before_update(prog, an, rep):
    """The "integration branches were in sync" verdict that lets queue mode
    keep them as they are is taken before update_integration_branches
    brings them up to date (afterwards it is trivially true, the branches
    would stay frozen and a direct merge would land unbuilt merges)."""
    R = 'C03.NEB.in-sync'
    f = need_func(an, GWF + '._handle_pull_request')
    c = an.cfg(f)
    upd = an.gate_nodes(f, Spec.func(
        GWF + '.integration.update_integration_branches'), depth=0)
    chk = an.target_nodes(f, Spec.func(GWF + '.check_in_sync'), depth=0)
    chk += [n for n in c.nodes.values() if n.kind == 'test' and any(
        isinstance(x, ast.Call) and an.call_matches(
            f, x, Spec.func(GWF + '.check_in_sync'))
        for x in ast.walk(n.ast))]
    rep.floor('C03 check_in_sync sites in _handle_pull_request', len(chk), 1)
    rep.floor('C03 update_integration_branches sites', len(upd), 1)
    after = set()
    for u in upd:
        after |= c.reachable(start=u)
    for n in chk:
        rep.evaluated()
        rep.check(n.id not in after, R, f.qname + ': check_in_sync is '
                  'evaluated before the integration branches are updated',
                  f.where(n), 'check_in_sync runs after '
                  'update_integration_branches: it always answers True')


def selection_reads_its_argument(prog, an, rep):
    """_recursive_lookup prunes a copy of the queues and _extract_pr_ids
    reads the pull request ids from what it is given: neither goes back to
    the unpruned self._queues."""
    R = 'C03.ARG.selection'
    for name in ('_extract_pr_ids', '_recursive_lookup'):
        f = need_func(an, BR + '.QueueCollection.' + name)
        bad = [x for x in walk_local(f.node, include_root=False)
               if isinstance(x, ast.Attribute) and x.attr == '_queues']
        rep.evaluated()
        rep.check(not bad and len(f.params) == 2, R, f.qname + ': works on '
                  'the queues it is given', f.where(bad[0] if bad else None),
                  '%s reads self._queues instead of its argument: pull '
                  'requests removed by the status lookup come back' % f.name)


def in_sync_pairs(prog, an, rep):
    common.in_sync_pairs(prog, an, rep, 'C03')


def build_gate(prog, an, rep):
    common.build_gate_dominates(prog, an, rep, 'C03')


def outcome(prog, an, rep):
    c06.outcome_table(prog, an, rep, pid='C03')


def _lookup_sites(an, f):
    """[(where, start node, env key, call)] for every look-up of a queue
    build status: `X = <...>.get_build_status(...)` (the walk starts after
    the assignment, X carries the status) or the call written inside a
    condition (the walk starts at that test, the call text carries it)."""
    c = an.cfg(f)
    out = []
    taken = set()
    for n in walk_local(f.node, include_root=False):
        if isinstance(n, ast.Assign) and len(n.targets) == 1 and \
                isinstance(n.targets[0], ast.Name) and \
                isinstance(n.value, ast.Call) and \
                an.call_matches(f, n.value, Spec.method('get_build_status')):
            out.append((n, c.done_node[id(n)], n.targets[0].id, n.value))
            taken.add(id(n.value))
    for t in sorted((n for n in c.nodes.values() if n.kind == 'test'),
                    key=lambda n: n.id):
        for x in ast.walk(t.ast):
            if isinstance(x, ast.Call) and id(x) not in taken and \
                    an.call_matches(f, x, Spec.method('get_build_status')):
                out.append((t.ast, t.id, src(x), x))
                taken.add(id(x))
    return out


def recursive_lookup_literals(prog, an, rep):
    """Partial evaluation: after status = get_build_status(...), the loop
    continues to the next version untouched only for 'SUCCESSFUL'; every
    other status marks the pull request as failed (assignment / break)."""
    R = 'C03.EXH.queue-status'
    f = need_func(an, BR + '.QueueCollection._recursive_lookup')
    c = an.cfg(f)
    looks = _lookup_sites(an, f)
    if len(looks) != 1:
        raise AnalysisError('anchor-missing status lookup in %s'
                            % f.qname)
    st, start, var, call = looks[0]
    for lit in DOMAIN + ('SOMETHING_ELSE',):
        rep.evaluated()
        labels = _walk_marks(c, start, {var: lit})
        if lit == 'SUCCESSFUL':
            ok = labels == {'clean'}
            msg = 'a SUCCESSFUL queue build is treated as failing'
        else:
            ok = 'clean' not in labels
            msg = ('status %s lets the loop continue as if the queue build '
                   'had passed' % lit)
        rep.check(ok, R, '%s: %s -> %s' % (
            f.qname, lit, 'pass' if lit == 'SUCCESSFUL' else 'drop'),
            f.where(st), msg, detail=str(sorted(labels)))


def lookup_loop_exits(prog, an, rep):
    """The walk over the queues stops (break / return inside the loop that
    looks the statuses up) only at a queue whose build is not SUCCESSFUL:
    an empty or unknown queue is skipped, it does not end the walk with
    "everything passed" while later queues were never looked up."""
    R = 'C03.MPT.queue-walk'
    f = need_func(an, BR + '.QueueCollection._recursive_lookup')
    c = an.cfg(f)
    looks = _lookup_sites(an, f)
    if len(looks) != 1:
        raise AnalysisError('anchor-missing status lookup in %s' % f.qname)
    st, start, var, call = looks[0]
    pm = parent_map(f.node)
    loop = st
    while loop in pm and not isinstance(loop, (ast.For, ast.While)):
        loop = pm[loop]
    if not isinstance(loop, (ast.For, ast.While)):
        raise AnalysisError('anchor-missing loop around the status lookup '
                            'in %s' % f.qname)

    def failing(e):
        return isinstance(e, ast.Compare) and len(e.ops) == 1 and \
            isinstance(e.ops[0], ast.NotEq) and \
            is_const(e.comparators[0], 'SUCCESSFUL') and \
            'get_build_status(' in src(substitute_locals(f, e.left))
    gates = an.branch_nodes(f, failing, True)
    exits = [n for n in c.nodes.values()
             if n.kind in ('break', 'return') and inside(loop, n.ast) and
             not any(isinstance(up, (ast.For, ast.While)) and up is not loop
                     and inside(loop, up) and inside(up, n.ast)
                     and n.kind == 'break' for up in ast.walk(loop))]
    rep.floor('C03 exits of the queue walk', len(exits), 1)
    for x in exits:
        rep.evaluated()
        ok, path = c.must_pass(gates, x.id)
        rep.check(ok and bool(gates), R, f.qname + ': the walk stops only '
                  'at a queue that is not SUCCESSFUL', f.where(x),
                  'the walk over the queues can stop before a status other '
                  'than SUCCESSFUL was seen: the queues after it are never '
                  'looked up and are merged as they are',
                  path=c.describe_path(path))


def _walk_marks(c, start, env):
    """Labels: 'clean' if the enclosing loop head (or function exit) is
    reached without any assignment / break / return / raise, 'marked'
    otherwise."""
    labels = set()
    seen = set()
    stack = [(start, True)]
    while stack:
        i, clean = stack.pop()
        if (i, clean) in seen:
            continue
        seen.add((i, clean))
        n = c.nodes[i]
        if n.kind == 'loop' or i == c.exit:
            labels.add('clean' if clean else 'marked')
            continue
        if n.kind in ('break', 'return', 'raise_stmt'):
            labels.add('marked')
            continue
        if n.kind == 'stmt' and isinstance(n.ast, (ast.Assign,
                                                   ast.AugAssign)):
            clean = False
        if n.kind == 'test':
            v = eval_cond(c.func, n.ast, env)
            if v is not UNKNOWN:
                for s in c.branch(n, bool(v)):
                    stack.append((s, clean))
                continue
        for s in c.succ[i]:
            if (i, s) in c.exc_edges:
                continue
            stack.append((s, clean))
    return labels


def lookup_args(prog, an, rep):
    R = 'C03.ARG.queue-lookup'
    for q in (BR + '.QueueCollection._recursive_lookup',):
        f = need_func(an, q)
        for st, _, var, call in _lookup_sites(an, f):
            rep.evaluated()
            rev = call.args[0] if call.args else None
            key = call.args[1] if len(call.args) > 1 else None
            ok = isinstance(rev, ast.Call) and \
                isinstance(rev.func, ast.Attribute) and \
                rev.func.attr == 'get_latest_commit' and \
                is_access_path(rev.func.value)
            qv = src(substitute_locals(f, rev.func.value)) if ok else None
            rep.check(ok, R, f.qname + ': revision is the queue tip',
                      f.where(call), 'revision %s is not '
                      '<qint>.get_latest_commit()' % (src(rev) if rev
                                                      else '?'))
            rep.check(key is not None and src(key) == 'self.build_key', R,
                      f.qname + ': key is self.build_key', f.where(call),
                      'queue builds are looked up under %s instead of the '
                      'configured build key' % (src(key) if key else '?'))
            if ok:
                # the pr id recorded on failure is that of the same branch
                ids = [n for n in walk_local(f.node, include_root=False)
                       if isinstance(n, ast.Assign) and
                       isinstance(n.value, ast.Attribute) and
                       n.value.attr == 'pr_id']
                good = all(src(substitute_locals(f, a.value.value)) == qv
                           for a in ids) and ids
                rep.check(bool(good), R, f.qname + ': failed pr id belongs '
                          'to the looked-up branch', f.where(call),
                          'the pull request marked as failed is not the one '
                          'whose tip was looked up')
    # build_key wiring
    k = prog.cls(BR + '.QueueCollection')
    init = k.methods['__init__']
    params = init.params
    stores = {}
    for n in walk_local(init.node, include_root=False):
        if isinstance(n, ast.Assign) and len(n.targets) == 1 and \
                dotted(n.targets[0]) in ('self.build_key',
                                         'self.force_merge', 'self.bbrepo'):
            stores[dotted(n.targets[0])] = src(n.value)
    rep.check(stores.get('self.build_key') == 'build_key' and
              stores.get('self.force_merge') == 'force_merge', R,
              'QueueCollection.__init__ stores build_key / force_merge '
              'parameters', init.where(),
              '__init__ stores %s' % stores, detail=str(stores))
    bq = need_func(an, BR + '.build_queue_collection')
    ctor = [c for c in prog.calls_in(bq)
            if prog.callee(bq, c) == ('class', k.qname)]
    if len(ctor) != 1:
        raise AnalysisError('anchor-missing QueueCollection(...) in %s' %
                            bq.qname)
    call = ctor[0]
    bound = bind_args(init, call)
    rep.evaluated()
    rep.check('build_key' in bound and
              src(bound['build_key']).endswith('settings.build_key'), R,
              bq.qname + ': build_key from settings', bq.where(call),
              'QueueCollection is built with build key %s' %
              (src(bound['build_key']) if 'build_key' in bound else '?'))
    fm = bound.get('force_merge')
    ok = fm is None or is_const(fm, False) or (
        isinstance(fm, ast.Call) and isinstance(fm.func, ast.Name) and
        fm.func.id == 'getattr' and len(fm.args) == 3 and
        is_const(fm.args[1], 'force_merge') and is_const(fm.args[2], False)
        and src(fm.args[0]) == bq.params[0])
    rep.check(ok, 'C03.KWC.force-merge', bq.qname + ': force_merge comes '
              'from the job, default False', bq.where(call),
              'force_merge argument is %s' % (src(fm) if fm is not None
                                              else 'absent'))


def bind_args(func, call):
    """Map parameter names of func (method: skip self) to argument exprs."""
    params = [p for p in func.params]
    if func.cls is not None and params and params[0] in ('self', 'cls'):
        params = params[1:]
    out = {}
    for p, a in zip(params, call.args):
        out[p] = a
    for k in call.keywords:
        if k.arg:
            out[k.arg] = k.value
    return out


def process_selection(prog, an, rep):
    R = 'C03.MPT.selection'
    f = need_func(an, BR + '.QueueCollection._process')
    c = an.cfg(f)
    look = Spec.func(BR + '.QueueCollection._recursive_lookup')
    extract = Spec.func(BR + '.QueueCollection._extract_pr_ids')
    remove = Spec.func(BR + '.QueueCollection._remove_unmergeable')
    loops = [n for n in walk_local(f.node, include_root=False)
             if isinstance(n, ast.For) and any(
                 isinstance(x, ast.Call) and an.call_matches(f, x, look)
                 for x in ast.walk(n))]
    if len(loops) != 1:
        if not an.direct_calls(f, look):
            rep.violation(R, f.qname + ': status lookup present', f.where(),
                          '_process never calls _recursive_lookup: queue '
                          'build statuses are not consulted')
            return
        raise AnalysisError('anchor-missing merge-path loop in ' + f.qname)
    loop = loops[0]
    head = c.stmt_node[id(loop)]
    # (a) consumer of the selection is reached only with force_merge on or
    #     through the merge-path loop
    fm_true = an.branch_nodes(f, lambda e: src(e) == 'self.force_merge',
                              True)
    targets = an.target_nodes(f, remove, depth=0)
    rep.floor('C03 _remove_unmergeable call sites', len(targets), 1)
    for t in targets:
        rep.evaluated()
        ok, path = c.must_pass([head] + fm_true, t.id)
        rep.check(ok, R, f.qname + ': selection consumed only after the '
                  'merge-path loop or under force_merge', f.where(t),
                  'the mergeable set is consumed without consulting build '
                  'statuses and without force_merge',
                  path=c.describe_path(path))
    # the only test guarding the loop is force_merge
    rep.check(bool(fm_true), R, f.qname + ': force_merge test present',
              f.where(), 'no test of self.force_merge in _process')
    # (b) inside one iteration the lookup precedes the extraction
    it_start = [s for s in c.succ[head] if c.nodes[s].kind == 'true']
    gates = an.gate_nodes(f, look, depth=0)
    ext_in_loop = [n for n in an.target_nodes(f, extract, depth=0)
                   if inside(loop, n)]
    rep.floor('C03 _extract_pr_ids call sites inside the loop',
              len(ext_in_loop), 1)
    for t in ext_in_loop:
        rep.evaluated()
        ok = True
        path = None
        for s in it_start:
            p = c.path(s, t.id, removed=set(gates))
            if p is not None:
                ok, path = False, p
        rep.check(ok, R, f.qname + ': lookup precedes extraction in each '
                  'iteration', f.where(t), 'mergeable PRs of a merge path '
                  'are extracted before failed builds were dropped',
                  path=c.describe_path(path))
    # same `stack` value
    la = [x.args[0] for x in an.direct_calls(f, look) if x.args]
    ea = [x.args[0] for x in an.direct_calls(f, extract)
          if x.args and inside(loop, x)]
    same = la and ea and {src(a) for a in la} == {src(a) for a in ea} and \
        all(isinstance(a, ast.Name) for a in la + ea)
    rep.check(bool(same), 'C03.ARG.selection', f.qname + ': lookup and '
              'extraction work on the same stack', f.where(loop),
              'lookup on %s but extraction from %s' % (
                  [src(a) for a in la], [src(a) for a in ea]))
    # (c) provenance of the list handed to _remove_unmergeable
    for call in an.direct_calls(f, remove):
        rep.evaluated()
        a0 = call.args[0] if call.args else None
        ok = isinstance(a0, ast.Name)
        roots = set()
        if ok:
            roots = _provenance(an, f, a0.id, extract, set())
        good = ok and roots and roots <= {'extract'}
        rep.check(bool(good), 'C03.ARG.selection', f.qname + ': merged set '
                  'comes only from _extract_pr_ids results', f.where(call),
                  'the list of mergeable pull requests has other producers: '
                  '%s' % sorted(roots), detail=str(sorted(roots)))
        # shrink only: the in-loop rebinding is guarded by len(new) < len(old)
        if ok:
            for st, val in stores_to(f, a0.id):
                if inside(loop, st):
                    n = c.stmt_node.get(id(st))
                    def is_len_cmp(e):
                        return isinstance(e, ast.Compare) and \
                            len(e.ops) == 1 and \
                            isinstance(e.ops[0], (ast.Lt, ast.Gt, ast.LtE,
                                                  ast.GtE)) and \
                            'len(' in src(e.left) and \
                            'len(' in src(e.comparators[0])
                    guards = an.branch_nodes(f, is_len_cmp, True)
                    gok, gpath = c.must_pass(guards, n)
                    rep.check(gok, 'C03.MPT.selection', f.qname +
                              ': per-path result only shrinks the set',
                              f.where(st), 'the common mergeable set is '
                              're-bound without the "smaller list" guard',
                              path=c.describe_path(gpath))
                    for g in an.test_nodes(f, is_len_cmp):
                        cmp_ = g.ast
                        new = src(val) if val is not None else '?'
                        lft, rgt = src(cmp_.left), src(cmp_.comparators[0])
                        op = type(cmp_.ops[0])
                        smaller = (op in (ast.Lt, ast.LtE) and new in lft
                                   and a0.id in rgt) or \
                                  (op in (ast.Gt, ast.GtE) and new in rgt
                                   and a0.id in lft)
                        rep.check(smaller, 'C03.MPT.selection', f.qname +
                                  ': guard keeps the smaller list',
                                  f.where(g), 'guard %s keeps the larger '
                                  'list' % src(cmp_), detail=src(cmp_))


def _provenance(an, f, name, extract, seen):
    if name in seen:
        return set()
    seen.add(name)
    roots = set()
    for st, val in stores_to(f, name):
        if val is None:
            roots.add('unknown:%s' % type(st).__name__)
        elif isinstance(val, ast.Call) and an.call_matches(f, val, extract):
            roots.add('extract')
        elif isinstance(val, ast.Name):
            roots |= _provenance(an, f, val.id, extract, seen)
        else:
            roots.add('expr:%s' % src(val)[:40])
    return roots


def force_merge_wiring(prog, an, rep):
    R = 'C03.WMC.force-merge'
    qj = prog.cls('bert_e.job.QueuesJob')
    init = qj.methods.get('__init__')
    if init is None:
        raise AnalysisError('anchor-missing QueuesJob.__init__')
    a = init.node.args
    defaults = dict(zip([x.arg for x in a.args][-len(a.defaults):],
                        a.defaults)) if a.defaults else {}
    rep.check('force_merge' in defaults and
              is_const(defaults['force_merge'], False), 'C03.KWC.force-merge',
              'QueuesJob.__init__: force_merge defaults to False',
              init.where(), 'force_merge default is %s' % (
                  src(defaults['force_merge']) if 'force_merge' in defaults
                  else 'missing'))
    allowed = {'bert_e.jobs.force_merge_queues.force_merge_queues'}
    n_sites = 0
    for f in prog.all_funcs():
        for call in prog.calls_in(f):
            cal = prog.callee(f, call)
            if cal == ('class', qj.qname):
                n_sites += 1
                rep.evaluated()
                v = kw(call, 'force_merge')
                pos = len(call.args) > 0
                truthy = (v is not None and not is_const(v, False)) or pos
                if truthy:
                    rep.check(f.qname in allowed, R,
                              'QueuesJob(force_merge=...) in ' + f.qname,
                              f.where(call), 'force_merge is switched on '
                              'outside the admin force-merge job')
                else:
                    rep.ok(R, 'QueuesJob(...) without force_merge in ' +
                           f.qname, f.where(call))
    rep.floor('C03 QueuesJob constructor sites', n_sites, 3)
    # no other writer of a force_merge attribute
    for f in prog.all_funcs():
        for n in walk_local(f.node, include_root=False):
            tg = []
            if isinstance(n, ast.Assign):
                tg = n.targets
            elif isinstance(n, (ast.AugAssign, ast.AnnAssign)):
                tg = [n.target]
            for t in tg:
                if isinstance(t, ast.Attribute) and t.attr == 'force_merge':
                    ok = f.qname in (qj.qname + '.__init__',
                                     BR + '.QueueCollection.__init__')
                    rep.check(ok, R, 'store to .force_merge in ' + f.qname,
                              f.where(n), 'force_merge is written outside '
                              'the two constructors')
            if isinstance(n, ast.Call) and isinstance(n.func, ast.Name) and \
                    n.func.id == 'setattr' and len(n.args) >= 2 and \
                    is_const(n.args[1], 'force_merge'):
                rep.violation(R, 'setattr force_merge in ' + f.qname,
                              f.where(n), 'force_merge set dynamically')
    # the endpoint whose job is ForceMergeQueuesJob is admin-only
    for k in prog.subclasses('bert_e.server.api.base.APIEndpoint',
                             strict=True):
        job, _ = prog.class_attr(k, 'job')
        if job is not None and (dotted(job) or '').endswith(
                'ForceMergeQueuesJob'):
            adm, _ = prog.class_attr(k, 'admin')
            rep.check(adm is not None and is_const(adm, True),
                      'C03.REG.force-merge-admin', k.qname + '.admin',
                      k.where(), 'the force-merge endpoint is not admin-only')
    # handler builds the job with force_merge=True and runs the queue merge
    h = need_func(an, 'bert_e.jobs.force_merge_queues.force_merge_queues')
    need_call(an, h, Spec.func(GWF + '.queueing.handle_merge_queues'))


def is_needed_rules(prog, an, rep):
    R = 'C03.MPT.direct-merge'
    f = need_func(an, GWF + '.queueing.is_needed')
    c = an.cfg(f)
    falsy_returns = [n for n in c.nodes.values() if n.kind == 'return' and
                     n.ast.value is not None and
                     isinstance(n.ast.value, ast.Constant) and
                     not n.ast.value.value]
    other_returns = [n for n in c.nodes.values() if n.kind == 'return' and
                     not (n.ast.value is not None and
                          isinstance(n.ast.value, ast.Constant))]
    rep.check(not other_returns, R, f.qname + ': returns are boolean '
              'constants', f.where(), 'is_needed returns a computed value; '
              'the direct-merge preconditions cannot be read off the paths')
    if c.exit in c.reachable() and any(
            c.nodes[p].kind != 'return' for p in c.pred[c.exit]):
        rep.violation(R, f.qname + ': no implicit None return', f.where(),
                      'is_needed can fall off its end (None = "not needed")')

    def has(e, text):
        return text in src(e)

    q_off = an.branch_nodes(f, lambda e: has(e, 'is None'), True) + \
        an.branch_nodes(f, lambda e: has(e, 'use_queue') and
                        has(e, 'is False'), True) + \
        an.branch_nodes(f, lambda e: src(e).endswith('use_queue'), False)
    gates = {
        'skip_queue_when_not_needed enabled':
            an.branch_nodes(f, lambda e: has(e, 'skip_queue_when_not_needed')
                            and has(e, 'is False'), False) +
            an.branch_nodes(f, lambda e: src(e).endswith(
                'skip_queue_when_not_needed'), True),
        'queue is empty':
            an.branch_nodes(f, lambda e: has(e, 'queued_prs'), False),
        'not already queued':
            an.branch_nodes(f, lambda e: has(e, 'already_in_queue'), False),
        'source contains destination tip':
            an.branch_nodes(f, lambda e: has(e, 'src_branch.includes_commit')
                            and has(e, 'dst_branch.get_latest_commit'),
                            True),
    }
    loops = [n for n in walk_local(f.node, include_root=False)
             if isinstance(n, ast.For) and 'includes_commit' in src(n)]
    loop_gate = []
    for lp in loops:
        head = c.stmt_node[id(lp)]
        loop_gate += [s for s in c.succ[head] if c.nodes[s].kind == 'false']
        # inside the loop a missing tip must return True
        inc_false = [b for b in an.branch_nodes(
            f, lambda e: has(e, 'includes_commit') and
            has(e, 'get_latest_commit'), False)
            if inside(lp, c.nodes[b])]
        for b in inc_false:
            reach = c.reachable(start=b, use_exc=False, stop=[head])
            bad = head in reach
            rep.check(not bad, R, f.qname + ': an integration branch '
                      'behind its target forces the queue', f.where(lp),
                      'the loop continues when an integration branch does '
                      'not contain its destination tip')
        lit = substitute_locals(f, lp.iter)
        it = src(lit)
        ok_it = isinstance(lit, ast.Call) and \
            src(lit.func) == 'zip' and len(lit.args) == 2 and \
            src(lit.args[0]) == f.params[1] and \
            src(lit.args[1]) == f.params[0] + \
            '.git.cascade.dst_branches'
        rep.check(ok_it, R, f.qname + ': loop pairs the whole wbranches '
                  'with the whole cascade (branch n with target n)',
                  f.where(lp), 'loop iterates %s: integration branches are '
                  'no longer compared with their own targets' % it,
                  detail=it)
    gates['every integration branch contains its destination tip'] = \
        loop_gate
    rep.floor('C03 is_needed falsy returns', len(falsy_returns), 2)
    for r in falsy_returns:
        for label, g in gates.items():
            rep.evaluated()
            ok, path = c.must_pass(list(g) + q_off, r.id)
            rep.check(ok, R, '%s: "not needed" requires %s' % (f.qname,
                                                               label),
                      f.where(r), 'is_needed can answer False (merge '
                      'directly, skipping queue builds) without: ' + label,
                      path=c.describe_path(path))


def merge_queues_args(prog, an, rep):
    R = 'C03.ARG.merge-queues'
    f = need_func(an, GWF + '.queueing.merge_queues')
    merges = [c for c in prog.calls_in(f)
              if isinstance(c.func, ast.Attribute) and c.func.attr == 'merge']
    rep.floor('C03 merge calls in merge_queues', len(merges), 1)
    for call in merges:
        rep.evaluated()
        recv = src(substitute_locals(f, call.func.value))
        args = [src(substitute_locals(f, a)) for a in call.args]
        ok = recv.endswith('[QueueBranch].dst_branch') and \
            len(args) == 1 and args[0].endswith('[QueueIntegrationBranch][0]')
        rep.check(ok, R, f.qname + ': destination.merge(newest mergeable '
                  'queue branch)', f.where(call),
                  'merge_queues merges %s into %s' % (args, recv),
                  detail='%s.merge(%s)' % (recv, ', '.join(args)))
        rep.check(not call.keywords, 'C03.KWC.merge-queues',
                  f.qname + ': no do_push / force_commit on the destination '
                  'merge', f.where(call), 'destination merge passes %s' %
                  [k.arg for k in call.keywords])
    # only handle_merge_queues may call merge_queues, with mergeable_queues
    sites = []
    for g in prog.all_funcs():
        for call in an.direct_calls(g, Spec.func(f.qname)):
            sites.append((g, call))
    rep.floor('C03 merge_queues call sites', len(sites), 1)
    for g, call in sites:
        rep.evaluated()
        ok = g.qname == GWF + '.queueing.handle_merge_queues' and \
            len(call.args) == 1 and \
            src(call.args[0]).endswith('.mergeable_queues')
        rep.check(ok, 'C03.WMC.merge-queues', 'merge_queues called from ' +
                  g.qname, g.where(call), 'merge_queues is called from %s '
                  'with %s (only handle_merge_queues with '
                  'queues.mergeable_queues is allowed)' % (
                      g.qname, [src(a) for a in call.args]))
