"""C04 - the review gate passes exactly when approvals suffice (structure)."""
import ast

from ..program import AnalysisError, walk_local, dotted
from ..analysis import Spec, src
from ..deps import Deps

OPS = {ast.Eq: '==', ast.NotEq: '!=', ast.Lt: '<', ast.LtE: '<=',
       ast.Gt: '>', ast.GtE: '>=', ast.In: 'in', ast.NotIn: 'not in',
       ast.Is: 'is', ast.IsNot: 'is not'}


_NEG = {'==': '!=', '!=': '==', '<': '>=', '>=': '<', '>': '<=', '<=': '>',
        'in': 'not in', 'not in': 'in', 'is': 'is not', 'is not': 'is'}
_SWAP = {'<': '>', '<=': '>='}


def signature(d, e, expand=True, neg=False):
    """Canonical shape of a decision formula: boolean skeleton in negation
    normal form (De Morgan applied, `not (a < b)` read as `a >= b`),
    comparisons written with > / >= (`a < b` is `b > a`), `len(x) > 0` read
    as the truthiness of x, and per-atom dependence leaves."""
    if isinstance(e, ast.BoolOp):
        op = 'and' if isinstance(e.op, ast.And) else 'or'
        if neg:
            op = 'or' if op == 'and' else 'and'
        kids = []
        for v in e.values:
            k = signature(d, v, expand, neg)
            if k[0] == op:
                kids.extend(k[1])
            else:
                kids.append(k)
        # constants: `False or x` is x, `True or x` is True (and dually)
        unit, zero = (('truth', True), ('truth', False)) if op == 'and' \
            else (('truth', False), ('truth', True))
        if zero in kids:
            return zero
        kids = [k for k in kids if k != unit]
        if not kids:
            return unit
        if len(kids) == 1:
            return kids[0]
        return (op, tuple(sorted(kids, key=repr)))
    if isinstance(e, ast.UnaryOp) and isinstance(e.op, ast.Not):
        return signature(d, e.operand, expand, not neg)
    if isinstance(e, ast.Compare) and len(e.ops) == 1:
        op = OPS.get(type(e.ops[0]), '?')
        if neg and op in _NEG:
            op, neg = _NEG[op], False
        a, b = e.left, e.comparators[0]
        if op in _SWAP:
            op, a, b = _SWAP[op], b, a
        # `x - y > 0` is `x > y` (also when the difference sits in a local)
        a, b = _difference(d, a, b)
        # len(x) > 0 / len(x) != 0 / len(x) >= 1: x is not empty
        if isinstance(a, ast.Call) and isinstance(a.func, ast.Name) and \
                a.func.id == 'len' and isinstance(b, ast.Constant):
            nonempty = {('>', 0): True, ('!=', 0): True, ('>=', 1): True,
                        ('==', 0): False}.get((op, b.value))
            if nonempty is not None:
                at = ('atom', tuple(sorted(d.leaves(a, at=e,
                                                    with_control=False))))
                return at if nonempty != neg else ('not', at)
        lft = tuple(sorted(d.leaves(a, at=e, with_control=False)))
        if isinstance(b, ast.Constant):
            rgt = ('const', b.value)
        elif isinstance(a, ast.Constant):
            lft, rgt = ('const', a.value), tuple(sorted(
                d.leaves(b, at=e, with_control=False)))
        else:
            rgt = tuple(sorted(d.leaves(b, at=e, with_control=False)))
        if op in ('==', '!=') and repr(lft) > repr(rgt) and \
                not (isinstance(rgt, tuple) and rgt[:1] == ('const',)):
            lft, rgt = rgt, lft
        out = ('cmp', lft, op, rgt)
        return ('not', out) if neg else out
    if isinstance(e, ast.Constant) and isinstance(e.value, bool):
        return ('truth', e.value != neg)
    if expand and isinstance(e, ast.Name):
        use = d._use_ids(e)
        reaching = [(st, vals) for st, vals in d.defs().get(e.id, [])
                    if not use or d._can_reach(st, use)]
        if len(reaching) == 1 and isinstance(reaching[0][0], ast.Assign) \
                and isinstance(reaching[0][1][0], (ast.BoolOp, ast.UnaryOp,
                                                   ast.Compare)):
            return signature(d, reaching[0][1][0], expand, neg)
    at = ('atom', tuple(sorted(d.leaves(e, at=e, with_control=False))))
    return ('not', at) if neg else at


def _difference(d, a, b):
    def value(x):
        if isinstance(x, ast.Name):
            use = d._use_ids(x)
            reaching = [(st, vals) for st, vals in d.defs().get(x.id, [])
                        if not use or d._can_reach(st, use)]
            if len(reaching) == 1 and isinstance(reaching[0][0], ast.Assign) \
                    and len(reaching[0][1]) == 1:
                return reaching[0][1][0]
        return x

    def zero(x):
        return isinstance(x, ast.Constant) and x.value == 0 and \
            x.value is not False
    if zero(b):
        v = value(a)
        if isinstance(v, ast.BinOp) and isinstance(v.op, ast.Sub):
            return v.left, v.right
    if zero(a):
        v = value(b)
        if isinstance(v, ast.BinOp) and isinstance(v.op, ast.Sub):
            return v.right, v.left
    return a, b


from ..rules import (GWF, EXC, mpt, need_func, raise_class,  # noqa: E402
                     substitute_locals,
                     parent_map)
from . import common  # noqa: E402

EARLY_RETURN = (
    'and',
    (('cmp',
      ('bypass_leader_approval()', 'settings.required_leader_approvals'),
      '>=', ('settings.required_leader_approvals',)),
     ('cmp',
      ('bypass_peer_approval()', 'settings.required_peer_approvals'),
      '>=', ('settings.required_peer_approvals',)),
     ('not', ('atom', ('settings.unanimity',))),
     ('or',
      (('atom', ('bypass_author_approval()',)),
       ('atom', ('settings.approve',)),
       ('not', ('atom', ('settings.need_author_approval',)))))))

RAISE_GUARD = (
    'or',
    (('and',
      (('atom', ('settings.unanimity',)),
       ('not', ('atom', ('pull_request.author',
                         'pull_request.get_approvals()',
                         'pull_request.get_participants()',
                         'settings.approve', 'settings.robot'))))),
     # missing = required - current; `missing > 0` reads `required > current`
     ('cmp', ('settings.required_leader_approvals',), '>',
      ('bypass_leader_approval()', 'pull_request.author',
       'pull_request.get_approvals()', 'settings.approve',
       'settings.project_leaders', 'settings.required_leader_approvals')),
     ('cmp', ('settings.required_peer_approvals',), '>',
      ('bypass_peer_approval()', 'pull_request.author',
       'pull_request.get_approvals()', 'settings.approve',
       'settings.required_peer_approvals')),
     ('atom', ('pull_request.get_change_requests()',)),
     ('not', ('atom', ('bypass_author_approval()', 'pull_request.author',
                       'pull_request.get_approvals()', 'settings.approve',
                       'settings.need_author_approval')))))

INPUTS = {
    'settings.required_peer_approvals', 'settings.required_leader_approvals',
    'settings.need_author_approval', 'settings.unanimity', 'settings.approve',
    'settings.project_leaders', 'settings.robot', 'pull_request.author',
    'pull_request.get_approvals()', 'pull_request.get_participants()',
    'pull_request.get_change_requests()', 'bypass_peer_approval()',
    'bypass_leader_approval()', 'bypass_author_approval()'}


def run(prog, an, rep):
    rep.explain(
        'C04: MPT (check_approvals dominates add_to_queue / '
        'merge_integration_branches), DEP (backward slice of the raise guard '
        'contains the 14 inputs of the statement; formula signature = '
        'boolean skeleton + polarity + comparison operators + per-atom '
        'dependence leaves, for the early return and the raise guard), MPT '
        '(no other normal exit), SIB (bypass helpers), ARG (author_bypass '
        'keyed by the PR author), REG (settings inter-validation).')
    rep.assume('the arithmetic of the counts (set sizes, author-as-leader '
               'increment, unanimity equality) is not evaluated')
    rep.run_rules(prog, an, [gate, formulas, shapes, counted_sets, helpers,
                             settings_validation, user_identity,
                             review_summary])


def review_summary(prog, an, rep):
    """GitHub: the current review of a reviewer is their latest review that
    is not a plain comment -- the COMMENTED reviews are taken out before the
    latest one per author is chosen.  Taken out afterwards, a comment posted
    after an approval would hide the approval (and a change request)."""
    from ..rules import canon, substitute_locals, cond_equiv, parent_map
    R = 'C04.MPT.review-summary'
    f = need_func(an, 'bert_e.git_host.github.PullRequest.'
                  'get_summarized_reviews')
    pm = parent_map(f.node)
    sites = []
    for n in walk_local(f.node, include_root=False):
        # D[x.author] = x inside `for x in SOURCE`
        if isinstance(n, ast.Assign) and len(n.targets) == 1 and \
                isinstance(n.targets[0], ast.Subscript) and \
                isinstance(n.value, ast.Name):
            x = n.value.id
            sl = n.targets[0].slice
            lp = pm.get(n)
            while lp is not None and not (
                    isinstance(lp, ast.For) and
                    isinstance(lp.target, ast.Name) and lp.target.id == x):
                lp = pm.get(lp)
            if lp is not None and isinstance(sl, ast.Attribute) and \
                    sl.attr == 'author' and src(sl.value) == x:
                sites.append((n, lp.iter))
        # SOURCE[-1]
        if isinstance(n, ast.Subscript) and isinstance(n.ctx, ast.Load) and \
                isinstance(n.slice, ast.UnaryOp) and \
                isinstance(n.slice.op, ast.USub) and \
                isinstance(n.slice.operand, ast.Constant) and \
                n.slice.operand.value == 1:
            sites.append((n, n.value))
    rep.floor('C04 latest-review-per-author selections', len(sites), 1)

    def filtered(e):
        e = substitute_locals(f, e, depth=6)
        for x in ast.walk(e):
            conds = []
            if isinstance(x, ast.Lambda) and len(x.args.args) == 1:
                conds.append((x.args.args[0].arg, x.body))
            if isinstance(x, (ast.ListComp, ast.GeneratorExp, ast.SetComp)):
                for g in x.generators:
                    if isinstance(g.target, ast.Name):
                        for i_ in g.ifs:
                            conds.append((g.target.id, i_))
            for v, cnd in conds:
                if cond_equiv(None, cnd, 'not %s.commented' % v):
                    return True
        return False
    for n, source in sites:
        rep.evaluated()
        rep.check(filtered(source), R, f.qname + ': the latest review is '
                  'chosen among the reviews that are not comments',
                  f.where(n), 'the latest review per author is chosen from '
                  '%s, which still holds the COMMENTED reviews: a later '
                  'comment hides an approval or a change request' %
                  src(source)[:60])


def user_identity(prog, an, rep):
    """The approvers, participants and change requesters are sets of the
    strings the git host reports; the robot, the leaders and the admins are
    UserDict objects looked up in them (`leader in approvals`, set
    intersections).  That look-up needs hash(user) to be the hash of the
    string __eq__ accepts at the time of the look-up: the account id when
    there is one (it is set after log-in for the robot), else the
    username."""
    from ..rules import (return_exprs_under, simplify_under, canon,
                         returns_under)
    R = 'C04.SIB.user-identity'
    f = need_func(an, 'bert_e.settings.UserDict.__hash__')
    for env, want in (({'self.account_id': True}, 'hash(self.account_id)'),
                      ({'self.account_id': False}, 'hash(self.username)')):
        got = set()
        for e in return_exprs_under(an, f, env):
            if e is None or isinstance(e, tuple):
                got.add(str(e))
            else:
                got.add(canon(f, simplify_under(
                    f, ast.parse(canon(f, e), mode='eval').body, env)))
        rep.evaluated()
        rep.check(got == {want}, R, 'UserDict.__hash__ with%s account id is '
                  '%s' % ('' if env['self.account_id'] else 'out', want),
                  f.where(), 'hash of a user is %s: it is not the hash of '
                  'the string the user compares equal to at that time' %
                  sorted(got))
    g = need_func(an, 'bert_e.settings.UserDict.__eq__')
    for env, want in (
            ({'isinstance(other, UserDict)': False,
              'isinstance(other, self.__class__)': False,
              'isinstance(other, str)': True,
              'other == self.account_id': True}, True),
            ({'isinstance(other, UserDict)': False,
              'isinstance(other, self.__class__)': False,
              'isinstance(other, str)': True,
              'other == self.account_id': False,
              'other == self.username': True}, True),
            ({'isinstance(other, UserDict)': False,
              'isinstance(other, self.__class__)': False,
              'isinstance(other, str)': True,
              'other == self.account_id': False,
              'other == self.username': False}, False)):
        got = returns_under(an, g, env)
        rep.evaluated()
        rep.check(got == {want}, R, 'UserDict == str: account id or '
                  'username (%s)' % want, g.where(),
                  'comparison with a string answers %s under %s' % (
                      sorted(map(str, got)), env))


def gate(prog, an, rep):
    f = need_func(an, GWF + '._handle_pull_request')
    g = Spec.func(GWF + '.check_approvals')
    for tq in (GWF + '.queueing.add_to_queue',
               GWF + '.integration.merge_integration_branches'):
        mpt(an, rep, 'C04.MPT.approval-gate', f, Spec.func(tq), [g], depth=2)


def _norm(sig):
    """Children of and/or in one fixed order (the comparison of two
    formulas must not depend on how they were written down)."""
    if sig[0] in ('and', 'or'):
        return (sig[0], tuple(sorted((_norm(k) for k in sig[1]), key=repr)))
    if sig[0] == 'not':
        return ('not', _norm(sig[1]))
    return sig


def describe(sig, indent=0):
    return repr(sig)


def diff_sig(found, want):
    """Human-readable list of differences between two signatures."""
    if found == want:
        return []
    if found[0] != want[0]:
        return ['operator/shape %r instead of %r' % (found[0], want[0])]
    if found[0] in ('and', 'or'):
        fs, ws = list(found[1]), list(want[1])
        out = []
        for x in fs:
            if x in ws:
                ws.remove(x)
            else:
                out.append('unexpected term %r' % (x,))
        for x in ws:
            out.append('missing term %r' % (x,))
        return out
    if found[0] == 'not':
        return diff_sig(found[1], want[1])
    return ['term %r instead of %r' % (found, want)]


def formulas(prog, an, rep):
    f = need_func(an, GWF + '.check_approvals')
    c = an.cfg(f)
    d = Deps(an, f)
    raise_ifs, return_ifs = [], []
    for n in walk_local(f.node, include_root=False):
        if isinstance(n, ast.If):
            for s in n.body:
                if isinstance(s, ast.Raise) and (raise_class(an, f, s) or
                                                 '').endswith(
                                                     '.ApprovalRequired'):
                    raise_ifs.append(n)
                if isinstance(s, ast.Return):
                    return_ifs.append(n)
    if len(raise_ifs) != 1:
        if not raise_ifs:
            rep.violation('C04.DEP.raise-guard', f.qname, f.where(),
                          'check_approvals never raises ApprovalRequired '
                          'under a condition')
            return
        raise AnalysisError('check_approvals: %d guarded raises of '
                            'ApprovalRequired' % len(raise_ifs))
    rg = raise_ifs[0]
    # DEP: whole slice contains every input
    got = d.leaves(rg.test, with_control=True)
    rep.evaluated(len(INPUTS))
    missing = sorted(INPUTS - got)
    extra = sorted(got - INPUTS)
    rep.check(not missing, 'C04.DEP.raise-guard', f.qname + ': the decision '
              'depends on all 14 inputs', f.where(rg),
              'inputs no longer reaching the ApprovalRequired decision: %s' %
              missing, detail=str(sorted(got)))
    rep.check(not extra, 'C04.DEP.raise-guard', f.qname + ': the decision '
              'depends on nothing else', f.where(rg),
              'the approval decision now also depends on %s' % extra)
    sig = signature(d, rg.test)
    rep.evaluated()
    rep.check(_norm(sig) == _norm(RAISE_GUARD), 'C04.DEP.raise-formula', f.qname +
              ': raise guard formula (terms, polarity, operators, per-term '
              'inputs)', f.where(rg), 'raise guard changed: %s' %
              '; '.join(diff_sig(sig, RAISE_GUARD)), detail=repr(sig))
    # early return(s)
    rets = [n for n in return_ifs]
    rep.check(len(rets) == 1, 'C04.MPT.exits', f.qname + ': exactly one '
              'early return', f.where(), '%d conditional early returns in '
              'check_approvals (expected the single "everything waived" '
              'shortcut)' % len(rets))
    for r in rets[:1]:
        sig = signature(d, r.test)
        rep.evaluated()
        rep.check(_norm(sig) == _norm(EARLY_RETURN), 'C04.DEP.early-return-formula',
                  f.qname + ': early-return formula', f.where(r),
                  'early-return shortcut changed: %s' %
                  '; '.join(diff_sig(sig, EARLY_RETURN)), detail=repr(sig))
    # no other normal exit: the exit is reached only through the known early
    # return or through the atoms of the raise guard
    known = []
    for r in rets[:1]:
        for s in r.body:
            if isinstance(s, ast.Return):
                known += c.copies.get(id(s), [])
    atoms = [n.id for n in c.nodes.values() if n.kind == 'test' and any(
        n.ast is x for x in ast.walk(rg.test))]
    ok, path = c.must_pass(known + atoms, c.exit, use_exc=False)
    rep.evaluated()
    rep.check(ok, 'C04.MPT.exits', f.qname + ': every normal exit is the '
              'shortcut or passes the raise guard', f.where(),
              'check_approvals can return normally without evaluating the '
              'approval decision', path=c.describe_path(path))
    all_returns = [n for n in c.nodes.values() if n.kind == 'return']
    rep.check(len(all_returns) == len(known), 'C04.MPT.exits', f.qname +
              ': no unconditional return', f.where(), 'check_approvals has '
              'a return statement outside the waiver shortcut')


def helpers(prog, an, rep):
    for name in ('bypass_peer_approval', 'bypass_leader_approval',
                 'bypass_author_approval'):
        common.bypass_helper(prog, an, rep, name, 'C04')
    common.author_bypass_keyed_by_pr_author(prog, an, rep, 'C04')
    common.per_author_options(prog, an, rep, 'C04')
    opts, _ = common.reactor_registry(prog, an)
    for name in ('bypass_peer_approval', 'bypass_leader_approval',
                 'bypass_author_approval', 'approve', 'unanimity'):
        rep.evaluated()
        rep.check(name in opts, 'C04.REG.option', 'option %s registered' %
                  name, opts.get(name, {}).get('where'),
                  'option %s is no longer registered: the comment channel '
                  'of this input is gone' % name)


def settings_validation(prog, an, rep):
    R = 'C04.REG.settings-validation'
    k = prog.cls('bert_e.settings.SettingsSchema')
    f = k.methods.get('validate_inter_settings')
    if f is None:
        rep.violation(R, 'SettingsSchema.validate_inter_settings', k.where(),
                      'inter-settings validation removed')
        return
    decs = [dotted(x) or dotted(getattr(x, 'func', x)) for x in f.decorators]
    rep.check(any(x and x.endswith('validates_schema') for x in decs), R,
              f.qname + ': registered with @validates_schema', f.where(),
              'validate_inter_settings is not a @validates_schema hook any '
              'more')
    c = an.cfg(f)
    want = {('required_leader_approvals', 'required_peer_approvals'): False,
            ('project_leaders', 'required_leader_approvals'): False}
    for n in c.nodes.values():
        if n.kind != 'test' or not isinstance(n.ast, ast.Compare) or \
                len(n.ast.ops) != 1:
            continue
        e = substitute_locals(f, n.ast)
        if not (isinstance(e, ast.Compare) and len(e.ops) == 1):
            continue
        keys = lambda x: sorted({s.value for s in ast.walk(x)  # noqa: E731
                                 if isinstance(s, ast.Constant) and
                                 isinstance(s.value, str)})
        lk, rk = keys(e.left), keys(e.comparators[0])
        op = type(e.ops[0])
        pair = tuple(sorted(lk + rk))
        if pair in want:
            leader_left = lk == ['required_leader_approvals']
            strict_gt = (op is ast.Gt and leader_left) or \
                (op is ast.Lt and not leader_left)
            if pair[0] == 'project_leaders':
                other = e.comparators[0] if leader_left else e.left
                strict_gt = strict_gt and isinstance(other, ast.Call) and \
                    isinstance(other.func, ast.Name) and \
                    other.func.id == 'len' and len(other.args) == 1 and \
                    isinstance(other.args[0], ast.Subscript)
            # the true edge must lead to the ValidationError raise
            tb = c.branch(n, True)
            raises = [x for x in c.nodes.values() if x.kind == 'raise_stmt'
                      and (raise_class(an, f, x.ast) or '').endswith(
                          'ValidationError')]
            leads = bool(raises) and all(
                any(r.id in c.reachable(start=b, use_exc=False)
                    for r in raises) for b in tb)
            # the true edge records an error in the container whose
            # truthiness guards the raise
            pm = parent_map(f.node)
            forced = False
            holder = pm.get(n.ast)
            while holder is not None and not isinstance(holder, ast.If):
                holder = pm.get(holder)
            stored = set()
            if holder is not None:
                for s in holder.body:
                    if isinstance(s, ast.Assign):
                        for t in s.targets:
                            if isinstance(t, ast.Subscript) and \
                                    isinstance(t.value, ast.Name):
                                stored.add(t.value.id)
            for r in raises:
                g = pm.get(r.ast)
                if isinstance(g, ast.If) and isinstance(g.test, ast.Name) \
                        and g.test.id in stored and r.ast in g.body:
                    forced = True
            want[pair] = strict_gt and leads and forced
    for pair, ok in want.items():
        rep.evaluated()
        rep.check(ok, R, 'settings rejected when %s > %s' % (
            'required_leader_approvals', pair[0] if pair[0] !=
            'required_leader_approvals' else pair[1]), f.where(),
            'the settings validation no longer rejects '
            'required_leader_approvals exceeding %s' % (
                pair[0] if pair[0] != 'required_leader_approvals'
                else pair[1]))


def direct_leaves(d, e):
    """Leaves read syntactically by e itself (no expansion of locals)."""
    out = set()
    base = d.base

    def visit(x):
        if isinstance(x, ast.Call):
            dd = dotted(x.func)
            if dd:
                head = dd.split('.')[0]
                if head == base and '.' in dd:
                    out.add(dd.split('.', 1)[1] + '()')
                elif '.' not in dd and dd not in d.defs() and x.args and \
                        isinstance(x.args[0], ast.Name) and \
                        x.args[0].id == base:
                    out.add(dd + '()')
                else:
                    visit_children(x.func)
            else:
                visit(x.func)
            for a in x.args:
                visit(a)
            for k in x.keywords:
                visit(k.value)
            return
        if isinstance(x, ast.Attribute):
            dd = dotted(x)
            if dd:
                if dd.split('.')[0] == base and '.' in dd:
                    out.add(dd.split('.', 1)[1])
                return
        visit_children(x)

    def visit_children(x):
        for ch in ast.iter_child_nodes(x):
            if isinstance(ch, (ast.expr, ast.comprehension, ast.keyword)):
                visit(ch)
    visit(e)
    return out


def _is_update_of(stmt, name):
    """stmt reads `name` only to produce its next value (x += ..,
    x.add(..), x = f(x))."""
    if isinstance(stmt, ast.AugAssign):
        return isinstance(stmt.target, ast.Name) and stmt.target.id == name
    if isinstance(stmt, ast.Assign):
        return any(isinstance(t, ast.Name) and t.id == name
                   for t in stmt.targets)
    if isinstance(stmt, ast.Expr) and isinstance(stmt.value, ast.Call) and \
            isinstance(stmt.value.func, ast.Attribute) and \
            isinstance(stmt.value.func.value, ast.Name):
        return stmt.value.func.value.id == name
    return False


def final_definitions(an, f, d):
    """The binding statements whose value is read by something other than
    the next update of the same variable: `x = a; x -= b` has one final
    definition (the second), however the computation is cut into
    statements."""
    c = an.cfg(f)
    out = []
    uses = {}
    for x in walk_local(f.node, include_root=False):
        if isinstance(x, ast.Name) and isinstance(x.ctx, ast.Load) and \
                x.id in d.defs():
            st = d._stmt_of(x)
            uses.setdefault(x.id, []).append((x, st))
    for name, dl in d.defs().items():
        nodes = {id(st): set(d._node_ids(st)) for st, _ in dl}
        for st, _ in dl:
            if isinstance(st, (ast.For, ast.AsyncFor, ast.With,
                               ast.AsyncWith)):
                continue
            barrier = set()
            for k, v in nodes.items():
                if k != id(st):
                    barrier |= v
            starts = [c.done_node[id(st)]] if id(st) in c.done_node \
                else list(nodes[id(st)])
            final = False
            for u, ust in uses.get(name, ()):
                if ust is st or (isinstance(ust, ast.stmt) and
                                 _is_update_of(ust, name) and
                                 not isinstance(ust, (ast.If, ast.While))):
                    continue
                uids = set(d._use_ids(u))
                for s0 in starts:
                    if any(c.path(s0, t, removed=barrier - {t},
                                  use_exc=False) is not None
                           for t in uids):
                        final = True
                        break
                if final:
                    break
            if final:
                out.append(st)
    return out


def statement_shapes(an, f):
    """Rename- and granularity-insensitive shapes of the values the
    decision is computed from: for every final definition (see above), the
    transitive inputs of its value and the inputs of the conditions it sits
    under."""
    d = Deps(an, f)
    out = set()
    for n in final_definitions(an, f, d):
        vals = None
        if isinstance(n, (ast.Assign, ast.AnnAssign)) and \
                getattr(n, 'value', None) is not None:
            vals = [n.value]
        elif isinstance(n, ast.AugAssign):
            vals = [n.value, n.target]
        elif isinstance(n, ast.Expr) and isinstance(n.value, ast.Call) and \
                isinstance(n.value.func, ast.Attribute) and \
                isinstance(n.value.func.value, ast.Name) and \
                n.value.func.value.id in d.defs():
            vals = list(n.value.args) + [n.value.func.value]
        if vals is None:
            continue
        trans = set()
        for v in vals:
            trans |= d.leaves(v, at=n, with_control=False)
        ctl = local_control(d, n)
        if trans or ctl:
            out.add((tuple(sorted(trans)), tuple(sorted(ctl))))
    return sorted(out)


def local_control(d, stmt):
    """Leaves of the enclosing if-tests only (not of earlier exits)."""
    out = set()
    n = stmt
    while n in d.pm:
        p = d.pm[n]
        if isinstance(p, (ast.If, ast.While)) and n is not p.test:
            d._expr(p.test, d._use_ids(p.test), out, set())
        n = p
    return out


# (transitive inputs of the value, inputs of the conditions it is bound
# under) for every final definition of check_approvals on the pinned tree;
# insensitive to names and to how the computation is cut into statements,
# confirmed by reading.  Each must still be present (more are fine).
STATEMENT_SHAPES = [(('bypass_author_approval()',
   'pull_request.author',
   'pull_request.get_approvals()',
   'settings.approve',
   'settings.need_author_approval'),
  ()),
 (('bypass_author_approval()',
   'settings.approve',
   'settings.need_author_approval'),
  ()),
 (('bypass_leader_approval()',
   'pull_request.author',
   'pull_request.get_approvals()',
   'settings.approve',
   'settings.project_leaders',
   'settings.required_leader_approvals'),
  ()),
 (('bypass_leader_approval()',
   'pull_request.author',
   'pull_request.get_approvals()',
   'settings.approve',
   'settings.project_leaders',
   'settings.required_leader_approvals'),
  ('pull_request.author',
   'pull_request.get_approvals()',
   'settings.approve',
   'settings.project_leaders')),
 (('bypass_peer_approval()',
   'pull_request.author',
   'pull_request.get_approvals()',
   'settings.approve',
   'settings.required_peer_approvals'),
  ()),
 (('pull_request.author', 'pull_request.get_approvals()'),
  ('settings.approve',)),
 (('pull_request.author',
   'pull_request.get_approvals()',
   'pull_request.get_participants()',
   'settings.approve',
   'settings.robot'),
  ()),
 (('pull_request.author', 'pull_request.get_approvals()', 'settings.approve'),
  ()),
 (('pull_request.get_approvals()',), ()),
 (('pull_request.get_change_requests()',), ()),
 (('pull_request.get_participants()', 'settings.robot'), ()),
 (('settings.project_leaders',), ()),
 (('settings.required_leader_approvals',), ()),
 (('settings.required_leader_approvals',), ('bypass_leader_approval()',)),
 (('settings.required_peer_approvals',), ()),
 (('settings.required_peer_approvals',), ('bypass_peer_approval()',)),
 (('settings.robot',), ()),
 (('settings.unanimity',), ())]


def counted_sets(prog, an, rep):
    """What is counted: peers are the approvers other than the author;
    leaders are the approvers among the project leaders; unanimity compares
    the approvers with the participants, the robot left out of both."""
    from ..rules import canon, stores_to
    R = 'C04.ARG.counted-sets'
    f = need_func(an, GWF + '.check_approvals')
    job = f.params[0]
    author = job + '.pull_request.author'
    robot = job + '.settings.robot'
    # the approvals set: the local bound to set(<job>.pull_request.
    # get_approvals())
    appr = [n.targets[0].id for n in walk_local(f.node, include_root=False)
            if isinstance(n, ast.Assign) and len(n.targets) == 1 and
            isinstance(n.targets[0], ast.Name) and
            isinstance(n.value, ast.Call) and
            canon(f, n.value) == 'set(%s.pull_request.get_approvals())' % job]
    if len(appr) != 1:
        raise AnalysisError('anchor-missing approvals set in ' + f.qname)
    # (canon writes the set out where the local is read)
    A = 'set(%s.pull_request.get_approvals())' % job
    counted = []
    for x in walk_local(f.node, include_root=False):
        if isinstance(x, ast.Call) and isinstance(x.func, ast.Name) and \
                x.func.id == 'len' and len(x.args) == 1:
            t = canon(f, x.args[0])
            if A in t or any(isinstance(n, ast.Name) and n.id == appr[0]
                             for n in ast.walk(x.args[0])):
                counted.append((x, t))
    leaders = [t for _, t in counted if 'intersection' in t or '&' in t]
    peers = [(x, t) for x, t in counted if t not in leaders]
    rep.floor('C04 counted approval sets', len(counted), 2)
    rep.evaluated()
    rep.check(len(peers) == 1 and peers[0][1] == '%s - {%s}' % (A, author),
              R, f.qname + ': peers are the approvers other than the author',
              f.where(peers[0][0] if peers else None), 'the peer count is '
              'taken over %s' % [t for _, t in peers])
    rep.evaluated()
    rep.check(len(leaders) == 1 and leaders[0].startswith(
        A + '.intersection(') or leaders[0].startswith(A + ' & '), R,
        f.qname + ': leaders are counted among the approvers', f.where(),
        'the leader count is taken over %s' % leaders)


def shapes(prog, an, rep):
    from collections import Counter
    f = need_func(an, GWF + '.check_approvals')
    found = set(statement_shapes(an, f))
    want = set(STATEMENT_SHAPES)
    missing = want - found
    rep.evaluated(len(want))
    for sh in sorted(missing):
        extra = sorted(found - want)
        rep.violation('C04.DEP.statement-inputs', f.qname +
                      ': value with inputs %s' % (sh,), f.where(),
                      'a computation step of the approval decision lost or '
                      'changed its inputs: expected (value=%s, guard=%s); '
                      'unmatched values now: %s' % (sh[0], sh[1], extra[:3]))
    if not missing:
        rep.ok('C04.DEP.statement-inputs', f.qname + ': %d computation '
               'steps keep their inputs' % len(want), f.where())
