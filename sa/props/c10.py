"""C10 - re-evaluation converges, never spams, commands run once
(single comment channel, de-duplication, command shielding, no state kept
between jobs)."""
import ast

from ..program import AnalysisError, walk_local, dotted
from ..analysis import Spec, src, class_const, const_value
from ..rules import (ctext, value_leaves, positional_args, canon, inside, before, GWF, EXC, mpt, need_func, stores_to, raise_class,
                     parent_map, kw, is_const, eval_atom, UNKNOWN,
                     explicit_exits)
from . import common
from .c07 import _expand, _explore
from .c12 import _first_exit

PRU = 'bert_e.workflow.pr_utils'
TEMPLATE = EXC + '.TemplateException'
REPEATABLE = {'HelpMessage', 'CommandNotImplemented', 'StatusReport',
              'PartialMerge'}
# module / class level state that is meant to survive a job (one reason each)
ALLOWED_STATE = {
    'bert_e.git_host.cache.BUILD_STATUS_CACHE':
        'the build status cache (property C17)',
    'bert_e.git_host.factory._API_CLIENTS':
        'git host client registry, filled by class decorators at import '
        'time',
}
# module-level containers that are handed to other code, read off the pinned
# tree (anything else handed out is reported)
HANDED_OUT = {
    'bert_e.server.api.FORMS':
        'registry of form classes, passed to the template renderer of the '
        'management page (read only, server side, no job involved)',
}
BERTE_ATTRS = {'status', 'tasks_done', 'task_queue', 'settings', 'client',
               'project_repo', 'git_repo', 'tmpdir'}


def run(prog, an, rep):
    rep.explain(
        'C10: WMC (add_comment only from _send_comment, _send_comment only '
        'from notify_user), MPT (de-duplication before posting), REG '
        '(dont_repeat_if_in_history values; repetition only for the frozen '
        'set of user-requested replies), EXH (find_comment with -1 stops at '
        'the first different robot comment), EXH (every command handler '
        'exits by raising a TemplateException), MPT (commands read only '
        'after the robot\'s last message, newest first), ARG (option '
        'defaults copied), WMC (no job-to-job state besides the listed '
        'caches), MPT (clone reset before dispatch).')
    rep.assume('that two more evaluations reach a fixed point, and that the '
               'content of consecutive messages differs when it should, is '
               'not decided')
    rep.run_rules(prog, an, [comment_channel, dedup, repeat_registry,
                             find_comment_rules, commands_answer,
                             commands_shielded, defaults_copied,
                             no_cross_job_state, reset_before_dispatch])


def comment_channel(prog, an, rep):
    R = 'C10.WMC.comment-channel'
    n = 0
    for f in prog.all_funcs():
        if f.module.name.startswith('bert_e.git_host'):
            continue
        for call in prog.calls_in(f):
            if isinstance(call.func, ast.Attribute) and \
                    call.func.attr == 'add_comment':
                n += 1
                rep.evaluated()
                rep.check(f.qname == PRU + '._send_comment', R,
                          'add_comment called from ' + f.qname,
                          f.where(call), 'a comment is posted directly from '
                          '%s, bypassing the de-duplicating channel' %
                          f.qname)
    rep.floor('C10 add_comment call sites outside git_host', n, 1)
    sc = need_func(an, PRU + '._send_comment')
    m = 0
    for f in prog.all_funcs():
        for call in an.direct_calls(f, Spec.func(sc.qname)):
            m += 1
            rep.evaluated()
            rep.check(f.qname == PRU + '.notify_user', R,
                      '_send_comment called from ' + f.qname, f.where(call),
                      '_send_comment is called from %s without the '
                      'message\'s own repetition policy' % f.qname)
    rep.floor('C10 _send_comment call sites', m, 1)
    nu = need_func(an, PRU + '.notify_user')
    for call in an.direct_calls(nu, Spec.func(sc.qname)):
        rep.evaluated()
        cparam = nu.params[2]
        bound = positional_args(nu, call) or []
        args = [canon(nu, a) for _, a in bound]
        ok = len(args) == 4 and args[2] == 'str(%s)' % cparam and \
            args[3] == '%s.dont_repeat_if_in_history' % cparam
        rep.check(ok, 'C10.ARG.comment-channel', nu.qname + ': message and '
                  'its own repetition policy are forwarded', nu.where(call),
                  '_send_comment receives %s' % args, detail=str(args))


def dedup(prog, an, rep):
    R = 'C10.MPT.dedup'
    f = need_func(an, PRU + '._send_comment')
    c = an.cfg(f)
    pol = f.params[3] if len(f.params) > 3 else None
    posts = [n for n in c.nodes.values() if n.kind == 'stmt' and any(
        isinstance(x, ast.Call) and isinstance(x.func, ast.Attribute) and
        x.func.attr == 'add_comment' for x in ast.walk(n.ast))]
    rep.floor('C10 posting statements in _send_comment', len(posts), 1)
    pol_false = an.branch_nodes(
        f, lambda e: isinstance(e, ast.Name) and e.id == pol, False)
    fc = Spec.func(PRU + '.find_comment')

    def has_fc(e):
        return any(isinstance(x, ast.Call) and an.call_matches(f, x, fc)
                   for x in ast.walk(e))
    fc_false = an.branch_nodes(f, has_fc, False)
    fc_true = an.branch_nodes(f, has_fc, True)
    for p_ in posts:
        rep.evaluated()
        ok, path = c.must_pass(pol_false + fc_false, p_.id)
        rep.check(ok and bool(fc_false), R, f.qname + ': add_comment only '
                  'if the history was searched (or repetition allowed)',
                  f.where(p_), 'a comment can be posted without the '
                  'duplicate search', path=c.describe_path(path))
    for b in fc_true:
        first = _first_exit(an, f, c, b)
        rep.check(first is not None and first[0] == 'raise' and
                  (first[1] or '').endswith('.CommentAlreadyExists'), R,
                  f.qname + ': a found duplicate aborts the posting',
                  f.where(), 'a duplicate found in the history leads to %s' %
                  (first,))
    for call in an.direct_calls(f, fc):
        rep.evaluated()
        tgt = prog.funcs[PRU + '.find_comment']
        b = dict(zip(tgt.params, call.args))
        for k in call.keywords:
            b[k.arg] = k.value
        ok = src(b.get('pull_request', ast.Constant(value=0))) == \
            f.params[1] and \
            src(b.get('username', ast.Constant(value=0))).endswith(
                'settings.robot') and \
            src(b.get('startswith', ast.Constant(value=0))) == f.params[2] \
            and src(b.get('max_history', ast.Constant(value=0))) == pol
        rep.check(ok, 'C10.ARG.dedup', f.qname + ': searches the robot\'s '
                  'comments for this very message with the class policy',
                  f.where(call), 'find_comment arguments: %s' % {
                      k: src(v) for k, v in b.items()})
    k = prog.cls(EXC + '.CommentAlreadyExists')
    rep.check(prog.is_subclass(k, EXC + '.SilentException'), R,
              'CommentAlreadyExists is silent', k.where(),
              'CommentAlreadyExists is not a SilentException')


def repeat_registry(prog, an, rep):
    R = 'C10.REG.repeat-policy'
    zero = set()
    n = 0
    for k in prog.subclasses(TEMPLATE):
        n += 1
        rep.evaluated()
        v = class_const(prog, k, 'dont_repeat_if_in_history')
        ok = v is None or (isinstance(v, int) and not isinstance(v, bool)
                           and v >= -1)
        rep.check(ok, R, k.name + '.dont_repeat_if_in_history in '
                  '{None, -1, n >= 0}', k.where(), 'policy value %r' % (v,))
        if v is not None and not isinstance(v, bool) and v == 0:
            zero.add(k.name)
        if isinstance(v, bool) and not v:
            zero.add(k.name)
    rep.floor('C10 TemplateException classes', n, 36)
    extra = zero - REPEATABLE
    rep.check(not extra, R, 'only replies to explicit user commands (and '
              'the partial-merge notice) may repeat', EXC.replace('.', '/')
              + '.py', 'classes %s allow the same message twice in a row' %
              sorted(extra), detail=str(sorted(zero)))
    base = prog.cls(TEMPLATE)
    v = class_const(prog, base, 'dont_repeat_if_in_history')
    rep.check(v == -1, R, 'TemplateException default policy is -1 (never '
              'twice in a row)', base.where(), 'default policy is %r' % (v,))


def find_comment_rules(prog, an, rep):
    R = 'C10.EXH.find-comment'
    f = need_func(an, PRU + '.find_comment')
    c = an.cfg(f)
    loops = [n for n in walk_local(f.node, include_root=False)
             if isinstance(n, ast.For)]
    if len(loops) != 1:
        raise AnalysisError('find_comment: expected one loop')
    loop = loops[0]
    head = c.stmt_node[id(loop)]
    user, sw, mh = f.params[1], f.params[2], f.params[3]
    it = loop.iter
    # whatever local / slice / conditional expression it goes through, what
    # is iterated is reversed(<pr>.comments)
    leaves = value_leaves(f, it, through=('islice',))
    ok_it = bool(leaves) and all(
        v is not None and src(v) == 'reversed(%s.comments)' % f.params[0]
        for v in leaves)
    for x in walk_local(f.node, include_root=False):
        if isinstance(x, ast.Call) and \
                (dotted(x.func) or '').endswith('islice'):
            ok_it = ok_it and len(x.args) == 3 and is_const(x.args[1], 0)
    rep.check(ok_it, R, f.qname + ': newest comment first', f.where(loop),
              'loop iterates %s' % src(it), detail=src(it))
    # truth table over (author is robot, text starts with msg, max_history)
    cvar = loop.target.id
    a_auth = '%s.author != %s' % (cvar, user)
    a_sw = '%s.text.startswith(%s)' % (cvar, sw)
    tb = [s for s in c.succ[head] if c.nodes[s].kind == 'true']
    rows = 0
    for other, starts, hist in [(o, s, h) for o in (True, False)
                                for s in (True, False)
                                for h in (-1, None, 10)]:
        env = {a_auth: other, a_sw: starts, mh: hist, sw: 'msg'}
        got = set()
        for s0 in tb:
            got |= _explore(an, f, c, s0, env, set())
        if other:
            want = {('next-keyword',)}        # skip non-robot comments
        elif starts:
            want = {('return',)}              # found: return the comment
        elif hist == -1:
            want = {('return',)}              # latest robot msg differs
        else:
            want = {('next-keyword',)}
        rows += 1
        rep.evaluated()
        rep.check(got == want, R, '%s: other-author=%s starts=%s '
                  'max_history=%s' % (f.qname, other, starts, hist),
                  f.where(loop), 'find_comment does %s, required %s' % (
                      sorted(map(str, got)), sorted(map(str, want))))
    # what is returned in the two 'return' rows: the comment vs None
    from .c17 import _returns
    found = _returns(an, f, c, {a_auth: False, a_sw: True, mh: None,
                                sw: 'msg'})
    differs = _returns(an, f, c, {a_auth: False, a_sw: False, mh: -1,
                                  sw: 'msg'})
    rep.check(ctext(f, cvar) in found and differs == {None}, R,
              f.qname + ': returns the matching comment, or None when the '
              'latest differs', f.where(loop), 'a matching comment gives %s, '
              'a different latest robot comment gives %s' % (
                  sorted(map(str, found)), sorted(map(str, differs))))


def _raises_template(prog, an, f, seen=None, depth=0):
    """All exits of f (following noreturn callees) raise TemplateException
    subclasses.  Returns list of problems."""
    seen = seen or set()
    if f.qname in seen or depth > 4:
        return []
    seen.add(f.qname)
    problems = []
    for kind, n, info in explicit_exits(an, f):
        if kind == 'raise':
            if info == 'reraise':
                continue
            if not info or not prog.is_subclass(info, TEMPLATE):
                problems.append('%s raises %s' % (f.where(n), info))
        elif kind in ('return', 'fall'):
            problems.append('%s returns normally' % f.where(n))
        elif kind == 'noreturn-call':
            for x in ast.walk(n.ast):
                if isinstance(x, ast.Call):
                    cal = prog.callee(f, x)
                    if cal[0] == 'func' and cal[1] in an.noreturn:
                        problems += _raises_template(
                            prog, an, prog.funcs[cal[1]], seen, depth + 1)
    return problems


def commands_answer(prog, an, rep):
    R = 'C10.EXH.command-answers'
    _, cmds = common.reactor_registry(prog, an)
    rep.floor('C10 registered commands', len(cmds), 7)
    for key, cmd in sorted(cmds.items()):
        h = cmd['handler']
        rep.evaluated()
        if h is None:
            rep.violation(R, 'command ' + key, cmd['where'],
                          'command %s has no resolvable handler' % key)
            continue
        probs = _raises_template(prog, an, h)
        rep.check(not probs, R, 'command %s (%s) always ends with a robot '
                  'message' % (key, h.name), h.where(),
                  'command %s can finish without posting: %s -- it would be '
                  'executed again at every evaluation' % (key, probs[:3]))


def commands_shielded(prog, an, rep):
    R = 'C10.MPT.command-shield'
    f = need_func(an, GWF + '.handle_comments')
    c = an.cfg(f)
    job = f.params[0]
    pm = parent_map(f.node)
    calls = an.direct_calls(f, Spec.func('bert_e.reactor.Reactor.'
                                         'handle_commands'))
    if not calls:
        raise AnalysisError('anchor-missing handle_commands call')
    for call in calls:
        loop = call
        while loop in pm and not isinstance(loop, ast.For):
            loop = pm[loop]
        if not isinstance(loop, ast.For):
            rep.violation(R, f.qname + ': commands loop', f.where(call),
                          'handle_commands is not called in a loop')
            continue
        rep.evaluated()
        rep.check(src(loop.iter) == 'reversed(%s.pull_request.comments)' %
                  job, R, f.qname + ': commands are read newest first',
                  f.where(loop), 'commands loop iterates %s' %
                  src(loop.iter), detail=src(loop.iter))
        cvar = loop.target.id
        head = c.stmt_node[id(loop)]
        tb = [s for s in c.succ[head] if c.nodes[s].kind == 'true']

        def is_robot_test(e):
            if not (isinstance(e, ast.Compare) and len(e.ops) == 1 and
                    isinstance(e.ops[0], (ast.Eq, ast.NotEq))):
                return False
            txt = {src(_expand(f, loop, e.left)),
                   src(_expand(f, loop, e.comparators[0]))}
            return txt == {cvar + '.author', job + '.settings.robot'}
        tests = [t for t in an.test_nodes(f, is_robot_test)
                 if inside(loop, t)]
        gates, stops = [], []
        for t in tests:
            eq = isinstance(t.matched.ops[0], ast.Eq)
            gates += c.branch(t, not eq)
            stops += c.branch(t, eq)
        tnode = None
        for n in c.nodes.values():
            if n.kind == 'stmt' and any(x is call for x in ast.walk(n.ast)):
                tnode = n
        ok = bool(gates)
        path = None
        for s0 in tb:
            p_ = c.path(s0, tnode.id, removed=set(gates))
            if p_ is not None:
                ok, path = False, p_
        rep.evaluated()
        rep.check(ok, R, f.qname + ': a command is executed only if no '
                  'robot message is newer', f.where(call), 'commands are '
                  'executed without checking for a newer robot message',
                  path=c.describe_path(path))
        for b in stops:
            # (return, or break out of the loop: no command is read after)
            again = tnode.id in c.reachable(start=b)
            rep.check(not again, R,
                      f.qname + ': the robot\'s last message ends the '
                      'command search', f.where(loop), 'after meeting a '
                      'robot comment the search goes on to older comments')


def defaults_copied(prog, an, rep):
    R = 'C10.ARG.defaults-copied'
    f = need_func(an, 'bert_e.reactor.Reactor.init_settings')
    stores = [n for n in walk_local(f.node, include_root=False)
              if isinstance(n, ast.Assign) and
              isinstance(n.targets[0], ast.Subscript) and
              src(n.targets[0].value).endswith('.settings')]
    rep.evaluated()
    rep.check(bool(stores), R, f.qname + ': stores each option separately',
              f.where(), 'init_settings no longer assigns job.settings[key] '
              'option by option: the defaults cannot be copied per job '
              '(bulk update shares mutable defaults between jobs)')
    for st in stores:
        rep.evaluated()
        v = st.value
        ok = isinstance(v, ast.Call) and len(v.args) == 1 and \
            src(v.args[0]).endswith('.default')
        if ok:
            cal = prog.callee(f, v)
            ok = cal[0] == 'ext' and cal[1] in ('copy.copy', 'copy.deepcopy')
        rep.check(ok, R, f.qname + ': each job gets a copy of the option '
                  'default', f.where(st), 'option defaults are stored as %s: '
                  'a mutable default (the set of after_pull_request) is '
                  'shared between jobs' % src(v), detail=src(v))
    it = [n for n in walk_local(f.node, include_root=False)
          if isinstance(n, ast.For)]
    rep.check(len(it) == 1 and 'get_options()' in canon(f, it[0].iter), R,
              f.qname + ': every registered option is re-initialised',
              f.where(), 'init_settings no longer iterates get_options()')
    hc = need_func(an, GWF + '.handle_comments')
    mpt(an, rep, 'C10.MPT.defaults-before-options', hc,
        Spec.func('bert_e.reactor.Reactor.handle_options'),
        [Spec.func('bert_e.reactor.Reactor.init_settings')], depth=1)
    mpt(an, rep, 'C10.MPT.defaults-before-options', hc,
        Spec.func('bert_e.reactor.Reactor.handle_commands'),
        [Spec.func('bert_e.reactor.Reactor.init_settings')], depth=1)


MUTABLE_CTORS = {'dict', 'list', 'set', 'defaultdict', 'OrderedDict',
                 'deque', 'LRUCache', 'Counter', 'ChainMap'}
MUT_METHODS = {'append', 'add', 'update', 'setdefault', 'pop', 'clear',
               'extend', 'insert', 'remove', 'discard', 'appendleft',
               'popitem', 'set', 'put', '__setitem__'}


def _is_mutable_value(v):
    if isinstance(v, (ast.Dict, ast.List, ast.Set, ast.ListComp,
                      ast.DictComp, ast.SetComp)):
        return True
    if isinstance(v, ast.Call):
        d = dotted(v.func) or ''
        return d.rpartition('.')[2] in MUTABLE_CTORS
    return False


def no_cross_job_state(prog, an, rep):
    R = 'C10.WMC.cross-job-state'
    # (a) global statements
    for f in prog.all_funcs():
        if f.module.name == 'bert_e.git_host.mock' or \
                f.module.name.startswith('bert_e.bin'):
            continue
        for n in walk_local(f.node, include_root=False):
            if isinstance(n, (ast.Global, ast.Nonlocal)) and \
                    isinstance(n, ast.Global):
                rep.violation(R, '%s: global %s' % (f.qname,
                                                    ','.join(n.names)),
                              f.where(n), 'module-level state written from '
                              'a function: it survives into the next job')
    # (b) module-level mutable containers and who mutates them
    containers = {}
    for m in prog.modules.values():
        if m.name == 'bert_e.git_host.mock' or m.name.startswith(
                'bert_e.bin'):
            continue
        for name, v in m.consts.items():
            if _is_mutable_value(v):
                containers[m.name + '.' + name] = (m, name)
    rep.floor('C10 module-level mutable containers', len(containers), 3)
    for f in prog.all_funcs():
        for n in walk_local(f.node, include_root=False):
            tgt = None
            if isinstance(n, ast.Call) and \
                    isinstance(n.func, ast.Attribute) and \
                    n.func.attr in MUT_METHODS:
                tgt = n.func.value
            elif isinstance(n, (ast.Assign, ast.AugAssign)):
                ts = n.targets if isinstance(n, ast.Assign) else [n.target]
                for t in ts:
                    if isinstance(t, ast.Subscript):
                        tgt = t.value
            if tgt is None:
                continue
            base = tgt
            while isinstance(base, (ast.Subscript, ast.Call)):
                base = base.value if isinstance(base, ast.Subscript) \
                    else (base.func.value if isinstance(
                        base.func, ast.Attribute) else base.func)
            q = prog.resolve_expr(f.module, base, f)
            if q in containers:
                rep.evaluated()
                rep.check(q in ALLOWED_STATE, R, '%s mutates module state '
                          '%s' % (f.qname, q), f.where(n),
                          '%s writes into module-level container %s, which '
                          'survives into the next job' % (f.qname, q),
                          detail=ALLOWED_STATE.get(q))
    # (b') a module-level container handed to a call, stored in an
    # attribute or returned becomes part of whatever object receives it:
    # every job then shares that one object
    pm_cache = {}
    for f in prog.all_funcs():
        if f.module.name == 'bert_e.git_host.mock' or \
                f.module.name.startswith('bert_e.bin'):
            continue
        for n in walk_local(f.node, include_root=False):
            if not (isinstance(n, ast.Name) and
                    isinstance(n.ctx, ast.Load)):
                continue
            q = prog.resolve_expr(f.module, n, f)
            if q not in containers or q in ALLOWED_STATE or \
                    q in HANDED_OUT:
                continue
            if n.id in f.params or any(
                    v is not None or True for _, v in stores_to(f, n.id)):
                continue        # a local of the same name
            pm_ = pm_cache.setdefault(f.qname, parent_map(f.node))
            par = pm_.get(n)
            # (a copy, a length, an iteration hands nothing out)
            copying = isinstance(par, ast.Call) and (
                src(par.func) in ('dict', 'list', 'set', 'tuple',
                                  'frozenset', 'sorted', 'len', 'bool',
                                  'copy.copy', 'copy.deepcopy', 'deepcopy',
                                  'copy', 'iter', 'enumerate', 'any', 'all',
                                  'isinstance'))
            escapes = (isinstance(par, ast.Call) and n in par.args and
                       not copying) or \
                isinstance(par, (ast.keyword, ast.Return)) or \
                (isinstance(par, ast.Assign) and par.value is n) or \
                (isinstance(par, ast.BoolOp)) or \
                (isinstance(par, ast.IfExp) and n is not par.test)
            rep.evaluated()
            rep.check(not escapes, R, '%s hands out module-level container '
                      '%s' % (f.qname, q), f.where(n), 'the module-level '
                      'mutable object %s is passed on / stored / returned by '
                      '%s: whatever a job writes into it is seen by the '
                      'next job' % (q, f.qname))
    # (c) attributes of the long-lived BertE instance
    be = prog.cls('bert_e.bert_e.BertE')
    for f in prog.all_funcs():
        if f.module.name == 'bert_e.git_host.mock':
            continue
        for n in walk_local(f.node, include_root=False):
            ts = []
            if isinstance(n, ast.Assign):
                ts = n.targets
            elif isinstance(n, (ast.AugAssign, ast.AnnAssign)):
                ts = [n.target]
            for t in ts:
                if not isinstance(t, ast.Attribute):
                    continue
                recv = src(t.value)
                on_berte = recv.endswith('bert_e') or (
                    recv == 'self' and f.cls is not None and
                    prog.is_subclass(f.cls, be.qname))
                if not on_berte:
                    continue
                rep.evaluated()
                ok = t.attr in BERTE_ATTRS and (
                    f.qname == be.qname + '.__init__' or recv != 'self' and
                    False or f.qname == be.qname + '.__init__')
                ok = ok or (f.qname == be.qname + '.__init__')
                rep.check(ok, R, '%s sets BertE.%s' % (f.qname, t.attr),
                          f.where(n), 'attribute %s of the long-lived BertE '
                          'instance is written while handling a job' %
                          t.attr)
            if isinstance(n, ast.Call) and isinstance(n.func, ast.Name) and \
                    n.func.id == 'setattr' and n.args and \
                    src(n.args[0]).endswith('bert_e'):
                rep.violation(R, '%s: setattr on BertE' % f.qname,
                              f.where(n), 'dynamic attribute on the '
                              'long-lived BertE instance')
    # status dict keys written
    keys = set()
    for f in prog.all_funcs():
        for n in walk_local(f.node, include_root=False):
            if isinstance(n, ast.Assign):
                for t in n.targets:
                    if isinstance(t, ast.Subscript) and \
                            src(t.value).endswith('.status') and \
                            'self' in src(t.value) and \
                            isinstance(t.slice, ast.Constant):
                        keys.add(t.slice.value)
            if isinstance(n, ast.Call) and \
                    isinstance(n.func, ast.Attribute) and \
                    n.func.attr == 'setdefault' and \
                    src(n.func.value) == 'self.status' and n.args and \
                    isinstance(n.args[0], ast.Constant):
                keys.add(n.args[0].value)
    rep.check(keys <= {'current job', 'merge queue', 'merged PRs'}, R,
              'BertE.status holds only reporting entries', be.where(),
              'BertE.status gets keys %s' % sorted(keys),
              detail=str(sorted(keys)))
    # (d) the cascade lives on the per-job namespace
    rj = prog.cls('bert_e.job.RepoJob').methods['__init__']
    ok = any(isinstance(n, ast.Assign) and
             src(n.targets[0]) == 'self.git' and
             isinstance(n.value, ast.Call) and
             src(n.value.func) == 'SimpleNamespace' and
             any(k.arg == 'cascade' and is_const(k.value, None)
                 for k in n.value.keywords)
             for n in walk_local(rj.node, include_root=False))
    rep.check(ok, R, 'RepoJob.git is a fresh namespace with cascade=None',
              rj.where(), 'the per-job git namespace no longer starts with '
              'an empty cascade')
    # (e) function-result caches
    for f in prog.all_funcs():
        if f.module.name == 'bert_e.git_host.mock':
            continue
        for d in f.decorators:
            dd = dotted(d.func if isinstance(d, ast.Call) else d) or ''
            if dd.rpartition('.')[2] in ('lru_cache', 'cache',
                                         'cached_property'):
                rep.evaluated()
                rep.check(f.qname == 'bert_e.git_host.github.Client.'
                          '_get_installation_token', R,
                          '%s is memoised' % f.qname, f.where(),
                          '%s caches results across jobs' % f.qname,
                          detail='installation token cache, keyed by a '
                                 '10-minute ttl argument')


def reset_before_dispatch(prog, an, rep):
    common.reset_before_dispatch(prog, an, rep, 'C10')
