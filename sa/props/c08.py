"""C08 - Bert-E never rewrites or deletes what it does not own."""
import ast
import re
import itertools

from ..program import AnalysisError, walk_local, dotted
from ..analysis import Spec, src, const_value
from ..rules import (canon, locals_bound_to, substitute_locals, cond_tree, string_template, GWF, EXC, mpt, need_func, stores_to, raise_class,
                     parent_map, kw, is_const, eval_atom, UNKNOWN)
from . import common, gitcmds
from .c07 import _explore

GIT = 'bert_e.lib.git'
GU = 'bert_e.workflow.git_utils'
FORBIDDEN_PUSH = {'--force', '-f', '--force-with-lease', '--mirror',
                  '--delete', '-d', '--force-if-includes', '--prune-tags'}
FORBIDDEN_SUB = {'update-ref', 'filter-branch', 'rebase', 'replace',
                 'reflog', 'gc', 'prune', 'commit-tree', 'symbolic-ref'}
OWNED = ('w/', 'q/', 'tmp/')
PUSH_SHAPES = [
    ['git', 'push', '--set-upstream', 'origin', '<ARG>'],
    ['git', 'push', '--all', '--atomic'],
    ['git', 'push', 'origin', '<ARG>'],
]


def run(prog, an, rep):
    rep.explain(
        'C08: CMD (census of every git command constant reaching '
        'Repository.cmd: allowed push shapes, no forcing token, no '
        'history-rewriting sub-command, wildcard deletion --prune '
        'reported), EXH (16-row truth table of the Branch.remove owner '
        'guard), KWC (force= only from the delete-branch job after the '
        'archive tag is pushed; hard reset to origin only on integration '
        'branches), ARG (refspecs: deletion refspec only inside '
        'Branch.remove; temporary branches are robot-prefixed and removed '
        'on every normal path), SIB (remove overrides).')
    rep.assume('remote branch protection is not modelled; git honours '
               'non-forced pushes as fast-forward-only')
    rep.run_rules(prog, an, [command_census, prune_is_wildcard_delete,
                             refspecs, remove_guard, remove_overrides,
                             force_only_from_delete_job, hard_resets,
                             temporaries, push_selection])


def command_census(prog, an, rep):
    R = 'C08.CMD.census'
    cmds, unfolded = gitcmds.census(prog, an)
    rep.floor('C08 git command constants', len(cmds), 28)
    for f, call in unfolded:
        rep.violation(R, '%s: command %s' % (f.qname, src(call.args[0])),
                      f.where(call), 'a git command is built from a value '
                      'the census cannot fold: it may force or delete '
                      'anything')
    for c in cmds:
        rep.evaluated()
        t = c.tokens
        name = '%s: `%s`' % (c.f.qname, c.text.strip())
        if not t or t[0] != 'git':
            rep.violation(R, name, c.where, 'non-git command run in the '
                          'clone')
            continue
        if c.sub in FORBIDDEN_SUB:
            rep.violation(R, name, c.where, 'history-rewriting / ref-'
                          'plumbing sub-command %s' % c.sub)
            continue
        if c.sub == 'push':
            bad = [x for x in t[2:] if x in FORBIDDEN_PUSH or
                   x.startswith('+') or x.startswith('--force')]
            core = [x for x in t if x != '--prune']
            ok = not bad and core in PUSH_SHAPES
            rep.check(ok, R, name, c.where,
                      'push command outside the allowed shapes%s' % (
                          ' (forcing / deleting token %s)' % bad if bad
                          else ''), detail=' '.join(t))
            continue
        if c.sub == 'branch':
            ok = ('-f' not in t and '--force' not in t and '-M' not in t
                  and '-m' not in t)
            if '-D' in t or '-d' in t or '--delete' in t:
                ok = ok and c.f.qname == GIT + '.Branch.remove'
            rep.check(ok, R, name, c.where, 'branch deletion / forced '
                      'branch move outside Branch.remove')
            continue
        if c.sub == 'checkout':
            rep.check('-B' not in t and '-f' not in t and '--force' not in t,
                      R, name, c.where, 'checkout -B / -f resets a branch')
            continue
        if c.sub == 'reset':
            rep.check(c.f.qname == GIT + '.Branch.reset', R, name, c.where,
                      'git reset outside Branch.reset')
            continue
        if c.sub == 'tag':
            rep.check(not ({'-d', '--delete', '-f', '--force'} & set(t)), R,
                      name, c.where, 'tag deletion / forced tag')
            continue
        if c.sub == 'fetch':
            # `fetch --prune` only prunes the local mirror cache
            rep.check(c.f.qname == GIT + '.Repository.clone', R, name,
                      c.where, 'fetch outside the clone routine')
            continue
        rep.ok(R, name, c.where)
    # subprocess / os.system outside simplecmd: another way to run git
    for f in prog.all_funcs():
        if f.module.name in ('bert_e.lib.simplecmd', 'bert_e.git_host.mock') \
                or f.module.name.startswith('bert_e.bin'):
            continue
        for call in prog.calls_in(f):
            cal = prog.callee(f, call)
            if cal[0] == 'ext' and (cal[1].startswith('subprocess.') or
                                    cal[1] in ('os.system', 'os.popen')):
                rep.violation(R, '%s: %s' % (f.qname, cal[1]),
                              f.where(call), 'a process is spawned outside '
                              'bert_e.lib.simplecmd: not covered by the '
                              'command census')
        sc = Spec.func('bert_e.lib.simplecmd.cmd')
        for call in an.direct_calls(f, sc):
            rep.check(f.qname == GIT + '.Repository.cmd', R,
                      'simplecmd.cmd called from ' + f.qname, f.where(call),
                      'commands are run without going through '
                      'Repository.cmd (not in the census)')


ABSORBS = {'CommandError', 'Exception', 'BaseException'}


def swallowing_handler(f, call):
    """The handler of an enclosing try (the call being in its body) that
    catches the CommandError of a git command and never re-raises, or
    None."""
    from ..rules import parent_map
    pm = parent_map(f.node)
    n = call
    while n in pm:
        p = pm[n]
        if (isinstance(p, ast.Try) or p.__class__.__name__ == 'TryStar') \
                and any(n is b for b in p.body):
            for h in p.handlers:
                ts = [h.type] if h.type is not None and not isinstance(
                    h.type, ast.Tuple) else (
                        list(h.type.elts) if h.type is not None else [None])
                names = {None if t is None else src(t).rpartition('.')[2]
                         for t in ts}
                if not (None in names or names & ABSORBS):
                    continue
                if any(isinstance(x, ast.Raise) for b in h.body
                       for x in ast.walk(b)):
                    break       # (this handler gets it, and can re-raise)
                return h
        n = p
    return None


def prune_is_wildcard_delete(prog, an, rep):
    """`git push --all --prune` deletes every remote branch that has no
    local counterpart in the job's clone -- including branches created by
    third parties after the clone was taken.  Each way to reach it is
    reported (genuine defect F-C08-1, see known_findings.json)."""
    R = 'C08.CMD.push-prune'
    cmds, _ = gitcmds.census(prog, an)
    for c in cmds:
        if c.sub == 'push' and '--prune' in c.tokens:
            rep.violation(R, c.f.qname, c.where, '`%s` deletes remote '
                          'branches Bert-E does not own (any branch absent '
                          'from the job\'s clone)' % c.text.strip())
        elif '--prune' in c.tokens and c.sub not in (
                'fetch', 'remote', 'pull', 'gc', 'worktree', 'reflog'):
            # (fetch / remote update / remote prune / gc only drop refs and
            # objects of the local repository)
            rep.violation(R, c.f.qname, c.where, '`%s`' % c.text.strip())
    # the long-lived mirror (the only repository refreshed in place, with
    # cwd=) forgets the branches deleted on the remote: `push --all` from a
    # clone of a stale mirror would re-create other people's deleted
    # branches at their old tip
    n_refresh = 0
    for c in cmds:
        cwd = kw(c.call, 'cwd')
        if cwd is None or is_const(cwd, None):
            continue
        if canon(c.f, cwd) in ('self.cmd_directory', 'None'):
            continue        # the job's own clone, thrown away with the job
        if c.sub in ('fetch', 'pull') or (
                c.sub == 'remote' and 'update' in c.tokens):
            n_refresh += 1
            rep.evaluated()
            rep.check('--prune' in c.tokens or '-p' in c.tokens,
                      'C08.CMD.mirror-prune', c.f.qname + ': the mirror is '
                      'refreshed with --prune', c.where, '`%s` (cwd=%s) '
                      'refreshes the long-lived mirror without pruning: '
                      'branches deleted on the remote survive in it and are '
                      'pushed back by the next `push --all`' % (
                          c.text.strip(), src(cwd)))
            # ... and a failed refresh aborts the clone: carrying on with
            # a stale mirror gives the job a clone without the branches
            # pushed since, which the job's `push --all --prune` then
            # deletes on the remote.  No enclosing try may absorb the
            # CommandError of this command (a handler that can re-raise,
            # e.g. the last attempt of a retry, is accepted).
            rep.evaluated()
            sw = swallowing_handler(c.f, c.call)
            rep.check(sw is None, 'C08.CMD.mirror-refresh-fails-hard',
                      c.f.qname + ': a failed refresh of the mirror aborts '
                      'the clone', c.where, '`%s` (cwd=%s) runs under '
                      '`except %s` at line %s, which carries on with the '
                      'stale mirror: branches pushed since the last refresh '
                      'are absent from the clone and are deleted by the '
                      'job\'s `push --all --prune`' % (
                          c.text.strip(), src(cwd),
                          src(sw.type) if sw is not None and sw.type
                          is not None else '', getattr(sw, 'lineno', '?')))
    rep.floor('C08 in-place refresh of the mirror', n_refresh, 1)
    push = prog.func(GU + '.push')
    n = 0
    for f in prog.all_funcs():
        if f.module.name == 'bert_e.git_host.mock':
            continue
        for call in prog.calls_in(f):
            v = kw(call, 'prune')
            cal = prog.callee(f, call)
            is_push = cal[0] == 'func' and cal[1] in (
                push.qname, GIT + '.Repository.push_all') or (
                    isinstance(call.func, ast.Attribute) and
                    call.func.attr == 'push_all')
            if not is_push and v is None:
                continue
            if is_push and v is None and cal[0] == 'func' and \
                    cal[1] == push.qname and len(call.args) > 2:
                v = call.args[2]
            if v is None or is_const(v, False):
                continue
            if f.qname in (push.qname,) and isinstance(v, ast.Name):
                continue   # forwarding of its own parameter
            n += 1
            rep.violation(R, f.qname, f.where(call), 'publishes with '
                          'prune=%s: wildcard deletion of remote branches' %
                          src(v), caller=f.qname)
    rep.evaluated(n + 1)


def refspecs(prog, an, rep):
    R = 'C08.ARG.refspec'
    n = 0
    for f in prog.all_funcs():
        if f.module.name == 'bert_e.git_host.mock':
            continue
        for call in prog.calls_in(f):
            fn = call.func
            if not (isinstance(fn, ast.Attribute) and fn.attr == 'push' and
                    src(fn.value).rpartition('.')[2] in ('repo', '_repo')):
                continue
            n += 1
            rep.evaluated()
            a = call.args[0] if call.args else None
            vals = gitcmds.possible_strings(f, a) if a is not None else None
            if vals is None:
                # a plain name: self.name / a parameter
                ok = a is not None and src(a) in ('self.name', 'name')
                rep.check(ok, R, '%s: repo.push(%s)' % (
                    f.qname, src(a) if a is not None else ''), f.where(call),
                    'refspec %s cannot be shown to be a plain branch name' %
                    (src(a) if a is not None else '?'))
                continue
            for v in vals:
                if v.startswith(':'):
                    rep.check(f.qname == GIT + '.Branch.remove', R,
                              '%s: deletion refspec' % f.qname,
                              f.where(call), 'a remote ref is deleted '
                              'outside the owner-guarded Branch.remove')
                elif v.startswith('+'):
                    rep.violation(R, '%s: forced refspec' % f.qname,
                                  f.where(call), 'forced update refspec')
                else:
                    rep.ok(R, '%s: repo.push(%s)' % (f.qname, src(a)),
                           f.where(call))
    rep.floor('C08 Repository.push call sites', n, 2)
    # names handed to the retrying wrapper are quoted branch names
    g = need_func(an, GU + '.push')
    joins = [x for x in walk_local(g.node, include_root=False)
             if isinstance(x, ast.Call) and isinstance(x.func, ast.Attribute)
             and x.func.attr == 'join']
    ok = False
    comp = substitute_locals(g, joins[0].args[0]) \
        if len(joins) == 1 and joins[0].args else None
    if isinstance(comp, (ast.GeneratorExp, ast.ListComp)):
        t = string_template(comp.elt)
        # each element is '<name>' (quoted), no +/: prefix, no filter
        ok = t is not None and t[0] == "'{}'" and len(t[1]) == 1 and \
            src(t[1][0]) == src(comp.generators[0].target) + '.name' and \
            not comp.generators[0].ifs and len(comp.generators) == 1
    rep.check(ok, R, g.qname + ': refspecs are quoted branch names',
              g.where(), 'git_utils.push builds refspecs as %s' %
              [src(j) for j in joins])


def push_selection(prog, an, rep):
    """git_utils.push(repo, branches): everything is pushed (`--all`) only
    when no selection was asked for (branches is None); an empty selection
    pushes nothing, a selection pushes the selection."""
    from ..rules import reachable_under
    R = 'C08.EXH.push-selection'
    g = need_func(an, GU + '.push')
    c = an.cfg(g)
    sel = g.params[1]

    def refs(node, attr):
        return node.ast is not None and node.kind in ('stmt', 'test') and \
            any(isinstance(x, ast.Attribute) and x.attr == attr and
                src(x.value) == g.params[0] for x in ast.walk(node.ast))
    everything = {n.id for n in c.nodes.values() if refs(n, 'push_all')}
    selected = {n.id for n in c.nodes.values() if refs(n, 'push')}
    rep.floor('C08 push / push_all references in git_utils.push',
              len(everything) + len(selected), 2)
    for label, value, may_all, may_sel in (
            ('branches=None', None, True, False),
            ('branches=[] (empty selection)', [], False, False),
            ('branches=[b] (a selection)', ['b'], False, True)):
        rep.evaluated()
        live = reachable_under(an, g, {sel: value})
        got_all, got_sel = bool(live & everything), bool(live & selected)
        rep.check((got_all, got_sel) == (may_all, may_sel), R,
                  '%s: %s pushes %s' % (g.qname, label, 'everything'
                                        if may_all else 'the selection'
                                        if may_sel else 'nothing'),
                  g.where(), 'with %s: push --all %s, push of the selection '
                  '%s' % (label, 'reachable' if got_all else 'unreachable',
                          'reachable' if got_sel else 'unreachable'))


def remove_guard(prog, an, rep):
    R = 'C08.EXH.remove-guard'
    f = need_func(an, GIT + '.Branch.remove')
    c = an.cfg(f)
    lits = []
    atoms = []
    # owner tests: <self>.name.startswith('<prefix>'), in any spelling
    # (one call per prefix, a tuple of prefixes, through a local)
    pat = re.compile(r"^%s\.name\.startswith\('([^']*)'\)$" % f.params[0])

    def collect(t):
        if t[0] == 'atom':
            m = pat.match(t[1])
            if m and t[1] not in atoms:
                lits.append(m.group(1))
                atoms.append(t[1])
        elif t[0] == 'not':
            collect(t[1])
        elif t[0] in ('and', 'or'):
            for k in t[1]:
                collect(k)
    for t in an.test_nodes(f, lambda e: True):
        collect(cond_tree(t.ast, f))
    force = 'force' if 'force' in f.params else None
    rep.check(force is not None, R, f.qname + ': force parameter',
              f.where(), 'Branch.remove lost its force parameter')
    rep.check(set(lits) <= set(OWNED) and len(lits) >= 1, R,
              f.qname + ': owner prefixes within {w/, q/, tmp/}',
              f.where(), 'Branch.remove accepts prefixes %s' % lits,
              detail=str(lits))
    a = f.node.args
    defaults = dict(zip([x.arg for x in a.args][-len(a.defaults):],
                        a.defaults))
    rep.check(is_const(defaults.get('force'), False), 'C08.KWC.force',
              f.qname + ': force defaults to False', f.where(),
              'force defaults to %s' % src(defaults['force'])
              if 'force' in defaults else 'no default')
    destructive = [n for n in c.nodes.values() if n.kind == 'stmt' and (
        'branch -D' in src(n.ast) or '.push(' in src(n.ast))]
    rep.floor('C08 destructive statements in Branch.remove',
              len(destructive), 2)
    rows = 0
    for vals in itertools.product((True, False), repeat=len(atoms) + 1):
        env = dict(zip(atoms + [force], vals))
        env.update({'del_local': True, 'do_push': True})
        got = _explore(an, f, c, c.entry, env,
                       {d.id for d in destructive})
        owned = any(env[x] for x in atoms)
        allowed = owned or env[force]
        rows += 1
        rep.evaluated()
        if allowed:
            ok = ('raise', GIT + '.ForbiddenOperation') not in got and \
                ('handler',) in got
        else:
            ok = got == {('raise', GIT + '.ForbiddenOperation')}
        if not ok:
            rep.violation(R, '%s: guard row %s' % (f.qname, env), f.where(),
                          'with %s Branch.remove does %s' % (
                              {k: v for k, v in env.items()
                               if k not in ('del_local', 'do_push')},
                              sorted(map(str, got))))
    if not any(v.rule == R and 'guard row' in v.construct
               for v in rep.violations):
        rep.ok(R, '%s: %d-row owner-guard truth table' % (f.qname, rows),
               f.where())


def remove_overrides(prog, an, rep):
    R = 'C08.SIB.remove-overrides'
    base = prog.cls(GIT + '.Branch')
    n = 0
    for k in prog.subclasses(base.qname, strict=True):
        m = k.methods.get('remove')
        if m is None:
            continue
        n += 1
        rep.evaluated()
        body = [s for s in m.node.body
                if not (isinstance(s, ast.Expr) and
                        isinstance(s.value, ast.Constant))]
        if k.name == 'GhostIntegrationBranch':
            rep.check(all(isinstance(s, ast.Pass) for s in body), R,
                      k.name + '.remove is a no-op (it stands for the '
                      'source branch)', m.where(), 'removing the ghost '
                      'integration branch now does something: the pull '
                      'request source branch can be deleted')
            continue
        supers = [c for c in prog.calls_in(m)
                  if isinstance(c.func, ast.Attribute) and
                  c.func.attr == 'remove' and
                  src(c.func.value).startswith('super(')]
        ok = len(supers) == 1 and not any(
            kx.arg == 'force' and not is_const(kx.value, False)
            for kx in supers[0].keywords) and len(supers[0].args) < 2
        others = [c for c in prog.calls_in(m)
                  if gitcmds.is_repo_cmd(prog, m, c) or (
                      isinstance(c.func, ast.Attribute) and
                      c.func.attr == 'push')]
        rep.check(ok and not others, R, k.name + '.remove delegates to the '
                  'guarded Branch.remove without force', m.where(),
                  '%s.remove bypasses the owner guard' % k.name)
    gk = prog.cls(GWF + '.branches.GhostIntegrationBranch')
    rep.check('remove' in gk.methods, R, 'GhostIntegrationBranch overrides '
              'remove', gk.where(), 'GhostIntegrationBranch.remove was '
              'deleted: removing it falls back to the real removal of the '
              'pull request source branch')
    rep.floor('C08 remove overrides', n, 2)


def force_only_from_delete_job(prog, an, rep):
    R = 'C08.KWC.force'
    sites = 0
    for f in prog.all_funcs():
        if f.module.name == 'bert_e.git_host.mock':
            continue
        for call in prog.calls_in(f):
            if not (isinstance(call.func, ast.Attribute) and
                    call.func.attr == 'remove'):
                continue
            v = kw(call, 'force')
            pos = call.args[1] if len(call.args) > 1 else None
            if v is None and pos is None:
                continue
            sites += 1
            rep.evaluated()
            ok = f.qname == 'bert_e.jobs.delete_branch.do_delete' and \
                isinstance(v, ast.Name) and v.id in f.params
            rep.check(ok or is_const(v, False), R,
                      '%s: remove(force=%s)' % (f.qname, src(v or pos)),
                      f.where(call), 'force=%s disables the owner guard of '
                      'Branch.remove outside the delete-branch job' %
                      src(v or pos))
    rep.floor('C08 remove(force=...) sites', sites, 1)
    dd = need_func(an, 'bert_e.jobs.delete_branch.do_delete')
    job = need_func(an, 'bert_e.jobs.delete_branch.delete_branch')
    c = an.cfg(job)
    forced = []
    for g in prog.all_funcs():
        for call in an.direct_calls(g, Spec.func(dd.qname)):
            v = kw(call, 'force') or (call.args[1] if len(call.args) > 1
                                      else None)
            if v is None or is_const(v, False):
                continue
            rep.evaluated()
            rep.check(g.qname == job.qname and is_const(v, True), R,
                      'do_delete(force=True) in ' + g.qname, g.where(call),
                      'forced deletion requested from %s' % g.qname)
            if g.qname == job.qname:
                forced.append(call)
    rep.floor('C08 forced deletions in delete_branch', len(forced), 1)
    # archive tag created and pushed first
    cmds, _ = gitcmds.census(prog, an)
    tag_create = [x for x in cmds if x.f.qname == job.qname and
                  x.tokens[:2] == ['git', 'tag'] and len(x.tokens) == 3]
    tag_push = [x for x in cmds if x.f.qname == job.qname and
                x.tokens[:3] == ['git', 'push', 'origin']]
    gates_c, gates_p = [], []
    for n in c.nodes.values():
        if n.kind == 'stmt':
            for x in ast.walk(n.ast):
                if any(x is t.call for t in tag_create):
                    gates_c += c.done_of(n)
                if any(x is t.call for t in tag_push):
                    gates_p += c.done_of(n)
    for call in forced:
        tn = [n for n in c.nodes.values() if n.kind == 'stmt' and
              any(x is call for x in ast.walk(n.ast))]
        for t in tn:
            for label, g in (('created', gates_c), ('pushed', gates_p)):
                rep.evaluated()
                ok, path = c.must_pass(g, t.id)
                rep.check(ok and bool(g), 'C08.MPT.archive-tag',
                          '%s: archive tag %s before the forced deletion' % (
                              job.qname, label), job.where(t),
                          'the destination branch can be deleted before its '
                          'archive tag is %s' % label,
                          path=c.describe_path(path))
    # tag name derives from the deleted branch's version; tag is put on it
    for t in tag_create:
        a = t.call.args[0]
        tpl = string_template(a)
        names = (list(tpl[1]) if tpl is not None else []) + \
            list(t.call.args[1:])
        ok = False
        for nm in names:
            if isinstance(nm, ast.Name):
                vals = [src(v) for _, v in stores_to(job, nm.id)
                        if v is not None]
                # (a value built from the name itself extends the tag)
                ok = any('.version' in v for v in vals) and all(
                    '.version' in v or nm.id in
                    {x.id for x in ast.walk(ast.parse(v, mode='eval'))
                     if isinstance(x, ast.Name)} for v in vals)
            elif nm is not None and '.version' in src(nm):
                ok = True
        rep.check(ok, 'C08.ARG.archive-tag', job.qname + ': tag named after '
                  'the deleted version', t.where, 'archive tag name does '
                  'not derive from <branch>.version')
    co = an.gate_nodes(job, Spec.method('checkout'), depth=0)
    for t in tag_create:
        tn = [n for n in c.nodes.values() if n.kind == 'stmt' and
              any(x is t.call for x in ast.walk(n.ast))]
        for n in tn:
            ok, path = c.must_pass(co, n.id)
            rep.check(ok and bool(co), 'C08.MPT.archive-tag', job.qname +
                      ': the branch is checked out before it is tagged',
                      job.where(n), 'the archive tag may be put on another '
                      'commit', path=c.describe_path(path))


def hard_resets(prog, an, rep):
    R = 'C08.KWC.hard-reset'
    n = 0
    for f in prog.all_funcs():
        if f.module.name == 'bert_e.git_host.mock':
            continue
        for call in prog.calls_in(f):
            if not (isinstance(call.func, ast.Attribute) and
                    call.func.attr == 'reset'):
                continue
            recv = src(call.func.value)
            if recv.endswith('git_repo') or recv in ('self', 'retry'):
                continue
            n += 1
            rep.evaluated()
            origin = kw(call, 'origin')
            if origin is None and len(call.args) > 1:
                origin = call.args[1]
            if origin is not None and is_const(origin, False):
                rep.ok(R, '%s: %s.reset(origin=False)' % (f.qname, recv),
                       f.where(call), 'reset to itself (aborts a merge)')
                continue
            # hard reset to origin/<name>: only on the integration branches
            pm = parent_map(f.node)
            loop = call
            while loop in pm and not isinstance(loop, ast.For):
                loop = pm[loop]
            ok = f.qname == GWF + '._handle_pull_request' and \
                isinstance(loop, ast.For) and \
                isinstance(loop.target, ast.Name) and \
                loop.target.id == recv and src(loop.iter) in \
                locals_bound_to(f, pred=lambda t: 'create_integration_branches('
                                in t)
            rep.check(ok, R, '%s: %s.reset(origin)' % (f.qname, recv),
                      f.where(call), 'a branch other than an integration '
                      'branch is hard-reset to its remote state')
    rep.floor('C08 Branch.reset call sites', n, 4)
    f = need_func(an, GIT + '.Branch.reset')
    cmds, _ = gitcmds.census(prog, an)
    mine = [c for c in cmds if c.f.qname == f.qname]
    rep.check(len(mine) == 1 and mine[0].tokens[:3] == ['git', 'reset',
                                                        '--hard'], R,
              f.qname + ': one `git reset --hard <ref>`', f.where(),
              'Branch.reset runs %s' % mine)


def temporaries(prog, an, rep):
    R = 'C08.ARG.temporaries'
    n = 0
    for f in prog.all_funcs():
        if f.module.name == 'bert_e.git_host.mock':
            continue
        for st in walk_local(f.node, include_root=False):
            if not (isinstance(st, ast.Assign) and
                    isinstance(st.value, ast.Call)):
                continue
            cal = prog.callee(f, st.value)
            if cal != ('class', GIT + '.Branch'):
                continue
            if len(st.value.args) < 2 or \
                    not isinstance(st.targets[0], ast.Name):
                continue
            var = st.targets[0].id
            names = gitcmds.possible_strings(f, st.value.args[1])
            n += 1
            rep.evaluated()
            ok = names is not None and all(
                any(x.startswith(p_) for p_ in OWNED) for x in names)
            rep.check(ok, R, '%s: temporary %s is robot-prefixed' % (
                f.qname, var), f.where(st), 'temporary branch named %s is '
                'outside w/ q/ tmp/ (cannot be removed, would be published '
                'by push --all)' % (names,))
            c = an.cfg(f)
            rm = an.gate_nodes(f, Spec.method('remove', r'^%s$' % var),
                               depth=0)
            rep.evaluated()
            ok, path = c.must_pass(rm, c.exit, use_exc=False)
            rep.check(ok and bool(rm), R, '%s: temporary %s removed on '
                      'every normal path' % (f.qname, var), f.where(st),
                      'temporary branch %s survives a normal return: the '
                      'next `push --all` publishes it' % var,
                      path=c.describe_path(path))
    rep.floor('C08 temporary branches', n, 3)
